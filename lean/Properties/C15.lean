import Proofs.Resample
import ModelD.Resample
import Mathlib.Data.List.Sort
/-! # C15 — volume-weighted resampling (`stats.resample_orientations`)

The numeric model is `ModelR.resampleSnap` / `ModelR.resample` (template `tmpl/Resample`),
the shape logic is `ModelD.Resample`. Conventions used below, for one snapshot:

* `f` the volume fractions, `A` the orientations (any payload type `α`), `perm` the index
  array returned by `np.argsort(f)` — only assumed to be a permutation of `0..M-1`
  (numpy's default sort is not stable, so nothing else may be assumed about ties);
* `fa = gather f perm` the fractions in that order, `cumfrac fa` the searched array
  (prefix sums, last entry overwritten by 1), `pre fa i` the sum of the first `i` entries;
* `us` the variates returned by `rng.random(n_samples)`, each in `[0, 1)`.

Uniformity of the PRNG is the one trusted ingredient: the probability statement is a statement
about the Lebesgue measure of the set of variates that select a given grain. -/
namespace ModelR
open List MeasureTheory Set

/-- **`searchsorted` specification.** For non-negative normalised volumes and a variate
`u ≤ 1` the returned position is a valid index, and it is `i` exactly when
`pre i < u ≤ pre (i+1)` (no lower bound for `i = 0`). -/
theorem searchsorted_spec (fa : List ℝ) (hne : fa ≠ []) (hpos : ∀ x ∈ fa, 0 ≤ x)
    (hsum : fa.sum = 1) (u : ℝ) (hu : u ≤ 1) :
    searchsortedLeft (cumfrac fa) u < fa.length ∧
    ∀ i, i < fa.length →
      (searchsortedLeft (cumfrac fa) u = i ↔ (i = 0 ∨ pre fa i < u) ∧ u ≤ pre fa (i + 1)) :=
  ⟨ss_cumfrac_lt fa hne u hu, fun i hi => select_iff fa hpos hsum u i hi⟩

/-- the selecting interval of position `i` has length exactly the volume of that grain -/
theorem interval_length (fa : List ℝ) (i : ℕ) (hi : i < fa.length) :
    pre fa (i + 1) - pre fa i = fa[i] := by
  rw [pre_succ fa i hi]; ring

/-- **each position is drawn with probability equal to its volume**: the Lebesgue measure of
the variates in `[0,1)` that select position `i` of the ascending order is `fa[i]`. -/
theorem selection_probability (fa : List ℝ) (hpos : ∀ x ∈ fa, 0 ≤ x) (hsum : fa.sum = 1)
    (i : ℕ) (hi : i < fa.length) :
    volume {u : ℝ | u ∈ Ico (0:ℝ) 1 ∧ searchsortedLeft (cumfrac fa) u = i} = ENNReal.ofReal fa[i] :=
  volume_select fa hpos hsum i hi

/-- **each original grain `g` is drawn with probability `f[g]`**, whatever permutation the
sort returned: measure of `{u ∈ [0,1) | perm[searchsorted(cumfrac, u)] = g}` is `f[g]`. -/
theorem grain_selection_probability (perm : List ℕ) (f : List ℝ)
    (hperm : perm.Perm (List.range f.length)) (hpos : ∀ x ∈ f, 0 ≤ x) (hsum : f.sum = 1)
    (g : ℕ) (hg : g < f.length) :
    volume {u : ℝ | u ∈ Ico (0:ℝ) 1 ∧ perm[searchsortedLeft (cumfrac (gather f perm)) u]? = some g}
      = ENNReal.ofReal f[g] := by
  have hlt := perm_index_lt perm hperm
  have hlen : (gather f perm).length = perm.length := gather_length f perm hlt
  have hgp : g ∈ perm := hperm.mem_iff.mpr (by simpa using hg)
  obtain ⟨i, hi, hig⟩ := List.getElem_of_mem hgp
  have hnd : perm.Nodup := hperm.nodup_iff.mpr List.nodup_range
  have hfa_pos : ∀ x ∈ gather f perm, 0 ≤ x := fun x hx => hpos x (mem_gather f perm x hx)
  have hfa_sum : (gather f perm).sum = 1 := by rw [(gather_perm f perm hperm).sum_eq, hsum]
  have hi' : i < (gather f perm).length := by omega
  have hval : (gather f perm)[i] = f[g] := by
    rw [getElem_gather f perm hlt i hi']; simp [hig]
  rw [← hval, ← volume_select (gather f perm) hfa_pos hfa_sum i hi']
  congr 1
  ext u
  simp only [mem_ofPred_eq]
  constructor
  · rintro ⟨hu, hsel⟩
    refine ⟨hu, ?_⟩
    obtain ⟨hk, hkg⟩ := List.getElem?_eq_some_iff.mp hsel
    exact (hnd.getElem_inj_iff).mp (hkg.trans hig.symm)
  · rintro ⟨hu, hsel⟩
    refine ⟨hu, ?_⟩
    rw [hsel, List.getElem?_eq_getElem hi, hig]

/-- **sample statistics target the volume-weighted statistics**: for a uniform variate on
`[0,1)` the expected value of any per-grain quantity `g` of the selected grain is the
volume-weighted sum `Σ fa[i] · g i` (the law of large numbers, which is not formalised, then
gives convergence of the sample means). -/
theorem expectation_eq_weighted (fa : List ℝ) (hne : fa ≠ []) (hpos : ∀ x ∈ fa, 0 ≤ x) (hsum : fa.sum = 1)
    (g : ℕ → ℝ) :
    ∫ u in Ico (0:ℝ) 1, g (searchsortedLeft (cumfrac fa) u)
      = ∑ i ∈ Finset.range fa.length, (fa.getD i 0) * g i := by
  have hcongr : ∀ u ∈ Ico (0:ℝ) 1, g (searchsortedLeft (cumfrac fa) u)
      = ∑ i ∈ Finset.range fa.length, (selSet fa i).indicator (fun _ => g i) u := by
    intro u hu
    have hlt := ss_cumfrac_lt fa hne u hu.2.le
    rw [Finset.sum_eq_single (searchsortedLeft (cumfrac fa) u)]
    · rw [indicator_of_mem]
      exact ⟨hu, rfl⟩
    · intro j _ hj
      rw [indicator_of_notMem]
      rintro ⟨_, h⟩; exact hj h.symm
    · intro h; exact absurd (Finset.mem_range.mpr hlt) h
  rw [setIntegral_congr_fun measurableSet_Ico hcongr]
  rw [integral_finsetSum]
  · apply Finset.sum_congr rfl
    intro i hi
    have hi' : i < fa.length := Finset.mem_range.mp hi
    have hm := measurableSet_selSet fa hpos hsum i hi'
    rw [integral_indicator_const _ hm]
    have hsub : selSet fa i ⊆ Ico (0:ℝ) 1 := fun u hu => hu.1
    have hvol : (volume.restrict (Ico (0:ℝ) 1)) (selSet fa i) = ENNReal.ofReal fa[i] := by
      rw [Measure.restrict_apply hm, inter_eq_left.mpr hsub]
      exact volume_select fa hpos hsum i hi'
    simp only [Measure.real, hvol, smul_eq_mul]
    rw [ENNReal.toReal_ofReal (hpos _ (getElem_mem hi'))]
    rw [← List.getElem_eq_getD (h := hi')]
  · intro i hi
    have hi' : i < fa.length := Finset.mem_range.mp hi
    have hm := measurableSet_selSet fa hpos hsum i hi'
    apply Integrable.indicator _ hm
    exact integrable_const _

/-- **membership**: every resampled pair is an `(orientation, volume)` pair of the input
snapshot (no hypotheses at all). -/
theorem pair_membership {α : Type} (perm : List ℕ) (A : List α) (f : List ℝ) (us : List ℝ) :
    ∀ p ∈ resampleSnap perm A f us, p ∈ List.zip A f := by
  intro p hp
  simp only [resampleSnap] at hp
  exact mem_gather _ _ _ (mem_gather _ _ _ hp)

/-- membership for the whole stack: the pairs of output snapshot `i` come from input snapshot `i` -/
theorem pair_membership_stack {α : Type} (perms : List (List ℕ)) (A : List (List α))
    (F U : List (List ℝ)) (i : ℕ) (hi : i < (resample perms A F U).length)
    (hA : i < A.length) (hF : i < F.length) :
    ∀ p ∈ (resample perms A F U)[i], p ∈ List.zip A[i] F[i] := by
  induction perms generalizing A F U i with
  | nil => simp [resample] at hi
  | cons q qs ih =>
    cases A with
    | nil => simp [resample] at hi
    | cons a as =>
    cases F with
    | nil => simp [resample] at hi
    | cons f fs =>
    cases U with
    | nil => simp [resample] at hi
    | cons u us =>
      cases i with
      | zero => simpa [resample] using pair_membership q a f u
      | succ k =>
        simp only [resample, getElem_cons_succ]
        exact ih as fs us k (by simpa [resample] using hi) (by simpa using hA) (by simpa using hF)

/-- **output length of one snapshot = number of variates** (`n_samples`) -/
theorem snapshot_length {α : Type} (perm : List ℕ) (A : List α) (f : List ℝ) (us : List ℝ)
    (hperm : perm.Perm (List.range f.length)) (hA : A.length = f.length) (hne : f ≠ [])
    (hus : ∀ u ∈ us, u ≤ 1) :
    (resampleSnap perm A f us).length = us.length := by
  have hlt := perm_index_lt perm hperm
  have hlen : (gather f perm).length = f.length := by
    rw [gather_length f perm hlt, hperm.length_eq, length_range]
  have hz : (List.zip A f).length = f.length := by simp [hA]
  have hlenz : (gather (List.zip A f) perm).length = f.length := by
    rw [gather_length _ perm (by rw [hz]; exact hlt), hperm.length_eq, length_range]
  have hne' : gather f perm ≠ [] := by
    intro h; rw [h] at hlen; exact hne (List.length_eq_zero_iff.mp hlen.symm)
  simp only [resampleSnap]
  rw [gather_length]
  · simp [countLess]
  · intro k hk
    simp only [countLess, mem_map] at hk
    obtain ⟨u, hu, rfl⟩ := hk
    rw [hlenz, ← hlen]
    exact ss_cumfrac_lt _ hne' u (hus u hu)

/-- **which pair is returned for the `k`-th variate**: the orientation and the volume of the
same original grain `g = perm[searchsorted(cumfrac, us[k])]`. -/
theorem output_getElem {α : Type} (perm : List ℕ) (A : List α) (f : List ℝ) (us : List ℝ)
    (hperm : perm.Perm (List.range f.length)) (hA : A.length = f.length) (hne : f ≠ [])
    (hus : ∀ u ∈ us, u ≤ 1) (k : ℕ) (hk : k < us.length) :
    ∃ (g : ℕ) (hg : g < f.length),
      perm[searchsortedLeft (cumfrac (gather f perm)) us[k]]? = some g ∧
      (resampleSnap perm A f us)[k]'(by rw [snapshot_length perm A f us hperm hA hne hus]; exact hk)
        = (A[g]'(by omega), f[g]) := by
  have hlt := perm_index_lt perm hperm
  have hlen : (gather f perm).length = f.length := by
    rw [gather_length f perm hlt, hperm.length_eq, length_range]
  have hpl : perm.length = f.length := by rw [hperm.length_eq, length_range]
  have hz : (List.zip A f).length = f.length := by simp [hA]
  have hltz : ∀ j ∈ perm, j < (List.zip A f).length := by rw [hz]; exact hlt
  have hlenz : (gather (List.zip A f) perm).length = f.length := by
    rw [gather_length _ perm hltz, hpl]
  have hne' : gather f perm ≠ [] := by
    intro h; rw [h] at hlen; exact hne (List.length_eq_zero_iff.mp hlen.symm)
  have hidx : ∀ j ∈ countLess (gather f perm) us, j < (gather (List.zip A f) perm).length := by
    intro j hj
    simp only [countLess, mem_map] at hj
    obtain ⟨u, hu, rfl⟩ := hj
    rw [hlenz, ← hlen]
    exact ss_cumfrac_lt _ hne' u (hus u hu)
  set s := searchsortedLeft (cumfrac (gather f perm)) us[k] with hs
  have hs_lt : s < perm.length := by
    rw [hpl, ← hlen]; exact ss_cumfrac_lt _ hne' _ (hus _ (getElem_mem _))
  refine ⟨perm[s], hlt _ (getElem_mem _), List.getElem?_eq_getElem hs_lt, ?_⟩
  simp only [resampleSnap]
  rw [getElem_gather _ _ hidx]
  have hck : (countLess (gather f perm) us)[k]'(by simp [countLess]; exact hk) = s := by
    simp [countLess, hs]
  simp only [hck]
  rw [getElem_gather _ _ hltz]
  simp

/-- **zero-volume grains are never drawn** (for variates `0 < u < 1`).
The hypothesis `0 < u` is forced: `u = 0.0` selects position 0 of the ascending order, which is
a zero-volume grain whenever one exists (`Witness/C15.lean`). `Generator.random` returns
`k · 2⁻⁵³`, so this is an event of probability `2⁻⁵³` per draw. -/
theorem zero_volume_never_drawn {α : Type} (perm : List ℕ) (A : List α) (f : List ℝ) (us : List ℝ)
    (hperm : perm.Perm (List.range f.length)) (hA : A.length = f.length)
    (hpos : ∀ x ∈ f, 0 ≤ x) (hsum : f.sum = 1) (hus : ∀ u ∈ us, 0 < u ∧ u < 1) :
    ∀ p ∈ resampleSnap perm A f us, p.2 ≠ 0 := by
  intro p hp hzero
  have hne : f ≠ [] := by intro h; rw [h] at hsum; simp at hsum
  have hus' : ∀ u ∈ us, u ≤ 1 := fun u hu => (hus u hu).2.le
  have hlt := perm_index_lt perm hperm
  have hpl : perm.length = f.length := by rw [hperm.length_eq, length_range]
  have hfa_pos : ∀ x ∈ gather f perm, 0 ≤ x := fun x hx => hpos x (mem_gather f perm x hx)
  have hfa_sum : (gather f perm).sum = 1 := by rw [(gather_perm f perm hperm).sum_eq, hsum]
  have hlen : (gather f perm).length = f.length := by rw [gather_length f perm hlt, hpl]
  obtain ⟨k, hk, hpk⟩ := List.getElem_of_mem hp
  have hk' : k < us.length := by rwa [snapshot_length perm A f us hperm hA hne hus'] at hk
  obtain ⟨g, hg, hsel, hout⟩ := output_getElem perm A f us hperm hA hne hus' k hk'
  set u := us[k] with hu
  set s := searchsortedLeft (cumfrac (gather f perm)) u with hs
  obtain ⟨hsp, hsg⟩ := List.getElem?_eq_some_iff.mp hsel
  have hs_fa : s < (gather f perm).length := by rw [hlen, ← hpl]; exact hsp
  have hfas : (gather f perm)[s] = 0 := by
    rw [getElem_gather f perm hlt s hs_fa]
    simp only [hsg]
    rw [← hzero, ← hpk, hout]
  have hsel2 := (select_iff (gather f perm) hfa_pos hfa_sum u s hs_fa).mp rfl
  have hstep := pre_succ (gather f perm) s hs_fa
  rw [hfas, add_zero] at hstep
  have hu01 := hus u (getElem_mem _)
  rcases hsel2.1 with h0 | h0
  · rw [hstep, h0, pre_zero] at hsel2
    linarith [hu01.1, hsel2.2]
  · rw [hstep] at hsel2
    linarith [hsel2.2]

/-- **output shapes, data level**: `N` output snapshots, each with `n_samples` pairs. -/
theorem stack_shapes {α : Type} (perms : List (List ℕ)) (A : List (List α)) (F U : List (List ℝ))
    (n N : ℕ) (hp : perms.length = N) (hA : A.length = N) (hF : F.length = N) (hU : U.length = N)
    (hperm : ∀ i (h1 : i < perms.length) (h2 : i < F.length), perms[i].Perm (List.range F[i].length))
    (hAF : ∀ i (h1 : i < A.length) (h2 : i < F.length), A[i].length = F[i].length)
    (hne : ∀ f ∈ F, f ≠ []) (hu : ∀ us ∈ U, us.length = n ∧ ∀ u ∈ us, u ≤ 1) :
    (resample perms A F U).length = N ∧ ∀ o ∈ resample perms A F U, o.length = n := by
  induction N generalizing perms A F U with
  | zero =>
    have : perms = [] := List.length_eq_zero_iff.mp hp
    subst this; simp [resample]
  | succ m ih =>
    obtain ⟨q, qs, rfl⟩ := List.exists_cons_of_length_eq_add_one hp
    obtain ⟨a, as, rfl⟩ := List.exists_cons_of_length_eq_add_one hA
    obtain ⟨f, fs, rfl⟩ := List.exists_cons_of_length_eq_add_one hF
    obtain ⟨u, us, rfl⟩ := List.exists_cons_of_length_eq_add_one hU
    have h0 := snapshot_length q a f u (hperm 0 (by simp) (by simp)) (hAF 0 (by simp) (by simp))
      (hne f (by simp)) (hu u (by simp)).2
    have hrec := ih qs as fs us (by simpa using hp) (by simpa using hA) (by simpa using hF)
      (by simpa using hU)
      (fun i h1 h2 => by
        have := hperm (i + 1) (by simpa using h1) (by simpa using h2)
        simp only [getElem_cons_succ] at this; exact this)
      (fun i h1 h2 => by
        have := hAF (i + 1) (by simpa using h1) (by simpa using h2)
        simp only [getElem_cons_succ] at this; exact this)
      (fun g hg => hne g (by simp [hg])) (fun w hw => hu w (by simp [hw]))
    refine ⟨by simp [resample, hrec.1], ?_⟩
    intro o ho
    simp only [resample, mem_cons] at ho
    rcases ho with rfl | ho
    · rw [h0]; exact (hu u (by simp)).1
    · exact hrec.2 o ho

/-- **tie-breaking of the sort does not matter for the volumes**: two ascending arrangements of
the same fractions are equal, so `frac_ascending`, the searched array, the selected positions
and the output volumes do not depend on which sorting permutation `np.argsort` returns. -/
theorem sorted_fractions_unique (p q : List ℕ) (f : List ℝ)
    (hp : p.Perm (List.range f.length)) (hq : q.Perm (List.range f.length))
    (hps : (gather f p).Pairwise (· ≤ ·)) (hqs : (gather f q).Pairwise (· ≤ ·)) :
    gather f p = gather f q :=
  ((gather_perm f p hp).trans (gather_perm f q hq).symm).eq_of_pairwise' hps hqs

/-- the model's executable stable argsort is a sorting permutation (so the hypotheses on `perm`
are satisfiable for every input, and the driver's own sort is one of the admissible ones) -/
theorem argsort_is_sorting_perm (f : List ℝ) :
    (argsortStable f).Perm (List.range f.length) ∧ (gather f (argsortStable f)).Pairwise (· ≤ ·) :=
  ⟨argsortStable_perm f, argsortStable_sorted f⟩

/-- the searched array is ascending, and numpy's binary search on it returns the position used
in all statements above -/
theorem binary_search_agrees (fa : List ℝ) (hpos : ∀ x ∈ fa, 0 ≤ x) (hle : fa.sum ≤ 1) (u : ℝ) :
    (cumfrac fa).Pairwise (· ≤ ·) ∧
    bsearchLeft (cumfrac fa) u (cumfrac fa).length 0 (cumfrac fa).length
      = searchsortedLeft (cumfrac fa) u :=
  ⟨cumfrac_sorted fa hpos hle, bsearchLeft_full _ (cumfrac_sorted fa hpos hle) u⟩

/-! ### shape validation (`ModelD.Resample`) -/
open ModelD.Resample in
/-- **validation (repaired code)**: the shape test accepts exactly orientations `(N, M, 3, 3)`
with fractions `(N, M)`. -/
theorem validation_iff (os fs : List ℕ) : rejectFixed os fs = false ↔ WellFormed os fs := by
  constructor
  · intro h
    simp only [rejectFixed, Bool.or_eq_false_iff, bne_eq_false_iff_eq, dim] at h
    obtain ⟨⟨⟨⟨h4, h2⟩, h0⟩, h1⟩, h3⟩ := h
    match os, fs, h4, h2 with
    | [a, b, c, d], [e, g], _, _ =>
      simp at h0 h1 h3
      exact ⟨a, b, by rw [h3.1, h3.2], by rw [h0, h1]⟩
  · rintro ⟨N, M, rfl, rfl⟩
    simp [rejectFixed, dim]

open ModelD.Resample in
/-- every shape combination that is not well-formed is answered with `ValueError` -/
theorem malformed_rejected (os fs : List ℕ) (n : Option ℕ) (h : ¬ WellFormed os fs) :
    outcome rejectFixed os fs n = .error .valueError := by
  have : rejectFixed os fs = true := by
    by_contra hc
    exact h ((validation_iff os fs).mp (by simpa using hc))
  simp [outcome, this]

open ModelD.Resample in
/-- **output shapes**: a well-formed call with `N ≥ 1`, `M ≥ 1` returns arrays of shapes
`(N, n_samples, 3, 3)` and `(N, n_samples)`, with `n_samples` defaulting to `M`. -/
theorem output_shapes (N M : ℕ) (n : Option ℕ) (hN : 0 < N) (hM : 0 < M) :
    outcome rejectFixed [N, M, 3, 3] [N, M] n
      = .ok ([N, n.getD M, 3, 3], [N, n.getD M]) := by
  have hr : rejectFixed [N, M, 3, 3] [N, M] = false := (validation_iff _ _).mpr ⟨N, M, rfl, rfl⟩
  have hN' : N ≠ 0 := by omega
  have hM' : M ≠ 0 := by omega
  simp [outcome, hr, dim, broadcastOk, hN', hM']

open ModelD.Resample in
/-- what the pinned (pre-repair) test accepted: equal trailing extents **or** last extent 3 -/
theorem coded_validation_iff (os fs : List ℕ) :
    rejectCoded os fs = false ↔
      ∃ N M a b, os = [N, M, a, b] ∧ fs = [N, M] ∧ (a = b ∨ b = 3) := by
  constructor
  · intro h
    simp only [rejectCoded, Bool.or_eq_false_iff, bne_eq_false_iff_eq, dim, Bool.and_eq_false_iff] at h
    obtain ⟨⟨⟨⟨h4, h2⟩, h0⟩, h1⟩, h3⟩ := h
    match os, fs, h4, h2 with
    | [a, b, c, d], [e, g], _, _ =>
      simp at h0 h1 h3
      exact ⟨a, b, c, d, rfl, by rw [h0, h1], h3⟩
  · rintro ⟨N, M, a, b, rfl, rfl, hab⟩
    simp only [rejectCoded, dim]
    rcases hab with rfl | rfl <;> simp

end ModelR
