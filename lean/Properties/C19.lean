import Proofs.Config
import Proofs.Basic
import ModelR.ConfigNum
/-! # C19 — parameter records and configuration files

Two models: `ModelD.Params` (the Python dataclass semantics that decide what `DefaultParams`
and the presets of `pydrex.mock` are) and `ModelD.Config` (`io.parse_config` after
`tomllib.load`). Both follow /repo **after** the C19 repairs; the pinned behaviour is kept as
`presetsPinned` and `Config.pinned` and is refuted in `Witness/C19.lean`.
All theorems live in one namespace so that the audit finds them. -/
namespace ModelD.Config
open List ModelD.Params

/-! ## parameter record -/

/-- field names of the parameter record are pairwise distinct -/
theorem default_names_nodup : ((fieldsOf [defaultParams]).map (·.name)).Nodup := by decide

theorem default_roundtrip (kw : List (String × PyVal)) (d : Instance)
    (h : instantiate [defaultParams] kw = .ok d) :
    instantiate [defaultParams] (toKwargs (asDict d)) = .ok d :=
  roundtrip [defaultParams] kw d default_names_nodup h

theorem default_constructs : ∃ d, instantiate [defaultParams] [] = .ok d ∧ hashOk d = true ∧
    (asDict d).length = 18 := by
  refine ⟨_, rfl, by decide, by decide⟩

theorem default_immutable (kw : List (String × PyVal)) (d : Instance)
    (h : instantiate [defaultParams] kw = .ok d) (n : String) (v : PyVal) :
    setattr d n v = .error .frozenInstanceError := by
  obtain ⟨hc, _, _⟩ := instantiate_attrs _ kw d h
  simp [setattr, hc, initOwner, defaultParams]

/-- `P()` for a preset `P` (a subclass of `DefaultParams`) -/
def presetInstance (c : ClassDef) : Option Instance :=
  match instantiate [c, defaultParams] [] with
  | .ok i => some i
  | .error _ => none

theorem preset_declares :
    ∀ c ∈ presets, ∀ nv ∈ declared c,
      (presetInstance c).bind (getattr · nv.1) = some nv.2 ∧
      (presetInstance c).bind (fun i => (asDict i).lookup nv.1) = some (some nv.2) ∧
      (presetInstance c).map hashOk = some true := by
  decide

/-- every preset keeps all 18 fields of the record in the same order, so each is a complete
parameter record usable wherever `DefaultParams` is -/
theorem preset_fields : ∀ c ∈ presets,
    (fieldsOf [c, defaultParams]).map (·.name) = (fieldsOf [defaultParams]).map (·.name) := by
  decide

/-- names a preset does not assign keep the default of the record -/
theorem preset_inherits : ∀ c ∈ presets, ∀ f ∈ fieldsOf [defaultParams],
    (declared c).lookup f.name = none → (presetInstance c).bind (getattr · f.name) = some f.default := by
  decide

/-- **a subclass without the decorator changes nothing** (the mechanism of the preset defect):
whatever a class body assigns — annotated or not — an undecorated subclass is constructed
exactly like its base, and reading any field of the record from the instance gives the value
the base would give. -/
theorem undecorated_subclass_keeps_base (c : ClassDef) (bases : Cls) (hc : c.decorated = false)
    (kw : List (String × PyVal)) (i i0 : Instance)
    (h : instantiate (c :: bases) kw = .ok i) (h0 : instantiate bases kw = .ok i0)
    (hnd : ((fieldsOf bases).map (·.name)).Nodup) :
    i.attrs = i0.attrs ∧ asDict i = asDict i0 ∧
    ∀ f ∈ fieldsOf bases, getattr i f.name = getattr i0 f.name := by
  have hf : fieldsOf (c :: bases) = fieldsOf bases := by simp [fieldsOf, hc]
  obtain ⟨hcls, ha, _⟩ := instantiate_attrs _ kw i h
  obtain ⟨hcls0, ha0, _⟩ := instantiate_attrs _ kw i0 h0
  have hattrs : i.attrs = i0.attrs := by rw [ha, ha0, hf]
  have hget : ∀ f ∈ fieldsOf bases, getattr i f.name = getattr i0 f.name := by
    intro f hfm
    rw [getattr_field _ kw i h (by rw [hf]; exact hnd) f (by rw [hf]; exact hfm),
        getattr_field _ kw i0 h0 hnd f hfm]
  refine ⟨hattrs, ?_, hget⟩
  simp only [asDict, hcls, hcls0, hf]
  apply map_congr_left
  intro f hfm
  rw [hget f hfm]

/-- **a decorated subclass with annotated overrides yields what it declares** (the shape of the
repair): for any bases, any `@dataclass` subclass whose annotated names are pairwise distinct,
every annotated assignment of its body is the value the instance reports, by attribute and
through `as_dict()`. -/
theorem decorated_subclass_declares (c : ClassDef) (bases : Cls) (hc : c.decorated = true)
    (hnd : (c.annotated.map (·.name)).Nodup) (hbase : ((fieldsOf bases).map (·.name)).Nodup)
    (i : Instance) (h : instantiate (c :: bases) [] = .ok i) :
    ∀ f ∈ c.annotated, getattr i f.name = some f.default ∧ (asDict i).lookup f.name = some (some f.default) := by
  intro f hf
  have hfields : fieldsOf (c :: bases) = c.annotated.foldl setField (fieldsOf bases) := by simp [fieldsOf, hc]
  have hnd' : ((fieldsOf (c :: bases)).map (·.name)).Nodup := by
    rw [hfields]; exact foldl_setField_nodup _ _ hbase
  have hmem : f ∈ fieldsOf (c :: bases) := by
    rw [hfields]; exact mem_foldl_setField _ _ hnd f hf
  have hget := getattr_field (c :: bases) [] i h hnd' f hmem
  simp only [lookup_nil, Option.getD_none] at hget
  refine ⟨hget, ?_⟩
  rw [asDict_eq (c :: bases) [] i h hnd']
  have := lookup_map_fields (fieldsOf (c :: bases)) (fun g => g.default) hnd' f hmem
  -- same lookup with `some` wrapped values
  have h2 : lookup f.name (map (fun g => (g.name, some ((lookup g.name ([] : List (String × PyVal))).getD g.default))) (fieldsOf (c :: bases)))
      = (lookup f.name (map (fun g => (g.name, g.default)) (fieldsOf (c :: bases)))).map some := by
    generalize fieldsOf (c :: bases) = l
    induction l with
    | nil => rfl
    | cons a rest ih =>
      simp only [lookup_nil, Option.getD_none] at ih ⊢
      simp only [map_cons, List.lookup]
      split
      · simp
      · exact ih
  rw [h2, this]; rfl

/-! ## configuration files -/

/-- **parsed_invariants**: whenever `parse_config` returns, the phase and fraction lists have
equal length, the fractions passed the sum test, every phase is an enum member, the fabric is
one of the olivine fabrics, the coefficient tuple has 7 entries, and the output phase lists
only name phases of the assemblage. (Any scalar type, any sum test.) -/
theorem parsed_invariants {ρ : Type} (attrs : List String) (sumBad : List ρ → Bool) (c : ConfigIn ρ)
    (out : ConfigOut ρ) (h : parseConfig repaired attrs sumBad c = .ok out) :
    out.parameters.assemblage.length = fracLen out.parameters.fractions ∧
    fracBad sumBad out.parameters.fractions = false ∧
    (∀ v ∈ out.parameters.assemblage, ∃ ph, v = .member ph) ∧
    out.parameters.fabric ≠ .enstatite_AB ∧
    (out.parameters.coeffLen = none ∨ out.parameters.coeffLen = some 7) ∧
    (∀ v ∈ out.output.rawOutput, v ∈ out.parameters.assemblage) ∧
    (∀ v ∈ out.output.diagnostics, v ∈ out.parameters.assemblage) ∧
    out.output.stored = true := by
  unfold parseConfig at h
  split at h
  · cases h
  · rename_i params hp
    split at h
    · cases h
    · rename_i input hi
      split at h
      · cases h
      · rename_i output ho
        simp only [Except.ok.injEq] at h
        subst h
        obtain ⟨_, h2, h3, h4, h5, h6⟩ := parseParams_inv attrs sumBad _ params hp
        have hopt : ∀ (g : Option (List String)) (vs : List PhaseVal),
            parseOutputOption repaired attrs g params.assemblage = .ok vs → ∀ v ∈ vs, v ∈ params.assemblage := by
          intro g vs hg
          cases g with
          | none =>
            simp only [parseOutputOption, repaired, Bool.false_eq_true, if_false, Except.ok.injEq] at hg
            subst hg; intro v hv; exact hv
          | some names =>
            simp only [parseOutputOption] at hg
            split at hg
            · cases hg
            · rename_i ws _
              split at hg
              · rename_i hall
                simp only [Except.ok.injEq] at hg
                subst hg
                intro v hv
                have := (List.all_eq_true.mp hall) v hv
                simpa using this
              · cases hg
        unfold parseOutput at ho
        simp only at ho
        split at ho
        · cases ho
        · rename_i raw hraw
          split at ho
          · cases ho
          · rename_i diag hdiag
            simp only [Except.ok.injEq] at ho
            subst ho
            exact ⟨h3, h2, h4, h5, h6, hopt _ raw hraw, hopt _ diag hdiag, by simp [repaired]⟩

/-- the sum test over the reals: accepted fractions satisfy `|Σφ − 1| ≤ 1e-16` -/
theorem fractions_sum_to_one (l : List ℝ) (h : ModelR.fracSumBad l = false) : |l.sum - 1| ≤ 1e-16 := by
  simp only [ModelR.fracSumBad, ModelR.Rabs, ModelR.listSum_eq_sum, decide_eq_false_iff_not, not_lt] at h
  exact h

/-- **parsed_invariants over ℝ**: the parsed fractions sum to one within `1e-16`. -/
theorem parsed_fractions_sum (attrs : List String) (c : ConfigIn ℝ) (out : ConfigOut ℝ)
    (h : parseConfig repaired attrs ModelR.fracSumBad c = .ok out) (l : List ℝ)
    (hl : out.parameters.fractions = some l) : |l.sum - 1| ≤ 1e-16 := by
  have := (parsed_invariants attrs ModelR.fracSumBad c out h).2.1
  rw [hl] at this
  exact fractions_sum_to_one l this

/-! ### violations are rejected with the configuration error -/

/-- **violations_rejected (parameters)**: each single fault of the `[parameters]` table —
fractions failing the sum test, phase and fraction lists of different length, an element of the
assemblage that is not a phase (unknown name, ordinal out of range, float, list, …), a fabric
that is not one of the letters A–E (or not a string), a coefficient list of the wrong length —
makes `parse_config` raise `ConfigError`, whatever the rest of the file contains. -/
theorem violations_rejected_parameters {ρ : Type} (attrs : List String) (sumBad : List ρ → Bool)
    (c : ConfigIn ρ) (p : ParamsIn ρ) (hp : c.parameters = some p)
    (hfault :
      fracBad sumBad p.fractions = true ∨
      assemblageLen p.assemblage ≠ fracLen p.fractions ∨
      (∃ ts, p.assemblage = some ts ∧ ∃ t ∈ ts, ¬ ValidTok t) ∨
      (∃ t, p.fabric = some t ∧ ∀ s f, t = .str s → fabricOfLetter s ≠ some f) ∨
      (∃ n, p.coeffLen = some n ∧ n ≠ 7)) :
    parseConfig repaired attrs sumBad c = .error .configError := by
  have hpar : parseParams repaired attrs sumBad p = .error .configError := by
    cases hres : parseParams repaired attrs sumBad p with
    | error e => rw [parseParams_err attrs sumBad p e hres]
    | ok out =>
      exfalso
      obtain ⟨hfr, hbad, hlen, _, _, hco⟩ := parseParams_inv attrs sumBad p out hres
      -- walk through the definition once more to recover the facts about the inputs
      unfold parseParams at hres
      split at hres
      · cases hres
      · rename_i h1
        split at hres
        · cases hres
        · rename_i h2
          cases hpo : phasesOf repaired attrs p.assemblage with
          | error e' => rw [hpo] at hres; cases hres
          | ok phases =>
            rw [hpo] at hres
            simp only at hres
            cases hfo : parseFabric repaired p.fabric with
            | error e' => rw [hfo] at hres; cases hres
            | ok fabric =>
              rw [hfo] at hres
              simp only at hres
              split at hres
              · cases hres
              · rename_i h5
                rcases hfault with h | h | h | h | h
                · exact h1 h
                · exact h2 h
                · obtain ⟨ts, hts, hbadtok⟩ := h
                  rw [hts] at hpo
                  simp only [phasesOf] at hpo
                  rw [parsePhases_repaired_err attrs ts hbadtok] at hpo
                  cases hpo
                · obtain ⟨t, ht, hno⟩ := h
                  rw [ht] at hfo
                  cases t with
                  | str s =>
                    simp only [parseFabric] at hfo
                    cases hs : fabricOfLetter s with
                    | none => rw [hs] at hfo; cases hfo
                    | some f => exact absurd hs (hno s f rfl)
                  | other => simp [parseFabric, repaired] at hfo
                · obtain ⟨n, hn, hne⟩ := h
                  rw [hn] at h5
                  simp at h5
                  exact hne h5
  simp [parseConfig, hp, hpar]

/-- **violations_rejected ([input])**: with an acceptable `[parameters]` table, a missing `[input]`
table, a missing time step without input paths, and a non-numeric `timestep` / `strain_final`
are each answered with `ConfigError`. -/
theorem violations_rejected_input {ρ : Type} (attrs : List String) (sumBad : List ρ → Bool)
    (c : ConfigIn ρ) (params : ParamsOut ρ)
    (hp : parseParams repaired attrs sumBad (c.parameters.getD emptyParams) = .ok params) :
    (c.input = none → parseConfig repaired attrs sumBad c = .error .configError) ∧
    (∀ i, c.input = some i → i.timestep = none → i.paths = false →
        parseConfig repaired attrs sumBad c = .error .configError) ∧
    (∀ i, c.input = some i → i.timestep = some .other →
        parseConfig repaired attrs sumBad c = .error .configError) ∧
    (∀ i, c.input = some i → (i.timestep.isSome ∨ i.paths = true) → i.timestep ≠ some .other →
        i.strainFinal = some .other → parseConfig repaired attrs sumBad c = .error .configError) := by
  refine ⟨?_, ?_, ?_, ?_⟩
  · intro h; simp [parseConfig, hp, h, parseInput]
  · intro i h ht hpa; simp [parseConfig, hp, h, parseInput, ht, hpa]
  · intro i h ht
    simp only [parseConfig, hp, h, parseInput, ht]
    by_cases hpa : i.paths = false <;> simp [hpa, numOrDefault, repaired]
  · intro i h hreq hts hsf
    have h0 : ¬ (i.timestep.isNone = true ∧ i.paths = false) := by
      rintro ⟨h1, h2⟩
      rcases hreq with h3 | h3
      · simp [Option.isNone_iff_eq_none.mp h1] at h3
      · rw [h2] at h3; cases h3
    simp only [parseConfig, hp, h, parseInput, h0, if_false]
    cases hts' : i.timestep with
    | none => simp [numOrDefault, hsf, repaired]
    | some t =>
      cases t with
      | num r => simp [numOrDefault, hsf, repaired]
      | other => exact absurd hts' hts

/-- **violations_rejected ([output])**: an output phase list (`raw_output`, `diagnostics`) naming
something that is unknown or not part of the simulated assemblage ⇒ `ConfigError`. -/
theorem violations_rejected_output {ρ : Type} (attrs : List String) (sumBad : List ρ → Bool)
    (c : ConfigIn ρ) (params : ParamsOut ρ) (input : InputOut) (o : OutputIn) (names : List String)
    (hp : parseParams repaired attrs sumBad (c.parameters.getD emptyParams) = .ok params)
    (hin : parseInput repaired c.input = .ok input) (ho : c.output = some o)
    (hwhich : o.rawOutput = some names ∨ o.diagnostics = some names)
    (hbad : ∃ n ∈ names, ∀ v, getattrPhase attrs n = some v → v ∉ params.assemblage) :
    parseConfig repaired attrs sumBad c = .error .configError := by
  obtain ⟨n, hn, hnot⟩ := hbad
  have hrej := parseOutputOption_reject repaired attrs names params.assemblage n hn hnot
  simp only [parseConfig, hp, hin, ho, parseOutput, Option.getD_some]
  rcases hwhich with hr | hd
  · rw [hr, hrej]
  · cases hraw : parseOutputOption repaired attrs o.rawOutput params.assemblage with
    | error e => rw [parseOutputOption_err attrs _ _ e hraw]
    | ok r => simp only; rw [hd, hrej]

/-- **only the configuration error**: the repaired parser never raises anything else, except
`KeyError` when the file names a mesh without `locations_final` or a velocity gradient without
`locations_initial` (an incomplete input combination). -/
theorem only_config_errors {ρ : Type} (attrs : List String) (sumBad : List ρ → Bool) (c : ConfigIn ρ)
    (e : Err) (h : parseConfig repaired attrs sumBad c = .error e) :
    e = .configError ∨ (e = .keyError ∧ ∃ i, c.input = some i ∧
      ((i.mesh = true ∧ i.locationsFinal = false) ∨
       (i.mesh = false ∧ i.velocityGradient = true ∧ i.locationsInitial = false))) := by
  unfold parseConfig at h
  cases hp : parseParams repaired attrs sumBad (c.parameters.getD emptyParams) with
  | error e' =>
    have := parseParams_err attrs sumBad _ e' hp
    rw [hp] at h; cases h; left; exact this
  | ok params =>
    rw [hp] at h
    simp only at h
    cases hi : parseInput repaired c.input with
    | error e' =>
      have := parseInput_err c.input e' hi
      rw [hi] at h; cases h; exact this
    | ok input =>
      rw [hi] at h
      simp only at h
      cases ho : parseOutput repaired attrs c.output params.assemblage with
      | error e' =>
        rw [ho] at h; cases h
        left
        unfold parseOutput at ho
        simp only at ho
        cases hr : parseOutputOption repaired attrs (c.output.getD emptyOutput).rawOutput params.assemblage with
        | error e'' =>
          have := parseOutputOption_err attrs _ _ e'' hr
          rw [hr] at ho; cases ho; exact this
        | ok raw =>
          rw [hr] at ho
          simp only at ho
          cases hd : parseOutputOption repaired attrs (c.output.getD emptyOutput).diagnostics params.assemblage with
          | error e'' =>
            have := parseOutputOption_err attrs _ _ e'' hd
            rw [hd] at ho; cases ho; exact this
          | ok diag => rw [hd] at ho; cases ho
      | ok output => rw [ho] at h; cases h

/-! ### optional keys take their documented defaults -/

/-- what the file must get right about the entries it *does* give in `[output]` -/
def ValidOutput (attrs : List String) (o : OutputIn) (assemblage : List PhaseVal) : Prop :=
  (∀ names, o.rawOutput = some names → ∀ n ∈ names, ∃ v, getattrPhase attrs n = some v ∧ v ∈ assemblage) ∧
  (∀ names, o.diagnostics = some names → ∀ n ∈ names, ∃ v, getattrPhase attrs n = some v ∧ v ∈ assemblage)

/-- **optional_keys_default**: a configuration that supplies the required inputs parses, for
**every** combination of present and absent optional entries (each `Option` below may be `none`
or `some`, independently; the `[parameters]` and `[output]` tables may be missing altogether),
provided the entries that are present are valid; every absent entry takes its documented
default and every present entry its given value:
`name` (random default), `phase_assemblage` → `(olivine,)`, `phase_fractions` → `(1.0,)`,
`initial_olivine_fabric` → A-type, every other parameter → `DefaultParams().as_dict()[key]`,
`timestep` → NaN (only with input paths), `strain_final` → ∞, `[output].directory` → cwd,
`raw_output` / `diagnostics` → all simulated phases, `anisotropy` → the four-item list,
`paths` → None, `log_level` → "WARNING". -/
theorem optional_keys_default {ρ : Type} (attrs : List String) (sumBad : List ρ → Bool) (c : ConfigIn ρ)
    (i : InputIn) (hi : c.input = some i) (hreq : RequiredInput i)
    (hpar : ValidParams sumBad (c.parameters.getD emptyParams))
    (hout : ∀ params, parseParams repaired attrs sumBad (c.parameters.getD emptyParams) = .ok params →
      ValidOutput attrs (c.output.getD emptyOutput) params.assemblage) :
    ∃ out, parseConfig repaired attrs sumBad c = .ok out ∧ out.name = c.name ∧
      -- [parameters]
      out.parameters.fractions = (c.parameters.getD emptyParams).fractions ∧
      out.parameters.coeffLen = (c.parameters.getD emptyParams).coeffLen ∧
      ((c.parameters.getD emptyParams).assemblage = none → out.parameters.assemblage = [.member .olivine]) ∧
      (∀ ts, (c.parameters.getD emptyParams).assemblage = some ts →
          parsePhases repaired attrs ts = .ok out.parameters.assemblage) ∧
      ((c.parameters.getD emptyParams).fabric = none → out.parameters.fabric = .olivine_A) ∧
      (∀ s, (c.parameters.getD emptyParams).fabric = some (.str s) → fabricOfLetter s = some out.parameters.fabric) ∧
      (∀ k ∈ passKeys, out.parameters.passthrough.lookup k =
          some (match (c.parameters.getD emptyParams).passthrough.lookup k with
                | some r => .given r | none => .default (defaultOf k))) ∧
      -- [input]
      (i.timestep = none → out.input.timestep = "nan") ∧ (∀ r, i.timestep = some (.num r) → out.input.timestep = r) ∧
      (i.strainFinal = none → out.input.strainFinal = "inf") ∧
      (∀ r, i.strainFinal = some (.num r) → out.input.strainFinal = r) ∧
      -- [output]
      out.output.stored = true ∧
      out.output.directory = (c.output.getD emptyOutput).directory ∧
      ((c.output.getD emptyOutput).rawOutput = none → out.output.rawOutput = out.parameters.assemblage) ∧
      ((c.output.getD emptyOutput).diagnostics = none → out.output.diagnostics = out.parameters.assemblage) ∧
      out.output.anisotropy = (c.output.getD emptyOutput).anisotropy ∧
      out.output.paths = none ∧
      out.output.logLevel = (c.output.getD emptyOutput).logLevel.getD "WARNING" := by
  obtain ⟨params, hp, p1, p2, p3, p4, p5, p6, p7⟩ := parseParams_ok attrs sumBad _ hpar
  obtain ⟨inp, hin, i1, i2, i3, i4, _⟩ := parseInput_ok i hreq
  obtain ⟨hvr, hvd⟩ := hout params hp
  obtain ⟨raw, hraw, hraw0⟩ := parseOutputOption_ok attrs _ params.assemblage hvr
  obtain ⟨diag, hdiag, hdiag0⟩ := parseOutputOption_ok attrs _ params.assemblage hvd
  refine ⟨⟨c.name, params, inp,
      { stored := c.output.isSome || !repaired.outputIndexed, directory := (c.output.getD emptyOutput).directory,
        rawOutput := raw, diagnostics := diag, anisotropy := (c.output.getD emptyOutput).anisotropy, paths := none,
        logLevel := (c.output.getD emptyOutput).logLevel.getD "WARNING" }⟩,
    ?_, rfl, p1, p2, p3, p4, p5, p6, p7, i1, i2, i3, i4, ?_⟩
  · simp only [parseConfig, hp, hi, hin, parseOutput, hraw, hdiag]
  · exact ⟨by simp [repaired], rfl, hraw0, hdiag0, rfl, rfl, rfl⟩

/-! #### every subset of the optional keys, enumerated -/

/-- a fully populated valid file (one simulated phase; strings stand for the given values) -/
def fullConfig : ConfigIn Unit :=
  { name := some "run",
    parameters := some { assemblage := some [.str "enstatite"], fractions := some [()],
                         fabric := some (.str "C"), coeffLen := some 7,
                         passthrough := [("gbm_mobility", "10"), ("number_of_grains", "2000"), ("disl_prefactors", "[1.0, 2.0]")] },
    input := some { timestep := some (.num "1e9"), strainFinal := some (.num "2.5"), mesh := false,
                    velocityGradient := true, paths := false, locationsInitial := true, locationsFinal := false },
    output := some { directory := some "out", rawOutput := some ["enstatite"], diagnostics := some [],
                     anisotropy := some "True", paths := some "['p.scsv']", logLevel := some "DEBUG" } }

def keep {α : Type} (b : Bool) (x : Option α) : Option α := if b then x else none

/-- drop the optional entries whose bit is `false` (16 bits: name, [parameters], assemblage,
fractions, fabric, coefficients, the three pass-through keys, strain_final, [output] and its six keys);
dropping `phase_assemblage` alone leaves the default olivine, which the given output lists
must not contradict, so `raw_output` follows the assemblage bit when it is kept -/
def restrict (m : List Bool) : ConfigIn Unit :=
  let b (k : Nat) : Bool := m.getD k false
  { name := keep (b 0) fullConfig.name,
    parameters := keep (b 1) (fullConfig.parameters.map fun p =>
      { assemblage := keep (b 2) p.assemblage, fractions := keep (b 3) p.fractions,
        fabric := keep (b 4) p.fabric, coeffLen := keep (b 5) p.coeffLen,
        passthrough := p.passthrough.filter (fun kv =>
          (kv.1 == "gbm_mobility" && b 6) || (kv.1 == "number_of_grains" && b 7) || (kv.1 == "disl_prefactors" && b 8)) }),
    input := fullConfig.input.map fun i => { i with strainFinal := keep (b 9) i.strainFinal },
    output := keep (b 10) (fullConfig.output.map fun o =>
      { directory := keep (b 11) o.directory,
        rawOutput := keep (b 12) (if b 1 && b 2 then o.rawOutput else some ["olivine"]),
        diagnostics := keep (b 13) o.diagnostics, anisotropy := keep (b 14) o.anisotropy,
        paths := keep (b 15) o.paths, logLevel := keep (b 15) o.logLevel }) }

def allMasks : Nat → List (List Bool)
  | 0 => [[]]
  | n + 1 => (allMasks n).flatMap (fun m => [true :: m, false :: m])

def parsesOk (c : ConfigIn Unit) : Bool :=
  match parseConfig repaired [] (fun _ => false) c with
  | .ok out => out.output.stored && (out.output.paths == none)
  | .error _ => false

/-- every subset of the optional keys outside `[output]` (name, the `[parameters]` table and its
keys, `strain_final`: `2^10` files), with `[output]` fully populated, parses (kernel-evaluated) -/
theorem optional_keys_powerset_parameters :
    ((allMasks 10).map (fun m => m ++ List.replicate 6 true)).all (fun m => parsesOk (restrict m)) = true := by
  decide +kernel

/-- every subset of the `[output]` table and its keys, crossed with the presence of
`[parameters]` and of `phase_assemblage` (`2^8` files), parses (kernel-evaluated) -/
theorem optional_keys_powerset_output :
    ((allMasks 8).map (fun m => [true, m.getD 0 true, m.getD 1 true] ++ List.replicate 7 true ++ m.drop 2)).all
      (fun m => parsesOk (restrict m)) = true := by
  decide +kernel

end ModelD.Config
