import Proofs.TensorsSym
/-! # C12 — elastic symmetry decomposition is correct and frame independent

Theorems about `ModelR.Tensors.elasticityComponents`, the model of
`diagnostics.elasticity_components` (tied to the code by `harness/props/c12.py`).  `rot6 Q M` is the
stiffness matrix `M` expressed in a frame rotated by `Q` (`Voigt(rotate(tensor(M), Q))`).

**Proved**: K and G are the Voigt invariants and are frame independent; the isotropic vector is the
orthogonal projection onto the isotropic subspace; percent anisotropy is the relative norm distance,
lies in `[0, 100]` and is frame independent; the five class parts are orthogonal and add up
(Pythagoras) in ANY candidate frame; orthorhombic in the candidate frame ⇒ no monoclinic/triclinic
part; the matrices handed to `la.eigh` and their eigen-pairs co-rotate; the pairing loop returns the
`d_ij` eigenvectors when the two eigenbases agree (the orthorhombic case).

**Partial** (`…_partial`, runtime): that LAPACK's eigenvectors of a rotated tensor are the rotated
eigenvectors up to sign (true for separated eigenvalues; a conditioning statement), which of the
three axis permutations wins, the 10 degree threshold of the pairing loop away from the aligned
case — validated on the implementation under the counted eigen-gap rule. -/
set_option linter.unusedVariables false
namespace ModelR.Tensors

/-! ## K and G -/

/-- **the reported moduli are the Voigt invariants** `K = C_iijj / 9`, `G = (C_ijij − C_iijj/3) / 10`
of the symmetrised input (`upper_tri_to_symmetric`), for every input matrix -/
theorem KG_are_voigt_invariants (matrix : Mat6) (eigD eigV : Mat3) :
    let T := voigtToTensor (upperTriToSymmetric matrix)
    (elasticityComponents matrix eigD eigV).bulk = iijj T / 9 ∧
    (elasticityComponents matrix eigD eigV).shear = (ijij T - iijj T / 3) / 10 := by
  have hs : IsSymm6 (upperTriToSymmetric matrix) := fun i j => upperTri_symm _ i j
  simp only [elasticityComponents, ofA6_memoA6]
  exact KG_contractions _ hs

/-- … and do not depend on the frame (orthogonal `Q`) -/
theorem KG_frame_independent (Q : Mat3) (hQ : IsOrtho Q) (M : Mat6) (hM : IsSymm6 M) :
    bulkModulus (rot6 Q M) = bulkModulus M ∧ shearModulus (rot6 Q M) = shearModulus M :=
  ⟨bulkModulus_rot6 Q hQ M hM, shearModulus_rot6 Q hQ M hM⟩

/-! ## isotropic part and percent anisotropy -/

/-- **the isotropic vector is the orthogonal projection** of the 21-vector onto the isotropic
subspace `{iso(K', G')}`: the residual is orthogonal to every isotropic vector -/
theorem iso_is_projection (M : Mat6) (hM : IsSymm6 M) (K' G' : ℝ) :
    dot21 (sub21 (matrixToVector M) (isoVector (bulkModulus M) (shearModulus M))) (isoVector K' G') = 0 :=
  iso_residual_orthogonal M hM K' G'

/-- the reported value is `‖v − iso‖ / ‖v‖ · 100` (the definition in the model is the code's
expression) and by Pythagoras `‖v‖² = ‖iso‖² + ‖v − iso‖²` -/
theorem anisotropy_def (M : Mat6) (hM : IsSymm6 M) :
    percentAnisotropy M
      = norm21 (sub21 (matrixToVector M) (isoVector (bulkModulus M) (shearModulus M))) / norm21 (matrixToVector M) * 100
    ∧ dot21 (matrixToVector M) (matrixToVector M)
      = dot21 (isoVector (bulkModulus M) (shearModulus M)) (isoVector (bulkModulus M) (shearModulus M))
        + dot21 (sub21 (matrixToVector M) (isoVector (bulkModulus M) (shearModulus M)))
            (sub21 (matrixToVector M) (isoVector (bulkModulus M) (shearModulus M))) :=
  ⟨rfl, aniso_pythagoras M hM⟩

/-- **within [0, 100]** for every non-zero symmetric matrix (for the zero matrix the code divides
0 by 0) -/
theorem anisotropy_range (M : Mat6) (hM : IsSymm6 M) (hv : norm21 (matrixToVector M) ≠ 0) :
    0 ≤ percentAnisotropy M ∧ percentAnisotropy M ≤ 100 :=
  percentAnisotropy_range M hM hv

/-- **frame independent** -/
theorem anisotropy_objective (Q : Mat3) (hQ : IsOrtho Q) (M : Mat6) (hM : IsSymm6 M) :
    percentAnisotropy (rot6 Q M) = percentAnisotropy M :=
  percentAnisotropy_rot6 Q hQ M hM

/-- the three scalars reported by `elasticity_components` are frame independent, whatever LAPACK
returns for the eigenvectors -/
theorem scalars_frame_independent (Q : Mat3) (hQ : IsOrtho Q) (M : Mat6) (hM : IsSymm6 M)
    (eD eV eD' eV' : Mat3) :
    (elasticityComponents (rot6 Q M) eD' eV').bulk = (elasticityComponents M eD eV).bulk ∧
    (elasticityComponents (rot6 Q M) eD' eV').shear = (elasticityComponents M eD eV).shear ∧
    (elasticityComponents (rot6 Q M) eD' eV').aniso = (elasticityComponents M eD eV).aniso := by
  have h1 : upperTriToSymmetric (rot6 Q M) = rot6 Q M := upperTri_of_symm _ (rot6_symm Q M)
  have h2 : upperTriToSymmetric M = M := upperTri_of_symm _ hM
  simp only [elasticityComponents, ofA6_memoA6, h1, h2]
  exact ⟨bulkModulus_rot6 Q hQ M hM, shearModulus_rot6 Q hQ M hM, percentAnisotropy_rot6 Q hQ M hM⟩

/-! ## the class decomposition in a candidate frame -/

/-- **Pythagoras over the nested projectors**, in any frame: the squared norms of the triclinic,
monoclinic, orthorhombic, tetragonal and hexagonal parts add up to `‖x − iso‖²` -/
theorem pythagoras_classes (x : Vec21) (K G : ℝ) :
    let monoH := monoProject x
    let orthoH := orthoProject monoH
    let tetrH := tetrProject orthoH
    let hexH := hexProject tetrH
    dot21 (sub21 x monoH) (sub21 x monoH) + dot21 (sub21 monoH orthoH) (sub21 monoH orthoH)
      + dot21 (sub21 orthoH tetrH) (sub21 orthoH tetrH) + dot21 (sub21 tetrH hexH) (sub21 tetrH hexH)
      + dot21 (sub21 hexH (isoVector K G)) (sub21 hexH (isoVector K G))
      = dot21 (sub21 x (isoVector K G)) (sub21 x (isoVector K G)) :=
  classes_pythagoras x K G

/-- hence, when the candidate frame is orthogonal, the squared class percentages reported for that
frame add up to the squared percent anisotropy -/
theorem percentages_pythagoras (M : Mat6) (hM : IsSymm6 M) (P : Mat3) (hP : IsOrtho (tr P)) :
    let d := decompIn (voigtToTensor M) (isoVector (bulkModulus M) (shearModulus M)) (norm21 (matrixToVector M)) P
    d.tric ^ 2 + d.mono ^ 2 + d.ortho ^ 2 + d.tetr ^ 2 + d.hex ^ 2 = percentAnisotropy M ^ 2 := by
  intro d
  have hrv : tensorToVoigt (rotate (voigtToTensor M) (tr P)) = rot6 (tr P) M := rfl
  have hsq : ∀ x : Vec21, (norm21 x * (100 / norm21 (matrixToVector M))) ^ 2
      = dot21 x x * (100 / norm21 (matrixToVector M)) ^ 2 := by
    intro x; rw [mul_pow, pow_two (norm21 x), norm21_sq]
  have hK := bulkModulus_rot6 (tr P) hP M hM
  have hG := shearModulus_rot6 (tr P) hP M hM
  have hpy := classes_pythagoras (matrixToVector (rot6 (tr P) M)) (bulkModulus M) (shearModulus M)
  have h1 := aniso_pythagoras (rot6 (tr P) M) (rot6_symm _ M)
  have h2 := aniso_pythagoras M hM
  have h3 := dot21_rot6 (tr P) hP M hM
  rw [hK, hG] at h1
  have hR : percentAnisotropy M ^ 2
      = dot21 (sub21 (matrixToVector M) (isoVector (bulkModulus M) (shearModulus M)))
          (sub21 (matrixToVector M) (isoVector (bulkModulus M) (shearModulus M)))
        * (100 / norm21 (matrixToVector M)) ^ 2 := by
    simp only [percentAnisotropy]
    rw [show ∀ a b : ℝ, a / b * 100 = a * (100 / b) from fun a b => by ring, hsq]
  simp only at hpy
  have hsum := hpy
  rw [show dot21 (sub21 (matrixToVector (rot6 (tr P) M)) (isoVector (bulkModulus M) (shearModulus M)))
        (sub21 (matrixToVector (rot6 (tr P) M)) (isoVector (bulkModulus M) (shearModulus M)))
      = dot21 (sub21 (matrixToVector M) (isoVector (bulkModulus M) (shearModulus M)))
        (sub21 (matrixToVector M) (isoVector (bulkModulus M) (shearModulus M))) by linarith] at hsum
  simp only [d, decompIn, ofA21_memoA21, ofA6_memoA6, ofA4_memoA4, hrv, hsq]
  rw [hR, ← hsum]; ring

/-- **orthorhombic in the frame ⇒ no monoclinic and no triclinic part** -/
theorem ortho_in_frame_vanish (x : Vec21) (h : ∀ k : Fin 21, 9 ≤ k.val → x k = 0) :
    norm21 (sub21 x (monoProject x)) = 0 ∧
    norm21 (sub21 (monoProject x) (orthoProject (monoProject x))) = 0 := by
  obtain ⟨h1, h2⟩ := ortho_in_frame x h
  rw [h1, h2]
  simp [norm21, sum21, Rsqrt]

/-! ## the symmetry axes -/

/-- the two matrices handed to `la.eigh` co-rotate with the frame, and so do their eigen-pairs:
if `(λ, u)` is an eigen-pair in the old frame, `(λ, Q u)` is one in the new frame -/
theorem eigen_inputs_corotate (Q : Mat3) (hQ : IsOrtho Q) (M : Mat6) (hM : IsSymm6 M) :
    eighInputs (rot6 Q M) = (mmul Q (mmul (eighInputs M).1 (tr Q)), mmul Q (mmul (eighInputs M).2 (tr Q)))
    ∧ ∀ (X : Mat3) (u : Vec3) (lam : ℝ), mulVec X u = (fun i => lam * u i) →
        mulVec (mmul Q (mmul X (tr Q))) (mulVec Q u) = fun i => lam * mulVec Q u i := by
  have h1 : upperTriToSymmetric (rot6 Q M) = rot6 Q M := upperTri_of_symm _ (rot6_symm Q M)
  have h2 : upperTriToSymmetric M = M := upperTri_of_symm _ hM
  refine ⟨?_, fun X u lam h => eigenpair_corotates Q hQ X u lam h⟩
  simp only [eighInputs, h1, h2, voigtDecompose_rot6 Q hQ M hM]

/-- **pairing loop, aligned case** (a tensor that is orthorhombic with distinct principal axes has
common eigenvectors for `d_ij` and `v_ij`): when every `d_ij` eigenvector equals ± one of the
orthonormal `v_ij` eigenvectors — whatever their order and signs, including index 0 where the
`sign(dot) * j` trick gives 0 and index 2 where it weights the partner by 2 — the symmetry
coordinate system found is the matrix of `d_ij` eigenvectors -/
theorem sccs_of_aligned_eigenbases (eigD eigV : Mat3) (hV : IsOrtho eigV)
    (h : ∀ i, ∃ (js : Fin 3) (σ : ℝ), (σ = 1 ∨ σ = -1) ∧ col3 eigD i = fun k => σ * eigV k js) :
    sccs eigD eigV = eigD :=
  sccs_aligned eigD eigV hV h

/-- **orthorhombic with distinct principal axes ⇒ monoclinic and triclinic parts vanish** in a
candidate frame whose axes are ± the principal axes in any order (which is what
`sccs_of_aligned_eigenbases` delivers when LAPACK returns the principal axes): `M0` has the
orthorhombic Voigt pattern, the tensor is given in a frame rotated by `R`, the candidate frame
satisfies `Pᵀ = S Rᵀ` with `S` a signed permutation matrix -/
theorem orthorhombic_mono_tric_vanish (M0 : Mat6) (hS : IsSymm6 M0) (hpat : OrthoPat M0) (R : Mat3)
    (hR : IsOrtho R) (π : Fin 3 → Fin 3) (hπ : Function.Injective π) (ε : Fin 3 → ℝ) (P : Mat3)
    (hP : tr P = mmul (sperm π ε) (tr R)) (iso : Vec21) (nv : ℝ) :
    (decompIn (voigtToTensor (rot6 R M0)) iso nv P).tric = 0 ∧
    (decompIn (voigtToTensor (rot6 R M0)) iso nv P).mono = 0 :=
  orthorhombic_candidate_frame M0 hS hpat R hR π hπ ε P hP iso nv

/-- full statement (kept visible): for `M = rot6 R M0` as above with distinct eigenvalues of `d_ij`
and `v_ij`, the dictionary returned by `elasticity_components` has zero monoclinic and triclinic
percentages, `hex² + tetr² + ortho² = anisotropy²`, and the hexagonal axis is `± R e_k`.
**Partial**: proved are the three links above (`sccs_of_aligned_eigenbases`,
`orthorhombic_mono_tric_vanish`, `percentages_pythagoras`); missing is the runtime link that
`la.eigh` applied to `R D Rᵀ` returns `± R e_k` (an `IsEigen` specification plus simplicity of the
eigenvalues) and the comparison of the three candidate distances.  Validated on the implementation
(keys `ortho:*`, `frame:*`). The composition under an explicit eigen-specification: -/
theorem orthorhombic_decomposition_partial (M0 : Mat6) (hS : IsSymm6 M0) (hpat : OrthoPat M0) (R : Mat3)
    (hR : IsOrtho R) (eigD eigV : Mat3) (hV : IsOrtho eigV)
    (hal : ∀ i, ∃ (js : Fin 3) (σ : ℝ), (σ = 1 ∨ σ = -1) ∧ col3 eigD i = fun k => σ * eigV k js)
    (π : Fin 3 → Fin 3) (hπ : Function.Injective π) (ε : Fin 3 → ℝ) (i : Fin 3)
    (hD : tr (permuteCols eigD i) = mmul (sperm π ε) (tr R)) (iso : Vec21) (nv : ℝ) :
    (decompIn (voigtToTensor (rot6 R M0)) iso nv (permuteCols (sccs eigD eigV) i)).tric = 0 ∧
    (decompIn (voigtToTensor (rot6 R M0)) iso nv (permuteCols (sccs eigD eigV) i)).mono = 0 := by
  rw [sccs_aligned eigD eigV hV hal]
  exact orthorhombic_candidate_frame M0 hS hpat R hR π hπ ε _ hD iso nv

/-- the hexagonal axis reported for a candidate frame is its third column; it is a unit vector
whenever the candidate frame has unit columns -/
theorem hex_axis_unit (T : Ten4) (iso : Vec21) (nv : ℝ) (P : Mat3) (hP : IsOrtho P) :
    dot3 (decompIn T iso nv P).axis (decompIn T iso nv P).axis = 1 := by
  have := IsOrtho.col P hP 2 2
  simpa [decompIn, col3, dot3, sum3] using this

end ModelR.Tensors
