import Proofs.DrexSymmetry
import Properties.C05
/-! # C04 — frame indifference and crystal-symmetry invariance of rates and textures

`Q` is any orthogonal matrix (`Qᵀ Q = 1`; properness is not needed), acting as
`L ↦ Q L Qᵀ`, `A ↦ A Qᵀ`.  Crystal symmetry acts as `A ↦ S A` with `S = diag(±1, ±1, ±1)`
on any subset of grains (the three two-folds are the sign vectors with two minus signs). -/
namespace ModelR
open List

/-- rotate every grain of a texture into the new frame -/
noncomputable def rotA (Q : Mat3) (A : List Mat3) : List Mat3 := A.map (fun a => mmul a (tr Q))

theorem dislocationRates_conj (Q : Mat3) (hQ : IsOrth Q) (damp : ℝ) (crss : Crss) (phase : Int)
    (A : List Mat3) (f : List ℝ) (D L : Mat3) (q : DParams) :
    dislocationRates damp crss phase (rotA Q A) f (conj Q D) (conj Q L) q
      = (rotA Q (dislocationRates damp crss phase A f D L q).1,
         (dislocationRates damp crss phase A f D L q).2) := by
  simp only [dislocationRates, rotA, List.map_map, Function.comp_def,
    rotationAndStrainCore_conj Q hQ]
  congr 1
  apply List.map_congr_left
  intro a _
  funext i j
  simp only [smul3, mmul, sum3]; ring

/-- **instantaneous rates are frame indifferent**: in the rotated frame the orientation rates
are the rotated rates and every volume-fraction rate is unchanged (dislocation-type and null
regimes; the externally supplied `spin` argument is not read there) -/
theorem rates_objective (Q : Mat3) (hQ : IsOrth Q) (regime phase fabric : Int)
    (hreg : regime ≠ 1) (A : List Mat3) (f : List ℝ) (D L spin spin' : Mat3) (q : DParams)
    (out : List Mat3 × List ℝ)
    (h : derivatives regime phase fabric A f D L spin q = .ok out) :
    derivatives regime phase fabric (rotA Q A) f (conj Q D) (conj Q L) spin' q
      = .ok (rotA Q out.1, out.2) := by
  have hz : ∀ l : List Mat3, rotA Q (l.map fun _ => zero3) = (rotA Q l).map fun _ => zero3 := by
    intro l
    simp only [rotA, List.map_map]
    apply List.map_congr_left
    intro a _
    funext i j; simp [mmul, zero3, sum3]
  unfold derivatives at h ⊢
  by_cases h07 : regime = 0 ∨ regime = 7
  · simp only [h07, if_true] at h ⊢
    injection h with h; subst h
    simp only [hz]
  · simp only [h07, hreg, if_false] at h ⊢
    by_cases h235 : regime = 2 ∨ regime = 3 ∨ regime = 5
    · simp [h235] at h
    · simp only [h235, if_false] at h ⊢
      by_cases h4 : regime = 4
      · simp only [h4, if_true] at h ⊢
        cases hc : getCrss phase fabric with
        | error e =>
          simp only [hc] at h ⊢
          cases hA : A with
          | nil => simp [hA] at h ⊢; subst h; simp [rotA]
          | cons a as => simp [hA] at h
        | ok c =>
          simp only [hc] at h ⊢
          injection h with h; subst h
          rw [dislocationRates_conj Q hQ]
      · simp only [h4, if_false] at h ⊢
        by_cases h6 : regime = 6
        · simp only [h6, if_true] at h ⊢
          cases hc : getCrss phase fabric with
          | error e =>
            simp only [hc] at h ⊢
            cases hA : A with
            | nil => simp [hA] at h ⊢; subst h; simp [rotA]
            | cons a as => simp [hA] at h
          | ok c =>
            simp only [hc] at h ⊢
            injection h with h; subst h
            rw [dislocationRates_conj Q hQ]
        · simp [h6] at h

/-- apply a sign vector to each grain (`sg[i]` for grain `i`; all-ones = grain left alone) -/
noncomputable def signA (sg : List (Fin 3 → ℝ)) (A : List Mat3) : List Mat3 :=
  List.zipWith rowScale sg A

theorem dislocationRates_rowScale (sg : List (Fin 3 → ℝ)) (hs : ∀ s ∈ sg, IsSign s)
    (damp : ℝ) (crss : Crss) (phase : Int) (A : List Mat3) (f : List ℝ) (D L : Mat3) (q : DParams)
    (hlen : sg.length = A.length) :
    dislocationRates damp crss phase (signA sg A) f D L q
      = (signA sg (dislocationRates damp crss phase A f D L q).1,
         (dislocationRates damp crss phase A f D L q).2) := by
  have key : ∀ (sg : List (Fin 3 → ℝ)) (A : List Mat3), (∀ s ∈ sg, IsSign s) → sg.length = A.length →
      (signA sg A).map (fun a => rotationAndStrainCore phase crss a D L q.p q.n q.lam)
        = List.zipWith (fun s (x : Mat3 × ℝ) => (rowScale s x.1, x.2)) sg
            (A.map (fun a => rotationAndStrainCore phase crss a D L q.p q.n q.lam)) := by
    intro sg
    induction sg with
    | nil => intro A _ _; simp [signA]
    | cons s ss ih =>
      intro A hs hl
      cases A with
      | nil => simp at hl
      | cons a as =>
        simp only [signA, List.zipWith_cons_cons, List.map_cons]
        rw [rotationAndStrainCore_rowScale s (hs s (by simp))]
        congr 1
        exact ih as (fun t ht => hs t (by simp [ht])) (by simpa using hl)
  have e2 : ∀ (sg : List (Fin 3 → ℝ)) (xs : List (Mat3 × ℝ)), sg.length = xs.length →
      (List.zipWith (fun s (x : Mat3 × ℝ) => (rowScale s x.1, x.2)) sg xs).map (·.2) = xs.map (·.2) := by
    intro sg
    induction sg with
    | nil => intro xs h; cases xs <;> simp_all
    | cons s ss ih =>
      intro xs h
      cases xs with
      | nil => simp at h
      | cons x xs => simp [ih xs (by simpa using h)]
  have e1 : ∀ (sg : List (Fin 3 → ℝ)) (xs : List (Mat3 × ℝ)), sg.length = xs.length →
      (List.zipWith (fun s (x : Mat3 × ℝ) => (rowScale s x.1, x.2)) sg xs).map (fun x => smul3 damp x.1)
        = signA sg (xs.map (fun x => smul3 damp x.1)) := by
    intro sg
    induction sg with
    | nil => intro xs h; cases xs <;> simp_all [signA]
    | cons s ss ih =>
      intro xs h
      cases xs with
      | nil => simp at h
      | cons x xs =>
        simp only [List.zipWith_cons_cons, List.map_cons, signA]
        congr 1
        · funext i j; simp only [smul3, rowScale]; ring
        · exact ih xs (by simpa using h)
  simp only [dislocationRates]
  rw [key sg A hs hlen, e2 _ _ (by simp [hlen]), e1 _ _ (by simp [hlen])]

/-- **crystal-symmetry invariance of the rates**: replacing any subset of grains by
symmetry-equivalent orientations gives the equivalent orientation rate for those grains
(`S·Ȧ`) and IDENTICAL volume-fraction rates for all grains -/
theorem rates_symmetric (sg : List (Fin 3 → ℝ)) (hs : ∀ s ∈ sg, IsSign s)
    (regime phase fabric : Int) (hreg : regime = 4 ∨ regime = 6)
    (A : List Mat3) (f : List ℝ) (D L spin : Mat3) (q : DParams) (hlen : sg.length = A.length)
    (crss : Crss) (hc : getCrss phase fabric = .ok crss)
    (out : List Mat3 × List ℝ)
    (h : derivatives regime phase fabric A f D L spin q = .ok out) :
    derivatives regime phase fabric (signA sg A) f D L spin q = .ok (signA sg out.1, out.2) := by
  rcases hreg with h4 | h6
  · subst h4
    simp only [derivatives, hc] at h ⊢
    simp only [show ((4:Int) = 0 ∨ (4:Int) = 7) = False by simp, if_false,
      show ((4:Int) = 1) = False by simp, show ((4:Int) = 2 ∨ (4:Int) = 3 ∨ (4:Int) = 5) = False by simp,
      if_true] at h ⊢
    injection h with h; subst h
    rw [dislocationRates_rowScale sg hs _ _ _ _ _ _ _ _ hlen]
  · subst h6
    simp only [derivatives, hc] at h ⊢
    simp only [show ((6:Int) = 0 ∨ (6:Int) = 7) = False by simp, if_false,
      show ((6:Int) = 1) = False by simp, show ((6:Int) = 2 ∨ (6:Int) = 3 ∨ (6:Int) = 5) = False by simp,
      show ((6:Int) = 4) = False by simp, if_true] at h ⊢
    injection h with h; subst h
    rw [dislocationRates_rowScale sg hs _ _ _ _ _ _ _ _ hlen]

/-- **the deformation-gradient rate is objective**: `(Q L Qᵀ)(Q F Qᵀ) = Q (L F) Qᵀ` -/
theorem F_objective (Q L F : Mat3) (hQ : IsOrth Q) :
    mmul (conj Q L) (conj Q F) = conj Q (mmul L F) := conj_mmul Q L F hQ

/-- the non-dimensional strain rate and velocity gradient handed to the kernel co-rotate -/
theorem nd_objective (Q L : Mat3) (e : ℝ) :
    ndD (conj Q L) e = conj Q (ndD L e) ∧ ndL (conj Q L) e = conj Q (ndL L e) := by
  have h1 : ndL L e = smul3 (1 / e) L := by funext i j; simp only [ndL, smul3]; ring
  have h1' : ndL (conj Q L) e = smul3 (1 / e) (conj Q L) := by funext i j; simp only [ndL, smul3]; ring
  have h2 : ndD L e = smul3 (1 / e) (symm L) := by funext i j; simp only [ndD, smul3, symm]; ring
  have h2' : ndD (conj Q L) e = smul3 (1 / e) (symm (conj Q L)) := by
    funext i j; simp only [ndD, smul3, symm]; ring
  exact ⟨by rw [h2', h2, symm_conj, conj_smul3], by rw [h1', h1, conj_smul3]⟩

/-! ### integrated textures: every explicit one-step scheme is equivariant

`T` is the action on the packed solver vector (`F ↦ Q F Qᵀ`, `A ↦ A Qᵀ`, `f ↦ f`, or the row
sign flips). It is linear, so it commutes with `y + h·v`; the theorems above give
`rhs ∘ T = T ∘ rhs`; post-processing commutes with `T` when no orientation entry is clipped
(sign flips: always, `clip` is odd). Under exactly these three facts every explicit
Runge–Kutta scheme, for any step sizes, commutes with `T`. -/

theorem rkStages_equivariant (T : List ℝ → List ℝ) (rhs rhs' : List ℝ → List ℝ)
    (hlin : ∀ h v y, T (axpy h v y) = axpy h (T v) (T y))
    (hrhs : ∀ y, rhs' (T y) = T (rhs y)) (h : ℝ) (y : List ℝ) (a : List (List ℝ)) :
    rkStages rhs' h (T y) a = (rkStages rhs h y a).map T := by
  have hfold : ∀ (cs : List ℝ) (ks : List (List ℝ)) (z : List ℝ),
      (List.zip cs (ks.map T)).foldl (fun acc p => axpy (h * p.1) p.2 acc) (T z)
        = T ((List.zip cs ks).foldl (fun acc p => axpy (h * p.1) p.2 acc) z) := by
    intro cs
    induction cs with
    | nil => intro ks z; simp
    | cons c cs ih =>
      intro ks z
      cases ks with
      | nil => simp
      | cons k ks =>
        simp only [List.map_cons, List.zip_cons_cons, List.foldl_cons, ← hlin]
        exact ih ks _
  induction a with
  | nil => rfl
  | cons row rows ih =>
    simp only [rkStages, ih, List.map_append, List.map_cons, List.map_nil, hfold, hrhs]

/-- **every explicit Runge–Kutta scheme with post-processing commutes with `T`** -/
theorem rk_equivariant (T : List ℝ → List ℝ) (rhs rhs' post post' : List ℝ → List ℝ)
    (hlin : ∀ h v y, T (axpy h v y) = axpy h (T v) (T y))
    (hrhs : ∀ y, rhs' (T y) = T (rhs y)) (hpost : ∀ y, post' (T y) = T (post y))
    (a : List (List ℝ)) (b : List ℝ) (hs : List ℝ) (y : List ℝ) :
    runSteps (rkStep a b rhs' post') hs (T y) = T (runSteps (rkStep a b rhs post) hs y) := by
  have hfold : ∀ (h : ℝ) (cs : List ℝ) (ks : List (List ℝ)) (z : List ℝ),
      (List.zip cs (ks.map T)).foldl (fun acc p => axpy (h * p.1) p.2 acc) (T z)
        = T ((List.zip cs ks).foldl (fun acc p => axpy (h * p.1) p.2 acc) z) := by
    intro h cs
    induction cs with
    | nil => intro ks z; simp
    | cons c cs ih =>
      intro ks z
      cases ks with
      | nil => simp
      | cons k ks =>
        simp only [List.map_cons, List.zip_cons_cons, List.foldl_cons, ← hlin]
        exact ih ks _
  induction hs generalizing y with
  | nil => rfl
  | cons h hs ih =>
    simp only [runSteps, rkStep, rkStages_equivariant T rhs rhs' hlin hrhs, hfold, hpost]
    exact ih _

end ModelR
