import Proofs.Quat
/-! # C14 — M-index: range, grain reordering, frame rotation, symmetry relabelling, batching

Theorems about `ModelR.Quat` (model of `utils.quat_product`, `geometry.symmetry_operations`,
`geometry.misorientation_angles`, the histogram and sum of `stats.misorientation_hist` /
`diagnostics.misorientation_index`, `stats.misorientations_random`) and `ModelD.MIndex`
(`itertools.combinations`, the process pool of `misorientation_indices`).

What is TRUE of the code as modelled: `mindex_range`, `mindex_perm`/`hist_perm`, `batched_is_map`,
frame invariance for the triclinic list (`triclinic_frame_invariant`).
What the property needs and the code does NOT have (known findings, replayed on the real code):
* `quatProductCoded_eq_hamilton_iff` — the coded product drops the cross term; it is the Hamilton
  product only when the vector parts are parallel;
* frame invariance holds for operators acting by LEFT Hamilton multiplication
  (`misorientation_frame_invariant`), but neither the coded product (`coded_product_not_equivariant`)
  nor the 4x4 diagonal "reflections" (`diag_is_conjugation`, `reflection_ops_not_equivariant`) act
  that way;
* relabelling invariance holds for lists closed under multiplication up to sign
  (`misorientation_relabel_invariant`, `orthorhombic_rotations_closed`); the tetragonal and
  rhombohedral lists are not closed (`tetragonal_not_closed`, `rhombohedral_not_closed`);
* `random_density_rhombohedral_assert` — bin edges above 104° hit `assert False`.

The Grimmer densities themselves (trigonometric), `numpy.histogram`'s float32 input, and the
process pool are runtime: modelled and tied by the correspondence, not proved correct. -/
namespace ModelR
open Real
set_option linter.unusedSimpArgs false
set_option linter.unusedTactic false
set_option linter.unreachableTactic false

/-! ## the Hamilton product (scalar-last) and the coded product -/

theorem hamilton_assoc (p q r : Quat) : hamilton (hamilton p q) r = hamilton p (hamilton q r) :=
  hamilton_assoc' p q r

/-- norm multiplicativity -/
theorem hamilton_norm_mul (p q : Quat) : normSq4 (hamilton p q) = normSq4 p * normSq4 q := by
  simp [normSq4, dot4, hamilton]; ring

theorem hamilton_identity (q : Quat) :
    hamilton quatIdentity q = q ∧ hamilton q quatIdentity = q := by
  constructor <;> apply quat_ext <;> simp [hamilton, quatIdentity]

/-- `q · conj q = |q|²` -/
theorem hamilton_conj (q : Quat) : hamilton q (qconj q) = mkQuat 0 0 0 (normSq4 q) := by
  apply quat_ext <;> simp [hamilton, qconj, normSq4, dot4] <;> ring

/-- **quatProduct_eq_hamilton is FALSE for the code as written**: `utils.quat_product` equals the
Hamilton product exactly when the vector parts of its arguments are parallel (cross product 0). -/
theorem quatProductCoded_eq_hamilton_iff (p q : Quat) :
    quatProductCoded p q = hamilton p q ↔
      (p 1 * q 2 - p 2 * q 1 = 0 ∧ p 2 * q 0 - p 0 * q 2 = 0 ∧ p 0 * q 1 - p 1 * q 0 = 0) := by
  constructor
  · intro h
    have h0 := congrFun h 0
    have h1 := congrFun h 1
    have h2 := congrFun h 2
    simp [quatProductCoded, hamilton] at h0 h1 h2
    exact ⟨by linarith, by linarith, by linarith⟩
  · rintro ⟨a, b, c⟩
    apply quat_ext <;> simp [quatProductCoded, hamilton] <;> linarith

/-- the difference is exactly the dropped cross product -/
theorem quatProductCoded_defect (p q : Quat) :
    (fun i => hamilton p q i - quatProductCoded p q i)
      = mkQuat (p 1 * q 2 - p 2 * q 1) (p 2 * q 0 - p 0 * q 2) (p 0 * q 1 - p 1 * q 0) 0 := by
  apply quat_ext <;> simp [quatProductCoded, hamilton] <;> ring

/-- with the identity operator the coded product is exact (why the triclinic index works) -/
theorem quatProductCoded_identity (q : Quat) : quatProductCoded quatIdentity q = q := by
  apply quat_ext <;> simp [quatProductCoded, quatIdentity]

/-- the coded product does not even preserve the norm -/
theorem quatProductCoded_normSq (p q : Quat) :
    normSq4 (quatProductCoded p q) = normSq4 p * normSq4 q
      - ((p 1 * q 2 - p 2 * q 1) ^ 2 + (p 2 * q 0 - p 0 * q 2) ^ 2 + (p 0 * q 1 - p 1 * q 0) ^ 2) := by
  simp [normSq4, dot4, quatProductCoded]; ring

/-! ## frame invariance -/

/-- operators acting by LEFT Hamilton multiplication (rotations), diagonal matrices as coded -/
def actHamilton : SymOp → Quat → Quat
  | .rot s, q => hamilton s q
  | .diag d, q => fun i => d i * q i

theorem minPairAngle_map_right (A B : List Quat) (r : Quat) (hr : normSq4 r = 1) :
    minPairAngle (A.map fun p => hamilton p r) (B.map fun q => hamilton q r) = minPairAngle A B := by
  unfold minPairAngle
  congr 1
  rw [List.flatMap_map]
  congr 1
  funext p
  rw [List.map_map]
  congr 1
  funext q
  exact pairAngle_hamilton_right p q r hr

/-- **misorientation_frame_invariant**: if every operator of the list commutes with right
multiplication (`act s (q·r) = (act s q)·r`), the misorientation angle of two grains is unchanged
when both orientations are multiplied on the right by one unit quaternion `r` (a rigid rotation
of the sample frame). -/
theorem misorientation_frame_invariant (act : SymOp → Quat → Quat) (ops : List SymOp)
    (hact : ∀ s ∈ ops, ∀ q r, act s (hamilton q r) = hamilton (act s q) r)
    (r : Quat) (hr : normSq4 r = 1) (q1 q2 : Quat) :
    misorientationAngle act ops (hamilton q1 r) (hamilton q2 r)
      = misorientationAngle act ops q1 q2 := by
  unfold misorientationAngle
  have e : ∀ q, (ops.map fun s => (act s (hamilton q r)).memo)
      = (ops.map fun s => (act s q).memo).map fun p => hamilton p r := by
    intro q
    rw [List.map_map]
    apply List.map_congr_left
    intro s hs
    simp [hact s hs]
  rw [e q1, e q2]
  exact minPairAngle_map_right _ _ r hr

/-- left Hamilton multiplication has that property (associativity) … -/
theorem left_hamilton_equivariant (s q r : Quat) :
    actHamilton (.rot s) (hamilton q r) = hamilton (actHamilton (.rot s) q) r := by
  simp [actHamilton, hamilton_assoc]

/-- … so for any list of rotation quaternions acting by the Hamilton product the misorientation
angle is frame invariant -/
theorem misorientation_frame_invariant_rotations (qs : List Quat) (r : Quat) (hr : normSq4 r = 1)
    (q1 q2 : Quat) :
    misorientationAngle actHamilton (qs.map SymOp.rot) (hamilton q1 r) (hamilton q2 r)
      = misorientationAngle actHamilton (qs.map SymOp.rot) q1 q2 := by
  apply misorientation_frame_invariant _ _ _ r hr
  intro s hs q r'
  obtain ⟨s', _, rfl⟩ := List.mem_map.mp hs
  exact left_hamilton_equivariant s' q r'

/-- the triclinic list AS CODED is frame invariant (its only operator is the identity, on which
the coded product is exact) -/
theorem triclinic_frame_invariant (r : Quat) (hr : normSq4 r = 1) (q1 q2 : Quat) :
    misorientationCoded .triclinic (hamilton q1 r) (hamilton q2 r)
      = misorientationCoded .triclinic q1 q2 := by
  unfold misorientationCoded
  apply misorientation_frame_invariant _ _ _ r hr
  intro s hs q r'
  simp only [symmetryOperations, List.mem_singleton] at hs
  subst hs
  simp [applyOp, quatProductCoded_identity]

/-- the three 4x4 diagonal "reflection" matrices are conjugations `q ↦ e·q·e⁻¹` by the half-turn
quaternions about x, y, z — proper rotations of BOTH frames, not reflections -/
theorem diag_is_conjugation (q : Quat) :
    applyOp (.diag (mkQuat 1 (-1) (-1) 1)) q = hamilton (hamilton (mkQuat 1 0 0 0) q) (qconj (mkQuat 1 0 0 0)) ∧
    applyOp (.diag (mkQuat 1 (-1) 1 (-1))) q
      = qneg (hamilton (hamilton (mkQuat 0 1 0 0) q) (qconj (mkQuat 0 1 0 0))) ∧
    applyOp (.diag (mkQuat 1 1 (-1) (-1))) q
      = qneg (hamilton (hamilton (mkQuat 0 0 1 0) q) (qconj (mkQuat 0 0 1 0))) := by
  refine ⟨?_, ?_, ?_⟩ <;> apply quat_ext <;> simp [applyOp, hamilton, qconj, qneg]

/-- **reflection_ops_not_equivariant**: the diagonal operators do not commute with right
multiplication (witness: `q = 1`, `r` = quarter turn about y) -/
theorem reflection_ops_not_equivariant :
    ∃ q r : Quat, normSq4 q = 1 ∧ normSq4 r = 1 ∧
      applyOp (.diag (mkQuat 1 (-1) (-1) 1)) (hamilton q r)
        ≠ hamilton (applyOp (.diag (mkQuat 1 (-1) (-1) 1)) q) r := by
  refine ⟨quatIdentity, mkQuat 0 (3/5) 0 (4/5), ?_, ?_, ?_⟩
  · simp [normSq4, dot4, quatIdentity]
  · simp [normSq4, dot4]; norm_num
  · intro h
    have := congrFun h 1
    simp [applyOp, hamilton, quatIdentity] at this
    norm_num at this

/-- … and the misorientation value itself changes: for the single operator `diag(1,-1,-1,1)` the
quantity `|⟨op q₁, op q₂⟩|` is not preserved by a common right multiplication -/
theorem reflection_dot_not_invariant :
    ∃ q1 q2 r : Quat, normSq4 q1 = 1 ∧ normSq4 q2 = 1 ∧ normSq4 r = 1 ∧
      |dot4 (applyOp (.diag (mkQuat 1 (-1) (-1) 1)) (hamilton q1 r)) (hamilton q2 r)|
        ≠ |dot4 (applyOp (.diag (mkQuat 1 (-1) (-1) 1)) q1) q2| := by
  refine ⟨quatIdentity, quatIdentity, mkQuat 0 (3/5) 0 (4/5), ?_, ?_, ?_, ?_⟩
  · simp [normSq4, dot4, quatIdentity]
  · simp [normSq4, dot4, quatIdentity]
  · simp [normSq4, dot4]; norm_num
  · simp [applyOp, hamilton, quatIdentity, dot4]
    norm_num

/-- the coded product with a half-turn operator does not commute with right multiplication either -/
theorem coded_product_not_equivariant :
    ∃ s q r : Quat, normSq4 s = 1 ∧ normSq4 q = 1 ∧ normSq4 r = 1 ∧
      quatProductCoded s (hamilton q r) ≠ hamilton (quatProductCoded s q) r := by
  refine ⟨mkQuat 0 0 1 0, quatIdentity, mkQuat (3/5) 0 0 (4/5), ?_, ?_, ?_, ?_⟩
  · simp [normSq4, dot4]
  · simp [normSq4, dot4, quatIdentity]
  · simp [normSq4, dot4]; norm_num
  · intro h
    have := congrFun h 1
    simp [quatProductCoded, hamilton, quatIdentity] at this
    norm_num at this

/-! ## symmetry relabelling -/

theorem mem_pairAngles (A B : List Quat) (x : ℝ) :
    x ∈ (A.flatMap fun p => B.map fun q => pairAngle p q) ↔
      ∃ p ∈ A, ∃ q ∈ B, pairAngle p q = x := by
  simp [List.mem_flatMap, List.mem_map]

/-- **relabel_invariant_of_closed**: for rotation operators acting by the Hamilton product, if right
translation by `sk` maps the list onto itself up to sign, replacing grain 1 by the equivalent
orientation `sk·q₁` leaves the misorientation angle unchanged. -/
theorem misorientation_relabel_invariant (qs : List Quat) (hne : qs ≠ []) (sk : Quat)
    (h₁ : ∀ s ∈ qs, ∃ s' ∈ qs, hamilton s sk = s' ∨ hamilton s sk = qneg s')
    (h₂ : ∀ s' ∈ qs, ∃ s ∈ qs, hamilton s sk = s' ∨ hamilton s sk = qneg s')
    (q1 q2 : Quat) :
    misorientationAngle actHamilton (qs.map SymOp.rot) (hamilton sk q1) q2
      = misorientationAngle actHamilton (qs.map SymOp.rot) q1 q2 := by
  unfold misorientationAngle minPairAngle
  apply listMin_congr_set
  · obtain ⟨s, hs⟩ := List.exists_mem_of_ne_nil qs hne
    intro h
    have : pairAngle (hamilton s (hamilton sk q1)) (hamilton s q2) ∈
        ((qs.map SymOp.rot).map fun s => (actHamilton s (hamilton sk q1)).memo).flatMap fun p =>
          ((qs.map SymOp.rot).map fun s => (actHamilton s q2).memo).map fun q => pairAngle p q := by
      rw [mem_pairAngles]
      exact ⟨_, by simp only [List.map_map, List.mem_map]; exact ⟨s, hs, by simp [actHamilton]⟩,
        _, by simp only [List.map_map, List.mem_map]; exact ⟨s, hs, by simp [actHamilton]⟩, rfl⟩
    rw [h] at this
    simp at this
  · intro x
    rw [mem_pairAngles, mem_pairAngles]
    simp only [List.map_map, List.mem_map, Function.comp, actHamilton, memo_eq]
    constructor
    · rintro ⟨p, ⟨s, hs, rfl⟩, q, hq, rfl⟩
      obtain ⟨s', hs', hh⟩ := h₁ s hs
      refine ⟨hamilton s' q1, ⟨s', hs', rfl⟩, q, hq, ?_⟩
      rw [← hamilton_assoc]
      rcases hh with hh | hh
      · rw [hh]
      · rw [hh, hamilton_qneg_left, pairAngle_qneg_left]
    · rintro ⟨p, ⟨s', hs', rfl⟩, q, hq, rfl⟩
      obtain ⟨s, hs, hh⟩ := h₂ s' hs'
      refine ⟨hamilton s (hamilton sk q1), ⟨s, hs, rfl⟩, q, hq, ?_⟩
      rw [← hamilton_assoc]
      rcases hh with hh | hh
      · rw [hh]
      · rw [hh, hamilton_qneg_left, pairAngle_qneg_left]

theorem rotvec_pi (ax : Fin 3) :
    rotvecQuat ax Rpi = match ax with
      | 0 => mkQuat 1 0 0 0 | 1 => mkQuat 0 1 0 0 | 2 => mkQuat 0 0 1 0 := by
  fin_cases ax <;> simp [rotvecQuat, Rsin, Rcos, Rpi]

/-- the proper part of the monoclinic/orthorhombic list is `{1, k, j, i}` … -/
theorem orthorhombic_rotPart :
    rotPart (symmetryOperations .orthorhombic)
      = [quatIdentity, mkQuat 0 0 1 0, mkQuat 0 1 0 0, mkQuat 1 0 0 0] := by
  simp [symmetryOperations, rotPart, rotvec_pi]

/-- … which IS closed under right translation up to sign (the quaternion group modulo ±1) -/
theorem orthorhombic_rotations_closed :
    ∀ sk ∈ rotPart (symmetryOperations .orthorhombic),
      (∀ s ∈ rotPart (symmetryOperations .orthorhombic),
        ∃ s' ∈ rotPart (symmetryOperations .orthorhombic), hamilton s sk = s' ∨ hamilton s sk = qneg s') ∧
      (∀ s' ∈ rotPart (symmetryOperations .orthorhombic),
        ∃ s ∈ rotPart (symmetryOperations .orthorhombic), hamilton s sk = s' ∨ hamilton s sk = qneg s') := by
  rw [orthorhombic_rotPart]
  have key : ∀ a b : Quat, a ∈ [quatIdentity, mkQuat 0 0 1 0, mkQuat 0 1 0 0, mkQuat 1 0 0 0] →
      b ∈ [quatIdentity, mkQuat 0 0 1 0, mkQuat 0 1 0 0, mkQuat 1 0 0 0] →
      ∃ c ∈ [quatIdentity, mkQuat 0 0 1 0, mkQuat 0 1 0 0, mkQuat 1 0 0 0],
        hamilton a b = c ∨ hamilton a b = qneg c := by
    intro a b ha hb
    simp only [List.mem_cons, List.mem_nil_iff, or_false] at ha hb
    rcases ha with rfl | rfl | rfl | rfl <;> rcases hb with rfl | rfl | rfl | rfl <;>
    first
    | (refine ⟨quatIdentity, by simp, Or.inl ?_⟩; apply quat_ext <;> simp [hamilton, quatIdentity, qneg] <;> done)
    | (refine ⟨quatIdentity, by simp, Or.inr ?_⟩; apply quat_ext <;> simp [hamilton, quatIdentity, qneg] <;> done)
    | (refine ⟨mkQuat 0 0 1 0, by simp, Or.inl ?_⟩; apply quat_ext <;> simp [hamilton, quatIdentity, qneg] <;> done)
    | (refine ⟨mkQuat 0 0 1 0, by simp, Or.inr ?_⟩; apply quat_ext <;> simp [hamilton, quatIdentity, qneg] <;> done)
    | (refine ⟨mkQuat 0 1 0 0, by simp, Or.inl ?_⟩; apply quat_ext <;> simp [hamilton, quatIdentity, qneg] <;> done)
    | (refine ⟨mkQuat 0 1 0 0, by simp, Or.inr ?_⟩; apply quat_ext <;> simp [hamilton, quatIdentity, qneg] <;> done)
    | (refine ⟨mkQuat 1 0 0 0, by simp, Or.inl ?_⟩; apply quat_ext <;> simp [hamilton, quatIdentity, qneg] <;> done)
    | (refine ⟨mkQuat 1 0 0 0, by simp, Or.inr ?_⟩; apply quat_ext <;> simp [hamilton, quatIdentity, qneg] <;> done)
  have key2 : ∀ a b : Quat, a ∈ [quatIdentity, mkQuat 0 0 1 0, mkQuat 0 1 0 0, mkQuat 1 0 0 0] →
      b ∈ [quatIdentity, mkQuat 0 0 1 0, mkQuat 0 1 0 0, mkQuat 1 0 0 0] →
      ∃ c ∈ [quatIdentity, mkQuat 0 0 1 0, mkQuat 0 1 0 0, mkQuat 1 0 0 0],
        hamilton c b = a ∨ hamilton c b = qneg a := by
    intro a b ha hb
    simp only [List.mem_cons, List.mem_nil_iff, or_false] at ha hb
    rcases ha with rfl | rfl | rfl | rfl <;> rcases hb with rfl | rfl | rfl | rfl <;>
    first
    | (refine ⟨quatIdentity, by simp, Or.inl ?_⟩; apply quat_ext <;> simp [hamilton, quatIdentity, qneg] <;> done)
    | (refine ⟨quatIdentity, by simp, Or.inr ?_⟩; apply quat_ext <;> simp [hamilton, quatIdentity, qneg] <;> done)
    | (refine ⟨mkQuat 0 0 1 0, by simp, Or.inl ?_⟩; apply quat_ext <;> simp [hamilton, quatIdentity, qneg] <;> done)
    | (refine ⟨mkQuat 0 0 1 0, by simp, Or.inr ?_⟩; apply quat_ext <;> simp [hamilton, quatIdentity, qneg] <;> done)
    | (refine ⟨mkQuat 0 1 0 0, by simp, Or.inl ?_⟩; apply quat_ext <;> simp [hamilton, quatIdentity, qneg] <;> done)
    | (refine ⟨mkQuat 0 1 0 0, by simp, Or.inr ?_⟩; apply quat_ext <;> simp [hamilton, quatIdentity, qneg] <;> done)
    | (refine ⟨mkQuat 1 0 0 0, by simp, Or.inl ?_⟩; apply quat_ext <;> simp [hamilton, quatIdentity, qneg] <;> done)
    | (refine ⟨mkQuat 1 0 0 0, by simp, Or.inr ?_⟩; apply quat_ext <;> simp [hamilton, quatIdentity, qneg] <;> done)
  intro sk hsk
  exact ⟨fun s hs => key s sk hs hsk, fun s' hs' => key2 s' sk hs' hsk⟩

/-- **the rhombohedral, tetragonal and hexagonal operator lists are not closed under
multiplication** (they collect rotations about all three Cartesian axes): the product of the first
rotation about x and the first rotation about z is, up to sign, not in the list. -/
theorem axis_lists_not_closed (sys : Lattice)
    (hs : sys = .rhombohedral ∨ sys = .tetragonal ∨ sys = .hexagonal) :
    ∃ s ∈ rotPart (symmetryOperations sys), ∃ sk ∈ rotPart (symmetryOperations sys),
      ∀ s' ∈ rotPart (symmetryOperations sys), hamilton s sk ≠ s' ∧ hamilton s sk ≠ qneg s' := by
  have hall := axis_lists_singleAxis sys hs
  obtain ⟨d, hd, hmem⟩ : ∃ d : ℕ, (d = 3 ∨ d = 2) ∧ ∀ ax : Fin 3,
      rotvecQuat ax (RofNat 1 * Rpi / RofNat d) ∈ rotPart (symmetryOperations sys) := by
    rcases hs with rfl | rfl | rfl
    · refine ⟨3, Or.inl rfl, fun ax => ?_⟩
      simp only [symmetryOperations, rotPart_append, List.mem_append]
      right; exact mem_rotPart_axisRotations_of _ _ _ _ (by simp)
    · refine ⟨2, Or.inr rfl, fun ax => ?_⟩
      simp only [symmetryOperations, rotPart_append, List.mem_append]
      right; exact mem_rotPart_axisRotations_of _ _ _ _ (by simp)
    · refine ⟨3, Or.inl rfl, fun ax => ?_⟩
      simp only [symmetryOperations, rotPart_append, List.mem_append]
      left; right; exact mem_rotPart_axisRotations_of _ _ _ _ (by simp)
  have hθ : 0 < (RofNat 1 * Rpi / RofNat d) / 2 ∧ (RofNat 1 * Rpi / RofNat d) / 2 < π / 2 := by
    rcases hd with rfl | rfl <;> simp only [RofNat, Rpi] <;> constructor <;>
      (norm_num; linarith [pi_pos])
  obtain ⟨n1, n2⟩ := product_not_singleAxis _ hθ.1 hθ.2
  refine ⟨_, hmem 0, _, hmem 2, fun s' hs' => ⟨?_, ?_⟩⟩
  · intro h; exact n1 (h ▸ hall s' hs')
  · intro h
    have : qneg (hamilton (rotvecQuat 0 (RofNat 1 * Rpi / RofNat d))
        (rotvecQuat 2 (RofNat 1 * Rpi / RofNat d))) = s' := by rw [h, qneg_qneg]
    exact n2 (this ▸ hall s' hs')

/-! ## the theoretical density: where it asserts -/

/-- `assert False` is reached exactly when the edge exceeds all four ranges -/
theorem random_density_assert (M N : ℕ) (a b c e : ℝ)
    (h1 : 180 / (M : ℝ) < e) (h2 : 180 * (M : ℝ) / N < e) (h3 : b < e) (h4 : c < e) :
    randomEdgeWith M N a b c e = .error .assertionError := by
  have e1 : RofNat M = (M : ℝ) := rfl
  have e2 : RofNat N = (N : ℝ) := rfl
  simp only [randomEdgeWith]
  split_ifs with g1 g2 g3 g4
  · exfalso; have := g1.2; rw [e1] at this; linarith
  · exfalso; have := g2.2; rw [e1, e2] at this; linarith
  · exfalso; linarith [g3.2]
  · exfalso; linarith [g4.2]
  · rfl

/-- **rhombohedral**: `(M, N) = (3, 6)`, `c = 104`; for every bin edge in `(104, 120]` (the
histogram always has such edges because `_max_misorientation` returns 120) the function raises
`AssertionError`, whatever the values of `a` and of `b ≤ 104` (numerically `b ≈ 98.2`) -/
theorem random_density_rhombohedral_assert (a b e : ℝ) (hb : b ≤ 104) (he : 104 < e) :
    randomEdgeWith 3 6 a b ((104 : ℕ) : ℝ) e = .error .assertionError := by
  apply random_density_assert
  · norm_num; linarith
  · norm_num; linarith
  · linarith
  · norm_num; linarith

theorem randomEdge_ne_valueError (sys : Lattice) (e : ℝ) :
    randomEdge sys e ≠ .error .valueError := by
  simp only [randomEdge, randomEdgeWith]
  split_ifs <;> simp

/-- `ValueError` exactly when the bounds are not ordered inside `[0, θmax]` -/
theorem misorientations_random_value_error (sys : Lattice) (low high : ℝ) :
    misorientationsRandom sys low high = .error .valueError ↔
      ¬ (0 ≤ low ∧ low ≤ high ∧ high ≤ (sys.thetaMax : ℝ)) := by
  have e1 : RofNat sys.thetaMax = (sys.thetaMax : ℝ) := rfl
  unfold misorientationsRandom
  rw [e1]
  split_ifs with h
  · simp only [h, not_true_eq_false, iff_false]
    have h1 := randomEdge_ne_valueError sys low
    have h2 := randomEdge_ne_valueError sys high
    cases hl : randomEdge sys low with
    | ok x =>
      cases hh : randomEdge sys high with
      | ok y => simp
      | error e => cases e <;> simp_all
    | error e => cases e <;> simp_all
  · simp [h]

/-! ## the index: range -/

/-- **mindex_range**: for non-negative bin densities over `B` bins of width `w = θmax/B` with
`w·ΣO = 1` (numpy's `density=True`) and `w·ΣT = 1 + δ` (the quadrature of the theoretical density,
`|δ| ≲ 1e-3` when that density is right), `0 ≤ M ≤ 1 + δ/2`. -/
theorem mindex_range (θ : ℝ) (T O : List ℝ) (hB : 0 < O.length) (hθ : 0 < θ)
    (hT : ∀ t ∈ T, 0 ≤ t) (hO : ∀ o ∈ O, 0 ≤ o) (δ : ℝ)
    (hOs : θ / O.length * O.sum = 1) (hTs : θ / O.length * T.sum = 1 + δ) :
    0 ≤ mIndexSum θ T O ∧ mIndexSum θ T O ≤ 1 + δ / 2 := by
  have hBr : (0 : ℝ) < O.length := by exact_mod_cast hB
  have hc : 0 < θ / (2 * (O.length : ℝ)) := by positivity
  unfold mIndexSum
  simp only [RofNat, listSum_eq_sum', Rabs]
  constructor
  · exact mul_nonneg hc.le (sum_abs_sub_nonneg T O)
  · have h1 := sum_abs_sub_le T O hT hO
    calc θ / (2 * (O.length : ℝ)) * (List.zipWith (fun t o => |t - o|) T O).sum
        ≤ θ / (2 * (O.length : ℝ)) * (T.sum + O.sum) := mul_le_mul_of_nonneg_left h1 hc.le
      _ = (θ / O.length * T.sum + θ / O.length * O.sum) / 2 := by field_simp
      _ = 1 + δ / 2 := by rw [hOs, hTs]; ring

/-- `M = 0` exactly when observed and theoretical densities agree in every bin -/
theorem mindex_eq_zero_iff (θ : ℝ) (T O : List ℝ) (hlen : T.length = O.length) (hB : 0 < O.length)
    (hθ : 0 < θ) : mIndexSum θ T O = 0 ↔ T = O := by
  have hBr : (0 : ℝ) < O.length := by exact_mod_cast hB
  have hc : θ / (2 * (O.length : ℝ)) ≠ 0 := by positivity
  unfold mIndexSum
  simp only [RofNat, listSum_eq_sum', Rabs, mul_eq_zero, hc, false_or]
  clear hc hBr hB
  induction T generalizing O with
  | nil => cases O <;> simp_all
  | cons t ts ih =>
    cases O with
    | nil => simp at hlen
    | cons o os =>
      simp only [List.length_cons, Nat.add_right_cancel_iff] at hlen
      simp only [List.zipWith_cons_cons, List.sum_cons, List.cons.injEq]
      have h0 := sum_abs_sub_nonneg ts os
      have ha := abs_nonneg (t - o)
      constructor
      · intro h
        have h1 : |t - o| = 0 := by linarith
        have h2 : (List.zipWith (fun t o => |t - o|) ts os).sum = 0 := by linarith
        exact ⟨by linarith [abs_eq_zero.mp h1], (ih os hlen).mp h2⟩
      · rintro ⟨rfl, rfl⟩
        have := (ih ts rfl).mpr rfl
        simp [this]

/-- every entry computed by `misorientation_angles` lies in `[0°, 180°]` -/
theorem pairAngle_range (p q : Quat) : 0 ≤ pairAngle p q ∧ pairAngle p q ≤ 180 := by
  unfold pairAngle rad2deg Racos Rabs Rpi
  have h0 := Real.arccos_nonneg |clip1 (dot4 p q)|
  have h1 : Real.arccos |clip1 (dot4 p q)| ≤ π / 2 :=
    (Real.arccos_le_pi_div_two).mpr (abs_nonneg _)
  have hp := pi_pos
  constructor
  · positivity
  · have : Real.arccos |clip1 (dot4 p q)| * (180 / π) ≤ π / 2 * (180 / π) :=
      mul_le_mul_of_nonneg_right h1 (by positivity)
    have e : π / 2 * (180 / π) = 90 := by field_simp; ring
    linarith

/-- if every value lies in `[0, n]`, the bin counts add up to the number of values: nothing is
dropped by the histogram range -/
theorem histCounts_total (n : ℕ) (hn : 0 < n) (xs : List ℝ) (h : ∀ x ∈ xs, 0 ≤ x ∧ x ≤ n) :
    natSum (histCounts n xs) = xs.length := by
  rw [natSum_eq]
  unfold histCounts
  induction xs with
  | nil => simp
  | cons x xs ih =>
    have hx := h x (by simp)
    obtain ⟨k, hk, hkk⟩ := inBin_unique n hn x hx.1 hx.2
    have ih' := ih (fun y hy => h y (by simp [hy]))
    have split : ((List.range n).map fun b => (x :: xs).countP (inBin n b)).sum
        = ((List.range n).map fun b => xs.countP (inBin n b)).sum
          + (List.range n).countP (fun b => inBin n b x) := by
      have e1 : ∀ b, (x :: xs).countP (inBin n b)
          = xs.countP (inBin n b) + (if inBin n b x = true then 1 else 0) :=
        fun b => List.countP_cons
      simp only [e1]
      rw [← sum_map_indicator]
      generalize List.range n = l
      induction l with
      | nil => simp
      | cons b bs ihb => simp only [List.map_cons, List.sum_cons, ihb]; omega
    rw [split, ih', countP_range_eq_one n _ k hk hkk]
    simp
/-- numpy's `density=True`: non-negative values whose sum times the bin width (1) is 1 -/
theorem histDensity_spec (n : ℕ) (xs : List ℝ) (htot : 0 < natSum (histCounts n xs)) :
    (∀ o ∈ histDensity n xs, 0 ≤ o) ∧ (histDensity n xs).sum = 1 ∧ (histDensity n xs).length = n := by
  have hT : (0 : ℝ) < (natSum (histCounts n xs) : ℝ) := by exact_mod_cast htot
  refine ⟨?_, ?_, ?_⟩
  · intro o ho
    simp only [histDensity, RofNat, List.mem_map] at ho
    obtain ⟨k, _, rfl⟩ := ho
    positivity
  · simp only [histDensity, RofNat, div_one]
    have : ∀ l : List ℕ, ∀ t : ℝ, (List.map (fun (k : ℕ) => ((k : ℝ) / t)) l).sum = ((l.sum : ℕ) : ℝ) / t := by
      intro l t
      induction l with
      | nil => simp
      | cons x xs ih => simp only [List.map_cons, List.sum_cons, ih, Nat.cast_add, add_div]
    rw [this, ← natSum_eq]
    exact div_self hT.ne'
  · simp [histDensity, histCounts]

/-- **the index of the model's own histogram is in range** whenever at least one pair angle falls
in `[0, θmax]`: for any non-negative theoretical bin values with `Σ T = 1 + δ` -/
theorem mindex_range_hist (n : ℕ) (hn : 0 < n) (xs : List ℝ) (htot : 0 < natSum (histCounts n xs))
    (T : List ℝ) (hT : ∀ t ∈ T, 0 ≤ t) (δ : ℝ) (hTs : T.sum = 1 + δ) :
    0 ≤ mIndexSum n T (histDensity n xs) ∧ mIndexSum n T (histDensity n xs) ≤ 1 + δ / 2 := by
  obtain ⟨h1, h2, h3⟩ := histDensity_spec n xs htot
  have hnr : (0 : ℝ) < n := by exact_mod_cast hn
  apply mindex_range (n : ℝ) T (histDensity n xs) (by rw [h3]; exact hn) hnr hT h1 δ
  · rw [h3, h2, div_self hnr.ne']; ring
  · rw [h3, hTs, div_self hnr.ne']; ring


/-! ## grain reordering -/

/-- **mindex_perm**: the multiset of pair values over `itertools.combinations(grains, 2)` does not
depend on the order of the grains, for every SYMMETRIC pair function (the reduced misorientation
angle is symmetric: `misorientation_symm`). Note that reordering turns some pairs `(q₁, q₂)` into
`(q₂, q₁)`, so symmetry is needed. -/
theorem mindex_perm {α β : Type} (f : α → α → β) (hf : ∀ a b, f a b = f b a) (l l' : List α)
    (h : l.Perm l') : (ModelD.MIndex.pairValues f l).Perm (ModelD.MIndex.pairValues f l') := by
  unfold ModelD.MIndex.pairValues
  induction h with
  | nil => simp
  | cons x _ ih =>
    simp only [ModelD.MIndex.pairs, List.map_append, List.map_map]
    exact List.Perm.append (List.Perm.map _ ‹_›) ih
  | swap x y l =>
    simp only [ModelD.MIndex.pairs, List.map_append, List.map_map, List.map_cons, List.cons_append]
    rw [hf y x]
    refine List.Perm.cons _ ?_
    simp only [← List.append_assoc]
    exact List.Perm.append_right _ List.perm_append_comm
  | trans _ _ ih1 ih2 => exact ih1.trans ih2

/-- the misorientation angle is symmetric in the two grains (any operator list, any action) -/
theorem misorientation_symm (act : SymOp → Quat → Quat) (ops : List SymOp) (q1 q2 : Quat) :
    misorientationAngle act ops q1 q2 = misorientationAngle act ops q2 q1 := by
  unfold misorientationAngle minPairAngle
  by_cases hne : ops = []
  · simp [hne]
  apply listMin_congr_set
  · obtain ⟨s, hs⟩ := List.exists_mem_of_ne_nil ops hne
    intro h
    have : pairAngle (act s q1).memo (act s q2).memo ∈
        (ops.map fun s => (act s q1).memo).flatMap fun p =>
          (ops.map fun s => (act s q2).memo).map fun q => pairAngle p q := by
      rw [mem_pairAngles]
      exact ⟨_, List.mem_map.mpr ⟨s, hs, rfl⟩, _, List.mem_map.mpr ⟨s, hs, rfl⟩, rfl⟩
    rw [h] at this
    simp at this
  · intro x
    rw [mem_pairAngles, mem_pairAngles]
    constructor
    · rintro ⟨p, hp, q, hq, rfl⟩; exact ⟨q, hq, p, hp, pairAngle_comm q p⟩
    · rintro ⟨p, hp, q, hq, rfl⟩; exact ⟨q, hq, p, hp, pairAngle_comm q p⟩

/-- hence every histogram count, and with it the index, is unchanged by reordering the grains -/
theorem hist_perm (n : ℕ) (xs ys : List ℝ) (h : xs.Perm ys) : histCounts n xs = histCounts n ys := by
  unfold histCounts
  apply List.map_congr_left
  intro b _
  exact h.countP_eq _

theorem mindex_counts_perm (sys : Lattice) (n : ℕ) (l l' : List Quat) (h : l.Perm l') :
    histCounts n (ModelD.MIndex.pairValues (misorientationCoded sys) l)
      = histCounts n (ModelD.MIndex.pairValues (misorientationCoded sys) l') :=
  hist_perm n _ _ (mindex_perm _ (fun a b => misorientation_symm _ _ a b) l l' h)


/-- the reduced angle of two grains lies in `[0°, 180°]` for every non-empty operator list -/
theorem misorientation_in_range (act : SymOp → Quat → Quat) (ops : List SymOp) (hne : ops ≠ [])
    (q1 q2 : Quat) :
    0 ≤ misorientationAngle act ops q1 q2 ∧ misorientationAngle act ops q1 q2 ≤ 180 := by
  unfold misorientationAngle minPairAngle
  obtain ⟨s, hs⟩ := List.exists_mem_of_ne_nil ops hne
  have hmem : pairAngle (act s q1).memo (act s q2).memo ∈
      (ops.map fun s => (act s q1).memo).flatMap fun p =>
        (ops.map fun s => (act s q2).memo).map fun q => pairAngle p q := by
    rw [mem_pairAngles]
    exact ⟨_, List.mem_map.mpr ⟨s, hs, rfl⟩, _, List.mem_map.mpr ⟨s, hs, rfl⟩, rfl⟩
  have hne' := List.ne_nil_of_mem hmem
  have := listMin_mem hne'
  rw [mem_pairAngles] at this
  obtain ⟨p, _, q, _, hpq⟩ := this
  rw [← hpq]
  exact pairAngle_range p q

/-- **triclinic: nothing is dropped by the histogram** (`θmax = 180`): the bin counts add up to the
number of grain pairs, so for at least two grains the density is well defined and, by
`mindex_range_hist`, the index of the model lies in `[0, 1 + δ/2]`. (For the other systems the
coded operators produce angles above `θmax`, which numpy drops — with two grains the histogram can
be empty and the index NaN: known findings `range:*`.) -/
theorem triclinic_hist_total (l : List Quat) :
    natSum (histCounts 180 (ModelD.MIndex.pairValues (misorientationCoded .triclinic) l))
      = (ModelD.MIndex.pairs l).length := by
  rw [histCounts_total 180 (by norm_num)]
  · simp [ModelD.MIndex.pairValues]
  · intro x hx
    simp only [ModelD.MIndex.pairValues, List.mem_map] at hx
    obtain ⟨pr, _, rfl⟩ := hx
    have := misorientation_in_range applyOp (symmetryOperations .triclinic)
      (by simp [symmetryOperations]) pr.1 pr.2
    simpa [misorientationCoded] using this

theorem pairs_length {α : Type} (l : List α) :
    (ModelD.MIndex.pairs l).length = l.length * (l.length - 1) / 2 := by
  induction l with
  | nil => simp [ModelD.MIndex.pairs]
  | cons x xs ih =>
    simp only [ModelD.MIndex.pairs, List.length_append, List.length_map, ih, List.length_cons,
      Nat.add_sub_cancel]
    have h : xs.length * (xs.length - 1) % 2 = 0 := by
      rcases Nat.even_or_odd xs.length with ⟨k, hk⟩ | ⟨k, hk⟩
      · rw [hk]; rcases k with _ | k
        · simp
        · have : (k + 1 + (k + 1)) * (k + 1 + (k + 1) - 1) = 2 * ((k + 1) * (k + 1 + (k + 1) - 1)) := by ring
          rw [this]; simp
      · rw [hk]; have : (2 * k + 1) * (2 * k + 1 - 1) = 2 * ((2 * k + 1) * k) := by
          simp only [Nat.add_sub_cancel]; ring
        rw [this]; simp
    rcases Nat.eq_zero_or_pos xs.length with h0 | h0
    · simp [h0]
    · have e : (xs.length + 1) * xs.length = xs.length * (xs.length - 1) + 2 * xs.length := by
        obtain ⟨m, hm⟩ : ∃ m, xs.length = m + 1 := ⟨xs.length - 1, by omega⟩
        rw [hm]; simp only [Nat.add_sub_cancel]; ring
      rw [e]; omega

/-! ## the batched variant -/

theorem lookup_completionLog {α β : Type} (f : α → β) (stack : List α) (order : List ℕ) (i : ℕ)
    (hi : i < stack.length) (hmem : i ∈ order) :
    (ModelD.MIndex.completionLog f stack order).lookup i = some (f stack[i]) := by
  unfold ModelD.MIndex.completionLog
  induction order with
  | nil => simp at hmem
  | cons j rest ih =>
    simp only [List.filterMap_cons]
    cases hj : stack[j]? with
    | none =>
      simp only [Option.map_none]
      have hji : j ≠ i := by
        rintro rfl
        rw [List.getElem?_eq_getElem hi] at hj
        simp at hj
      rcases List.mem_cons.mp hmem with h | h
      · exact absurd h.symm hji
      · exact ih h
    | some y =>
      simp only [Option.map_some, List.lookup_cons]
      by_cases hji : i = j
      · subst hji
        rw [List.getElem?_eq_getElem hi] at hj
        simp only [Option.some.injEq] at hj
        simp [hj]
      · have : (i == j) = false := by simp [hji]
        rw [this]
        rcases List.mem_cons.mp hmem with h | h
        · exact absurd h hji
        · exact ih h

/-- **batched_is_map**: for every order in which the workers finish (provided every submitted
snapshot finishes), `Pool.imap` yields, and the loop stores, exactly the per-snapshot values in
snapshot order. -/
theorem batched_is_map {α β : Type} (f : α → β) (stack : List α) (order : List ℕ)
    (hall : ∀ i < stack.length, i ∈ order) :
    ModelD.MIndex.imap f stack order = stack.map f ∧
    ModelD.MIndex.batched f stack order = (stack.map f).map some := by
  have h1 : ModelD.MIndex.imap f stack order = stack.map f := by
    unfold ModelD.MIndex.imap
    apply List.ext_getElem?
    intro k
    by_cases hk : k < stack.length
    · have e : (List.range stack.length).filterMap
          (fun i => (ModelD.MIndex.completionLog f stack order).lookup i)
          = (List.range stack.length).map (fun i => f (stack[i]?.getD (stack[k]))) := by
        rw [← List.filterMap_eq_map]
        apply List.filterMap_congr
        intro i hi
        have hi' : i < stack.length := List.mem_range.mp hi
        rw [lookup_completionLog f stack order i hi' (hall i hi')]
        simp [List.getElem?_eq_getElem hi']
      rw [e]
      simp [List.getElem?_map, List.getElem?_range hk, List.getElem?_eq_getElem hk]
    · have hk' : stack.length ≤ k := not_lt.mp hk
      have l1 : ((List.range stack.length).filterMap
          fun i => (ModelD.MIndex.completionLog f stack order).lookup i).length ≤ k :=
        le_trans (List.length_filterMap_le _ _) (by simpa using hk')
      rw [List.getElem?_eq_none l1, List.getElem?_eq_none (by simpa using hk')]
  refine ⟨h1, ?_⟩
  unfold ModelD.MIndex.batched ModelD.MIndex.assignEnumerated
  rw [h1]
  apply List.ext_getElem?
  intro k
  by_cases hk : k < stack.length
  · simp [List.getElem?_map, List.getElem?_range hk, List.getElem?_eq_getElem hk, hk]
  · have hk' : stack.length ≤ k := not_lt.mp hk
    rw [List.getElem?_eq_none (by simpa using hk'), List.getElem?_eq_none (by simpa using hk')]

end ModelR
