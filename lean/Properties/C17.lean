import Proofs.Npz
/-! # C17 — mineral persistence (`Mineral.save`, `Mineral.load`, `Mineral.from_file`)

Model: `ModelD.Npz` (archives as ordered member lists with numpy's `NpzFile` lookup, ZIP append
mode, `np.savez` replacing the file, `np.stack`/`list()` on arrays of 64-bit tokens). The model
follows /repo after the two C17 repairs (`load` sets `n_grains`; `save` rejects non-".npz"
names); `loadPinned`/`savePinned` are the pinned versions (witnesses in `Witness/C17.lean`).

`Valid m` is the consistent state of a mineral (equal snapshot counts, at least one snapshot,
every fractions snapshot of shape `(n_grains,)`, every orientations snapshot of shape
`(n_grains, 3, 3)`, ordinals `< 256`). `NoNul p` excludes the NUL character from a postfix:
`zipfile` cuts member names at the first NUL (hypothesis forced by the proof; witness and
replay in `Witness/C17.lean`, known finding `postfix:nul_truncated`). -/
namespace ModelD.Npz
open List

/-- **keys_injective**: distinct postfixes give disjoint member-name triples, which are also
disjoint from the un-suffixed triple and from the `.npy` names `np.savez` writes. -/
theorem keys_injective (k k' : Str) (hk : IsKey k) (hk' : IsKey k') (p p' : Str) :
    (keyOf k (some p) = keyOf k' (some p') → k = k' ∧ p = p') ∧
    keyOf k (some p) ≠ keyOf k' none ∧ keyOf k (some p) ≠ keyOf k' none ++ dotNpy :=
  ⟨keyOf_some_inj k k' hk hk' p p', (keyOf_some_ne_plain k k' hk hk' p).1,
   (keyOf_some_ne_plain k k' hk hk' p).2⟩

/-- **append_preserves_others** (un-suffixed keys): saving any minerals under postfixes leaves
the whole-file entries (`postfix = None`) untouched. -/
theorem append_preserves_plain (ar : Archive) (ms : List (Str × Mineral)) (hnn : ∀ e ∈ ms, NoNul e.1)
    (k : Str) (hk : IsKey k) :
    lookup (ar ++ allEntries ms) (keyOf k none) = lookup ar (keyOf k none) := by
  apply lookup_append_allEntries ar ms hnn
  intro e _ k' hk'
  exact keyOf_some_ne_plain k' k hk' hk e.1

/-- **append_preserves_others** (suffixed keys): a member stored under postfix `q` is still what
the lookup returns after any further saves under postfixes different from `q`. -/
theorem append_preserves_others (ar : Archive) (ms : List (Str × Mineral)) (hnn : ∀ e ∈ ms, NoNul e.1)
    (k : Str) (hk : IsKey k) (q : Str) (hq : ∀ e ∈ ms, e.1 ≠ q) (a : Arr)
    (hsaved : lastNamed ar (keyOf k (some q)) = some a) :
    lookup (ar ++ allEntries ms) (keyOf k (some q)) = some a := by
  have hnone : lastNamed (allEntries ms) (keyOf k (some q)) = none := by
    apply lastNamed_allEntries_none ms hnn
    intro e he k' hk' heq
    exact hq e he (keyOf_some_inj k' k hk' hk e.1 q heq).2
  simp [lookup, lastNamed_append, hnone, hsaved]

/-- what the archive of `file` looks like after a sequence of saves under postfixes (all valid
minerals, ".npz" name): every save succeeds, the members are appended in order, no other file
is touched. -/
theorem saveAll_postfix (file : Str) (hfile : isNpzName file = true) (ms : List (Str × Mineral))
    (hv : ∀ e ∈ ms, Valid e.2) (fs : FS) :
    ∃ fs', saveAll fs file (ms.map (fun e => (some e.1, e.2))) = (fs', .ok ()) ∧
      (fsGet fs' file).getD [] = (fsGet fs file).getD [] ++ allEntries ms ∧
      (ms ≠ [] → (fsGet fs' file).isSome = true) ∧
      ∀ g, g ≠ file → fsGet fs' g = fsGet fs g := by
  induction ms generalizing fs with
  | nil => exact ⟨fs, rfl, by simp [allEntries], by simp, fun _ _ => rfl⟩
  | cons e rest ih =>
    obtain ⟨p, m⟩ := e
    have hm : Valid m := hv (p, m) (by simp)
    have hsave : save fs m file (some p)
        = (fsPut fs file ((fsGet fs file).getD [] ++ entries p (dOf m)), .ok ()) := by
      simp [save, hfile, savePinned, saveData_eq_dOf m hm, writeData_some]
    obtain ⟨fs', h1, h2, _, h4⟩ := ih (fun x hx => hv x (by simp [hx]))
      (fsPut fs file ((fsGet fs file).getD [] ++ entries p (dOf m)))
    refine ⟨fs', ?_, ?_, ?_, ?_⟩
    · simp only [map_cons, saveAll, hsave]; exact h1
    · rw [h2, fsGet_fsPut_same]; simp [allEntries]
    · intro _
      rcases rest with _ | ⟨r, rs⟩
      · simp only [map_nil, saveAll] at h1
        have : fs' = fsPut fs file ((fsGet fs file).getD [] ++ entries p (dOf m)) := by
          simpa using (Prod.mk.inj h1).1.symm
        rw [this, fsGet_fsPut_same]; rfl
      · have := h2
        rw [fsGet_fsPut_same] at this
        cases hget : fsGet fs' file with
        | none => rw [hget] at this; simp [allEntries, entries] at this
        | some _ => rfl
    · intro g hg
      rw [h4 g hg, fsGet_fsPut_other _ _ _ _ hg]

/-- **save_all_then_load** (`from_file`): after any sequence of saves of valid minerals under
NUL-free postfixes into one ".npz" file — starting from any file-system state, in any order,
postfixes possibly reused — loading under postfix `p` returns exactly the mineral of the *last*
save under `p`: phase, fabric, regime, grain count and every snapshot token for token. With
pairwise distinct postfixes every saved mineral is therefore recovered intact. -/
theorem save_all_then_load (file : Str) (hfile : isNpzName file = true) (fs : FS)
    (pre post : List (Str × Mineral)) (p : Str) (m : Mineral)
    (hv : ∀ e ∈ pre ++ (p, m) :: post, Valid e.2) (hnn : ∀ e ∈ pre ++ (p, m) :: post, NoNul e.1)
    (hpost : ∀ e ∈ post, e.1 ≠ p) :
    ∃ fs', saveAll fs file ((pre ++ (p, m) :: post).map (fun e => (some e.1, e.2))) = (fs', .ok ()) ∧
      fromFile fs' file (some p) = .ok m := by
  obtain ⟨fs', h1, h2, h3, _⟩ := saveAll_postfix file hfile (pre ++ (p, m) :: post) hv fs
  refine ⟨fs', h1, ?_⟩
  have hm : Valid m := hv (p, m) (by simp)
  obtain ⟨ar, har⟩ := Option.isSome_iff_exists.mp (h3 (by simp))
  rw [har] at h2
  simp only [Option.getD_some] at h2
  obtain ⟨hd1, hd2, hd3⟩ := dOf_spec m hm
  have hl := fun k hk => lookup_saved ((fsGet fs file).getD []) pre post p m hnn hpost k hk
  have hread := readData_of_lookups fs' file (some p) ar m (dOf m).2.1 (dOf m).2.2 hfile har hm.small
    (by rw [h2, hl kMeta (Or.inl rfl)]; simp [pick, hd1])
    (by rw [h2, hl kFractions (Or.inr (Or.inl rfl))]; simp [pick, kFractions, kMeta]) hd2
    (by rw [h2, hl kOrientations (Or.inr (Or.inr rfl))]; simp [pick, kOrientations, kFractions, kMeta]) hd3
  simp only [fromFile, hread, len0_valid m hm, orientations_nonempty m hm, bind, Except.bind, pure,
    Except.pure, Bool.false_eq_true, if_false]

/-- the same through `Mineral.load` (repaired): loading into **any** existing mineral makes it
equal to the saved one, grain count included. -/
theorem load_restores (file : Str) (hfile : isNpzName file = true) (fs : FS)
    (pre post : List (Str × Mineral)) (p : Str) (m target : Mineral)
    (hv : ∀ e ∈ pre ++ (p, m) :: post, Valid e.2) (hnn : ∀ e ∈ pre ++ (p, m) :: post, NoNul e.1)
    (hpost : ∀ e ∈ post, e.1 ≠ p) :
    ∃ fs', saveAll fs file ((pre ++ (p, m) :: post).map (fun e => (some e.1, e.2))) = (fs', .ok ()) ∧
      load fs' target file (some p) = .ok m := by
  obtain ⟨fs', h1, h2, h3, _⟩ := saveAll_postfix file hfile (pre ++ (p, m) :: post) hv fs
  refine ⟨fs', h1, ?_⟩
  have hm : Valid m := hv (p, m) (by simp)
  obtain ⟨ar, har⟩ := Option.isSome_iff_exists.mp (h3 (by simp))
  rw [har] at h2
  simp only [Option.getD_some] at h2
  obtain ⟨hd1, hd2, hd3⟩ := dOf_spec m hm
  have hl := fun k hk => lookup_saved ((fsGet fs file).getD []) pre post p m hnn hpost k hk
  have hread := readData_of_lookups fs' file (some p) ar m (dOf m).2.1 (dOf m).2.2 hfile har hm.small
    (by rw [h2, hl kMeta (Or.inl rfl)]; simp [pick, hd1])
    (by rw [h2, hl kFractions (Or.inr (Or.inl rfl))]; simp [pick, kFractions, kMeta]) hd2
    (by rw [h2, hl kOrientations (Or.inr (Or.inr rfl))]; simp [pick, kOrientations, kFractions, kMeta]) hd3
  simp only [load, hread, len0_valid m hm, orientations_nonempty m hm, bind, Except.bind, pure,
    Except.pure, Bool.false_eq_true, if_false]

/-- **whole-file form**: a mineral saved without postfix (which replaces the file), followed by
any saves under postfixes, is recovered intact by `from_file(file)` and by `load(file)` into any
existing mineral — and all the minerals saved under postfixes after it are recoverable too
(`save_all_then_load` applies to the state after the whole-file save). -/
theorem whole_file_then_postfixes (file : Str) (hfile : isNpzName file = true) (fs : FS)
    (m0 target : Mineral) (hv0 : Valid m0) (ms : List (Str × Mineral))
    (hv : ∀ e ∈ ms, Valid e.2) (hnn : ∀ e ∈ ms, NoNul e.1) :
    ∃ fs', saveAll fs file ((none, m0) :: ms.map (fun e => (some e.1, e.2))) = (fs', .ok ()) ∧
      fromFile fs' file none = .ok m0 ∧ load fs' target file none = .ok m0 := by
  obtain ⟨hd1, hd2, hd3⟩ := dOf_spec m0 hv0
  set ar0 : Archive := [(kMeta ++ dotNpy, (dOf m0).1), (kFractions ++ dotNpy, (dOf m0).2.1),
    (kOrientations ++ dotNpy, (dOf m0).2.2)] with har0
  have hsave : save fs m0 file none = (fsPut fs file ar0, .ok ()) := by
    simp [save, hfile, savePinned, saveData_eq_dOf m0 hv0, writeData, har0]
  obtain ⟨fs', h1, h2, _, _⟩ := saveAll_postfix file hfile ms hv (fsPut fs file ar0)
  rw [fsGet_fsPut_same] at h2
  simp only [Option.getD_some] at h2
  have hsome : ∃ ar, fsGet fs' file = some ar := by
    cases hget : fsGet fs' file with
    | none => rw [hget] at h2; simp [har0] at h2
    | some ar => exact ⟨ar, rfl⟩
  obtain ⟨ar, har⟩ := hsome
  rw [har] at h2
  simp only [Option.getD_some] at h2
  have hl : ∀ k, IsKey k → lookup ar (keyOf k none) = lookup ar0 (keyOf k none) := by
    intro k hk; rw [h2]; exact append_preserves_plain ar0 ms hnn k hk
  have hread := readData_of_lookups fs' file none ar m0 (dOf m0).2.1 (dOf m0).2.2 hfile har hv0.small
    (by rw [hl kMeta (Or.inl rfl), ← hd1]; simp [lookup, lastNamed, har0, keyOf, kMeta, kFractions, kOrientations, dotNpy])
    (by rw [hl kFractions (Or.inr (Or.inl rfl))]; simp [lookup, lastNamed, har0, keyOf, kMeta, kFractions, kOrientations, dotNpy]) hd2
    (by rw [hl kOrientations (Or.inr (Or.inr rfl))]; simp [lookup, lastNamed, har0, keyOf, kMeta, kFractions, kOrientations, dotNpy]) hd3
  refine ⟨fs', ?_, ?_, ?_⟩
  · simp only [saveAll, hsave]; exact h1
  · simp only [fromFile, hread, len0_valid m0 hv0, orientations_nonempty m0 hv0, bind, Except.bind, pure,
      Except.pure, Bool.false_eq_true, if_false]
  · simp only [load, hread, len0_valid m0 hv0, orientations_nonempty m0 hv0, bind, Except.bind, pure,
      Except.pure, Bool.false_eq_true, if_false]

/-- a valid mineral is always accepted by `save` (so the rejections below are exactly about
corrupt state and bad names) -/
theorem valid_saved (fs : FS) (m : Mineral) (hv : Valid m) (file : Str) (hfile : isNpzName file = true)
    (pf : Option Str) : (save fs m file pf).2 = .ok () := by
  simp [save, hfile, savePinned, saveData_eq_dOf m hv]

/-- **no write on rejection**: whenever `save` raises, the file system is unchanged. -/
theorem save_error_no_write (fs : FS) (m : Mineral) (file : Str) (pf : Option Str) (e : Err)
    (h : (save fs m file pf).2 = .error e) : (save fs m file pf).1 = fs := by
  unfold save at h ⊢
  split at h
  · simp_all
  · rename_i hn
    simp only [hn, if_false] at h ⊢
    unfold savePinned at h ⊢
    cases hd : saveData m with
    | error e' => simp
    | ok d => simp [hd] at h

/-- **corrupt_rejected_no_write (1)**: unequal numbers of stored fraction and orientation
snapshots ⇒ `ValueError`, nothing written. -/
theorem corrupt_counts_rejected (fs : FS) (m : Mineral) (file : Str) (pf : Option Str)
    (h : m.fractions.length ≠ m.orientations.length) :
    save fs m file pf = (fs, .error .valueError) := by
  unfold save
  split
  · rfl
  · simp [savePinned, saveData, h, bind, Except.bind, throw, throwThe, MonadExceptOf.throw]

/-- **corrupt_rejected_no_write (2)**: first snapshots whose leading extents differ from each
other or from `n_grains` ⇒ `ValueError`, nothing written. -/
theorem corrupt_sizes_rejected (fs : FS) (m : Mineral) (file : Str) (pf : Option Str)
    (f0 o0 : Arr) (fr ors : List Arr) (nf no : Nat) (sf so : List Nat)
    (hf : m.fractions = f0 :: fr) (ho : m.orientations = o0 :: ors)
    (hfs : f0.shape = nf :: sf) (hos : o0.shape = no :: so)
    (hbad : ¬ (nf = no ∧ no = m.nGrains)) :
    save fs m file pf = (fs, .error .valueError) := by
  unfold save
  split
  · rfl
  · by_cases hc : m.fractions.length = m.orientations.length
    · simp [savePinned, saveData, hf, ho, dim0, hfs, hos, hbad, bind, Except.bind, throw,
        throwThe, MonadExceptOf.throw]
    · have := corrupt_counts_rejected fs m file pf hc
      unfold save at this
      simpa [*] using this

/-- **corrupt_rejected_no_write (3)**: ragged later snapshots (`np.stack` fails) ⇒ `ValueError`,
nothing written (everything checked before the stacking being in order). -/
theorem corrupt_ragged_rejected (fs : FS) (m : Mineral) (file : Str) (pf : Option Str)
    (f0 o0 : Arr) (fr ors : List Arr) (sf so : List Nat)
    (hc : m.fractions.length = m.orientations.length)
    (hf : m.fractions = f0 :: fr) (ho : m.orientations = o0 :: ors)
    (hfs : f0.shape = m.nGrains :: sf) (hos : o0.shape = m.nGrains :: so)
    (hsmall : m.phase < 256 ∧ m.fabric < 256 ∧ m.regime < 256)
    (hrag : (∃ a ∈ m.fractions, ∃ b ∈ m.fractions, a.shape ≠ b.shape) ∨
            (∃ a ∈ m.orientations, ∃ b ∈ m.orientations, a.shape ≠ b.shape)) :
    save fs m file pf = (fs, .error .valueError) := by
  have hstack : ∀ l : List Arr, (∃ a ∈ l, ∃ b ∈ l, a.shape ≠ b.shape) → stack l = .error .valueError := by
    intro l ⟨a, ha, b, hb, hab⟩
    cases l with
    | nil => simp at ha
    | cons c rest =>
      have : rest.all (fun x => decide (x.shape = c.shape)) = false := by
        by_contra hcon
        have hall : ∀ x ∈ rest, x.shape = c.shape := by
          simpa [all_eq_true] using hcon
        have hx : ∀ x ∈ c :: rest, x.shape = c.shape := by
          intro x hx; rcases mem_cons.mp hx with rfl | hx
          · rfl
          · exact hall x hx
        exact hab ((hx a ha).trans (hx b hb).symm)
      simp [stack, this]
  have hstack_err : ∀ (l : List Arr) (e : Err), stack l = .error e → e = .valueError := by
    intro l e h
    cases l with
    | nil => simp [stack] at h; exact h.symm
    | cons c rest =>
      simp only [stack] at h
      split at h
      · simp at h
      · simp at h; exact h.symm
  unfold save
  split
  · rfl
  · have hdata : saveData m = .error .valueError := by
      unfold saveData
      simp only [ne_eq, hf, ho, dim0, hfs, hos, and_self, if_true,
        mkMeta, hsmall, bind, Except.bind, pure, Except.pure]
      rw [← hf, ← ho]
      cases hF : stack m.fractions with
      | error e =>
        simp [hstack_err _ e hF]
        intro hcon; exact absurd hc hcon
      | ok F =>
        rcases hrag with h | h
        · rw [hstack _ h] at hF; simp at hF
        · simp [hstack _ h]
          intro hcon; exact absurd hc hcon
    simp [savePinned, hdata]

/-- **non_npz_rejected**: a file name that does not end in ".npz" is refused with `ValueError`
by `save` (nothing written), `load` and `from_file`, whatever else is the case. -/
theorem non_npz_rejected (fs : FS) (m : Mineral) (file : Str) (pf : Option Str)
    (h : isNpzName file = false) :
    save fs m file pf = (fs, .error .valueError) ∧
    fromFile fs file pf = .error .valueError ∧
    load fs m file pf = .error .valueError := by
  simp [save, fromFile, load, readData, h, bind, Except.bind, throw, throwThe, MonadExceptOf.throw]

theorem saveAll_append (fs : FS) (file : Str) (a b : List (Option Str × Mineral)) :
    saveAll fs file (a ++ b) =
      match saveAll fs file a with
      | (fs', .ok ()) => saveAll fs' file b
      | (fs', .error e) => (fs', .error e) := by
  induction a generalizing fs with
  | nil => simp [saveAll]
  | cons x rest ih =>
    obtain ⟨p, m⟩ := x
    simp only [cons_append, saveAll]
    cases hs : save fs m file p with
    | mk fs1 r =>
      cases r with
      | error e => simp
      | ok u => cases u; simp [ih]

/-- any sequence of saves of valid minerals into a ".npz" file succeeds -/
theorem saveAll_valid_ok (fs : FS) (file : Str) (hfile : isNpzName file = true)
    (ops : List (Option Str × Mineral)) (hv : ∀ e ∈ ops, Valid e.2) :
    ∃ fs', saveAll fs file ops = (fs', .ok ()) := by
  induction ops generalizing fs with
  | nil => exact ⟨fs, rfl⟩
  | cons x rest ih =>
    obtain ⟨p, m⟩ := x
    have hm : Valid m := hv (p, m) (by simp)
    have h2 := valid_saved fs m hm file hfile p
    cases hs : save fs m file p with
    | mk fs1 r =>
      rw [hs] at h2
      simp only at h2
      subst h2
      obtain ⟨fs', h'⟩ := ih fs1 (fun e he => hv e (by simp [he]))
      exact ⟨fs', by simp [saveAll, hs, h']⟩

/-- **any history**: after an arbitrary sequence of saves into one file — whole-file saves and
saves under postfixes in any interleaving — a mineral saved under postfix `p` is recovered
intact by both loaders provided that afterwards there was neither a whole-file save (which
replaces the archive) nor another save under `p`. -/
theorem save_any_sequence_then_load (file : Str) (hfile : isNpzName file = true) (fs : FS)
    (before : List (Option Str × Mineral)) (after : List (Str × Mineral)) (p : Str) (m target : Mineral)
    (hvb : ∀ e ∈ before, Valid e.2) (hm : Valid m) (hva : ∀ e ∈ after, Valid e.2)
    (hp : NoNul p) (hnn : ∀ e ∈ after, NoNul e.1) (hafter : ∀ e ∈ after, e.1 ≠ p) :
    ∃ fs', saveAll fs file (before ++ (some p, m) :: after.map (fun e => (some e.1, e.2))) = (fs', .ok ()) ∧
      fromFile fs' file (some p) = .ok m ∧ load fs' target file (some p) = .ok m := by
  obtain ⟨fs1, h1⟩ := saveAll_valid_ok fs file hfile before hvb
  have hv' : ∀ e ∈ ([] : List (Str × Mineral)) ++ (p, m) :: after, Valid e.2 := by
    intro e he
    rcases mem_cons.mp (by simpa using he) with rfl | he
    · exact hm
    · exact hva e he
  have hnn' : ∀ e ∈ ([] : List (Str × Mineral)) ++ (p, m) :: after, NoNul e.1 := by
    intro e he
    rcases mem_cons.mp (by simpa using he) with rfl | he
    · exact hp
    · exact hnn e he
  obtain ⟨fs', h2, h3⟩ := save_all_then_load file hfile fs1 [] after p m hv' hnn' hafter
  obtain ⟨fs'', h2', h4⟩ := load_restores file hfile fs1 [] after p m target hv' hnn' hafter
  have : fs'' = fs' := by
    rw [h2] at h2'; exact (Prod.mk.inj h2').1.symm
  subst this
  refine ⟨fs'', ?_, h3, h4⟩
  rw [saveAll_append, h1]
  simpa using h2

end ModelD.Npz
