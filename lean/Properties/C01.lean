import Proofs.Solver
import Proofs.Linalg3
import Properties.C09
/-! # C01 — every stored texture snapshot is a valid texture, after any update history

The solver output is UNCONSTRAINED in these theorems: `raws` is any list of vectors (LSODA may
return anything, even adversarial values). What is proved is what the code's own post-processing
guarantees for every such history, plus the exact conservation law of the flow it integrates. -/
namespace ModelR
open List

/-- run a whole history of updates; `none` entries are failed updates -/
noncomputable def runHistory (chi : ℝ) : Mineral → List (Option (List (List ℝ))) → Mineral
  | m, [] => m
  | m, r :: rs => runHistory chi (updateWith m chi r).1 rs

/-- an update that ran to completion -/
def Completed (r : Option (List (List ℝ))) : Prop := ∃ rs, r = some rs ∧ rs ≠ []

theorem updateWith_snaps (m : Mineral) (chi : ℝ) (r : Option (List (List ℝ))) :
    (∃ t, (updateWith m chi r).1.snaps = m.snaps ++ [t] ∧ Completed r) ∨
    ((updateWith m chi r).1.snaps = m.snaps ∧ ¬ Completed r) := by
  cases r with
  | none => right; exact ⟨rfl, by rintro ⟨rs, h, _⟩; cases h⟩
  | some rs =>
    cases hl : rs.getLast? with
    | none =>
      right
      have : rs = [] := List.getLast?_eq_none_iff.mp hl
      exact ⟨by simp [updateWith, hl], by rintro ⟨rs', h, hne⟩; injection h with h; exact hne (h ▸ this)⟩
    | some raw =>
      left
      refine ⟨(extractVars m.n (postStep chi m.n (lastA m) raw)).2, by simp [updateWith, hl], rs, rfl, ?_⟩
      intro h; subst h; simp at hl

/-- **each update appends exactly one snapshot and never alters earlier ones; a failed update
appends nothing**: the history after any sequence of updates has the old history as a prefix -/
theorem prefix_preserved (chi : ℝ) (m : Mineral) (rs : List (Option (List (List ℝ)))) :
    m.snaps <+: (runHistory chi m rs).snaps := by
  induction rs generalizing m with
  | nil => exact List.prefix_refl _
  | cons r rs ih =>
    simp only [runHistory]
    refine List.IsPrefix.trans ?_ (ih _)
    rcases updateWith_snaps m chi r with ⟨t, h, _⟩ | ⟨h, _⟩
    · rw [h]; exact List.prefix_append _ _
    · rw [h]

/-- **snapshot count**: after any history the number of stored snapshots is the initial number
plus the number of completed updates -/
theorem count_eq (chi : ℝ) (m : Mineral) (rs : List (Option (List (List ℝ))))
    [DecidablePred Completed] :
    (runHistory chi m rs).snaps.length = m.snaps.length + (rs.filter (fun r => decide (Completed r))).length := by
  induction rs generalizing m with
  | nil => simp [runHistory]
  | cons r rs ih =>
    simp only [runHistory, ih]
    rcases updateWith_snaps m chi r with ⟨t, h, hc⟩ | ⟨h, hc⟩
    · simp [h, hc]; omega
    · simp [h, hc]

/-- the snapshot appended by a completed update is `extract_vars` of the last written-back vector -/
theorem appended_snapshot (m : Mineral) (chi : ℝ) (rs : List (List ℝ)) (raw : List ℝ)
    (hl : rs.getLast? = some raw) :
    (updateWith m chi (some rs)).1.snaps
      = m.snaps ++ [(extractVars m.n (postStep chi m.n (lastA m) raw)).2] := by
  simp [updateWith, hl]

theorem clip_mem (x : ℝ) : -1 ≤ clip (-1) 1 x ∧ clip (-1) 1 x ≤ 1 := by
  unfold clip
  split_ifs with h1 h2 <;> constructor <;> linarith

/-- **every stored orientation entry lies in [-1, 1]**, whatever the solver returned -/
theorem entries_bounded (n : ℕ) (y : List ℝ) :
    ∀ a ∈ (extractVars n y).2.A, ∀ i j, -1 ≤ a i j ∧ a i j ≤ 1 := by
  intro a ha i j
  simp only [extractVars, extractTex, List.mem_map] at ha
  obtain ⟨b, _, rfl⟩ := ha
  exact clip_mem _

/-- **stored fractions are non-negative and sum to 1** whenever the clipped block has a positive
sum (the hypothesis is forced: an all-non-positive block gives 0/0, see Witness/C01.lean) -/
theorem fractions_simplex (n : ℕ) (y : List ℝ)
    (hpos : 0 < ((unpackY n y).2.f.map clip0).sum) :
    (extractVars n y).2.f.sum = 1 ∧ ∀ x ∈ (extractVars n y).2.f, 0 ≤ x := by
  have h := extract_simplex (unpackY n y).2 (ne_of_gt hpos)
  refine ⟨h.1, ?_⟩
  intro x hx
  rcases h.2 x hx with h0 | hneg
  · exact h0
  · linarith

theorem chunk9_length (n : ℕ) (l : List ℝ) : (chunk9 n l).length = n := by
  induction n generalizing l with
  | zero => rfl
  | succ k ih => simp [chunk9, ih]

/-- **every stored snapshot holds exactly `n_grains` orientations and `n_grains` fractions**
when the solver vector has the length `10 n + 9` that the packing gives it -/
theorem snapshot_shape (n : ℕ) (y : List ℝ) (hy : y.length = 10 * n + 9) :
    (extractVars n y).2.A.length = n ∧ (extractVars n y).2.f.length = n := by
  constructor
  · simp [extractVars, extractTex, unpackY, chunk9_length]
  · simp [extractVars, extractTex, unpackY, hy]; omega

/-- the written-back vector has the same length as the solver vector -/
theorem postStep_length (chi : ℝ) (n : ℕ) (prev : List Mat3) (y : List ℝ)
    (hy : y.length = 10 * n + 9) (hp : prev.length = n) :
    (postStep chi n prev y).length = 10 * n + 9 := by
  have hs := snapshot_shape n y hy
  have hflat : ∀ (l : List Mat3), (l.flatMap mat3ToList).length = 9 * l.length := by
    intro l
    induction l with
    | nil => rfl
    | cons a as ih => simp [ih]; omega
  simp only [postStep, packY, List.length_append, mat3ToList_length, hflat]
  rw [applyGbs_length_A _ _ _ _ (by rw [hs.1, hs.2]) (by rw [hp, hs.2]), applyGbs_length_f, hs.2]
  omega

/-- **the flow that is integrated conserves orthonormality exactly**: for a rate of the form
`Ȧ = A·W` with `W` skew (which C03 proves for every grain), `d/dt (A Aᵀ) = Ȧ Aᵀ + A Ȧᵀ = 0`. -/
theorem skew_conserves (A W : Mat3) (hW : IsSkew W) :
    madd (mmul (mmul A W) (tr A)) (mmul A (tr (mmul A W))) = zero3 := by
  funext i j
  have h : ∀ a b, W a b = - W b a := hW
  have d0 : W 0 0 = 0 := by linarith [h 0 0]
  have d1 : W 1 1 = 0 := by linarith [h 1 1]
  have d2 : W 2 2 = 0 := by linarith [h 2 2]
  simp only [madd, mmul, tr, zero3, sum3]
  rw [d0, d1, d2, h 1 0, h 2 0, h 2 1]
  ring

/-- and the determinant's rate vanishes too: `d/dt det A = det A · tr W = 0` (Jacobi's formula,
here as the algebraic identity behind it: the trace of a skew matrix is zero) -/
theorem skew_trace_zero (W : Mat3) (hW : IsSkew W) : trace3 W = 0 := by
  have h0 := hW 0 0
  have h1 := hW 1 1
  have h2 := hW 2 2
  simp only [trace3]
  linarith

/-- **the initial snapshot of a default-constructed mineral has valid fractions**: `n` copies of
`1/n` are non-negative and sum to 1 for every `n ≥ 1` -/
theorem init_valid (n : ℕ) (hn : 0 < n) :
    (List.replicate n (1 / (n : ℝ))).sum = 1 ∧ ∀ x ∈ List.replicate n (1 / (n : ℝ)), 0 ≤ x := by
  have hnR : (0 : ℝ) < n := by exact_mod_cast hn
  constructor
  · rw [List.sum_replicate]; simp; field_simp
  · intro x hx
    rw [List.eq_of_mem_replicate hx]
    positivity

end ModelR

namespace ModelR
open List

/-- **the snapshot stored by a completed update is on the simplex, its orientation entries are in
[-1, 1], it has `n` grains and no fraction is below the sliding floor** — for ANY vector `raw`
(length `10 n + 9`) returned by the solver whose fraction block has a positive clipped sum. This
composes `extract_vars` → `apply_gbs` → write-back → `extract_vars` exactly as the update does. -/
theorem completed_update_valid (m : Mineral) (chi : ℝ) (rs : List (List ℝ)) (raw : List ℝ)
    (hl : rs.getLast? = some raw) (hn0 : 0 < m.n) (hchi : 0 ≤ chi)
    (hlen : raw.length = 10 * m.n + 9) (hprev : (lastA m).length = m.n)
    (hpos : 0 < ((unpackY m.n raw).2.f.map clip0).sum) :
    ∃ t, (updateWith m chi (some rs)).1.snaps = m.snaps ++ [t] ∧
      t.A.length = m.n ∧ t.f.length = m.n ∧
      t.f.sum = 1 ∧ (∀ x ∈ t.f, chi / (m.n * (1 + chi)) ≤ x) ∧ (∀ x ∈ t.f, 0 ≤ x) ∧
      (∀ a ∈ t.A, ∀ i j, -1 ≤ a i j ∧ a i j ≤ 1) := by
  refine ⟨(extractVars m.n (postStep chi m.n (lastA m) raw)).2, appended_snapshot m chi rs raw hl, ?_⟩
  have hshape1 := snapshot_shape m.n raw hlen
  have hsimp1 := fractions_simplex m.n raw hpos
  -- the vector written back
  have hps : postStep chi m.n (lastA m) raw
      = packY (extractVars m.n raw).1 (applyGbs chi m.n (lastA m) (extractVars m.n raw).2) := rfl
  set t1 := (extractVars m.n raw).2 with ht1
  set g := applyGbs chi m.n (lastA m) t1 with hg
  have hgA : g.A.length = m.n := by
    rw [hg, applyGbs_length_A _ _ _ _ (by rw [hshape1.1, hshape1.2]) (by rw [hprev, hshape1.2]), hshape1.2]
  have hgf : g.f.length = m.n := by rw [hg, applyGbs_length_f, hshape1.2]
  have hx : extractVars m.n (postStep chi m.n (lastA m) raw) = ((extractVars m.n raw).1, extractTex g) := by
    rw [hps]; unfold extractVars; rw [unpackY_packY m.n _ g hgA hgf]
  have hfloor := stored_floor chi m.n (lastA m) t1 hshape1.2 hn0 hchi hsimp1.2 hsimp1.1
  have hb := floor_bound chi m.n (lastA m) t1 hshape1.2 hn0 hchi hsimp1.2 hsimp1.1
  have hnR : (0 : ℝ) < m.n := by exact_mod_cast hn0
  have h0 : 0 ≤ chi / (m.n * (1 + chi)) := by positivity
  have hgpos : ∀ x ∈ g.f, 0 ≤ x := fun x hx' => le_trans h0 (hb x hx')
  have hlo := floored_sum_ge (chi / m.n) t1.f
  rw [hsimp1.1] at hlo
  have hgs : g.f.sum = 1 := renormalised chi m.n (lastA m) t1 (by linarith)
  have hid := extract_id_on_simplex g.f g.A hgpos hgs
  have hfeq : (extractTex g).f = g.f := hid
  rw [hx]
  refine ⟨by simp [extractTex, hgA], by rw [hfeq, hgf], by rw [hfeq, hgs], ?_, by rw [hfeq]; exact hgpos, ?_⟩
  · exact hfloor
  · intro a ha i j
    simp only [extractTex, List.mem_map] at ha
    obtain ⟨b, _, rfl⟩ := ha
    exact clip_mem _

end ModelR

namespace ModelR
open List

/-- a stored snapshot of an `n`-grain mineral that is a valid texture as far as the code's own
post-processing guarantees it: shapes, simplex, entry bounds -/
def GoodSnap (n : ℕ) (t : Tex) : Prop :=
  t.A.length = n ∧ t.f.length = n ∧ t.f.sum = 1 ∧ (∀ x ∈ t.f, 0 ≤ x) ∧ (∀ a ∈ t.A, ∀ i j, -1 ≤ a i j ∧ a i j ≤ 1)

/-- what is asked of the solver for one update: if it completes, its last vector has the packed
length and a fraction block with positive clipped sum (nothing else: values are arbitrary) -/
def SolverOutputOk (n : ℕ) (r : Option (List (List ℝ))) : Prop :=
  ∀ l raw, r = some l → l.getLast? = some raw →
    raw.length = 10 * n + 9 ∧ 0 < ((unpackY n raw).2.f.map clip0).sum

theorem updateWith_n (m : Mineral) (chi : ℝ) (r : Option (List (List ℝ))) : (updateWith m chi r).1.n = m.n := by
  cases r with
  | none => rfl
  | some rs =>
    cases hl : rs.getLast? with
    | none => simp [updateWith, hl]
    | some raw => simp [updateWith, hl]

/-- **after ANY update history every stored snapshot is a valid texture** (shapes, simplex, entry
bounds), given a valid initial history: induction over the sequence of updates, completed or
failed, with arbitrary solver output in every update. -/
theorem history_valid (chi : ℝ) (hchi : 0 ≤ chi) (m : Mineral) (hn0 : 0 < m.n)
    (hne : m.snaps ≠ []) (hgood : ∀ t ∈ m.snaps, GoodSnap m.n t)
    (rs : List (Option (List (List ℝ)))) (hrs : ∀ r ∈ rs, SolverOutputOk m.n r) :
    (runHistory chi m rs).n = m.n ∧ (runHistory chi m rs).snaps ≠ [] ∧
      ∀ t ∈ (runHistory chi m rs).snaps, GoodSnap m.n t := by
  induction rs generalizing m with
  | nil => exact ⟨rfl, hne, hgood⟩
  | cons r rs ih =>
    simp only [runHistory]
    have hn' := updateWith_n m chi r
    have hstep : (updateWith m chi r).1.snaps ≠ [] ∧ ∀ t ∈ (updateWith m chi r).1.snaps, GoodSnap m.n t := by
      cases r with
      | none => exact ⟨hne, hgood⟩
      | some l =>
        cases hl : l.getLast? with
        | none => simpa [updateWith, hl] using ⟨hne, hgood⟩
        | some raw =>
          obtain ⟨hlen, hpos⟩ := hrs (some l) (by simp) l raw rfl hl
          have hprev : (lastA m).length = m.n := by
            unfold lastA
            cases hg : m.snaps.getLast? with
            | none => exact absurd (List.getLast?_eq_none_iff.mp hg) hne
            | some t => exact (hgood t (List.mem_of_getLast? hg)).1
          obtain ⟨t, hsn, hA, hf, hsum, _, hnn, hb⟩ := completed_update_valid m chi l raw hl hn0 hchi hlen hprev hpos
          rw [hsn]
          refine ⟨by simp, ?_⟩
          intro s hs
          rcases List.mem_append.mp hs with h | h
          · exact hgood s h
          · simp only [List.mem_singleton] at h
            subst h
            exact ⟨hA, hf, hsum, hnn, hb⟩
    have := ih (updateWith m chi r).1 (by rw [hn']; exact hn0) hstep.1 (by rw [hn']; exact hstep.2)
      (by rw [hn']; intro r' hr'; exact hrs r' (by simp [hr']))
    rw [hn'] at this
    exact this

end ModelR
