import Properties.C04
import Properties.C07
import Proofs.NoSlip
/-! # C04 (continued) — frame indifference of the whole solver right-hand side `eval_rhs`

`actY Q n` is the action of a frame rotation on the packed solver vector
(`F ↦ Q F Qᵀ`, every `A ↦ A Qᵀ`, `f ↦ f`). For a state whose orientation entries are not clipped
by `extract_vars` in either frame (`NoClip`; true of valid textures) and any regime that does not
read the externally computed spin, `eval_rhs` in the rotated frame at the rotated state is the
rotated rate vector. -/
namespace ModelR
open List

noncomputable def actY (Q : Mat3) (n : ℕ) (v : List ℝ) : List ℝ :=
  packY (conj Q (unpackY n v).1) ⟨rotA Q (unpackY n v).2.A, (unpackY n v).2.f⟩

/-- no orientation entry is outside [-1, 1] (so `extract_vars` does not clip) -/
def NoClip (A : List Mat3) : Prop := ∀ a ∈ A, ∀ i j, -1 ≤ a i j ∧ a i j ≤ 1

theorem extractVars_packY (n : ℕ) (F : Mat3) (t : Tex) (hA : t.A.length = n) (hf : t.f.length = n)
    (hc : NoClip t.A) :
    extractVars n (packY F t) = (F, ⟨t.A, (extractTex t).f⟩) := by
  unfold extractVars
  rw [unpackY_packY n F t hA hf]
  have hAid : t.A.map (fun a => fun i j => clip (-1) 1 (a i j)) = t.A := by
    conv_rhs => rw [← List.map_id t.A]
    apply List.map_congr_left
    intro a ha
    funext i j
    exact clip_id _ (hc a ha i j)
  simp only [extractTex, hAid]

theorem rotA_length (Q : Mat3) (A : List Mat3) : (rotA Q A).length = A.length := by simp [rotA]

theorem flat_smul (e : ℝ) (ad : List Mat3) :
    (ad.flatMap mat3ToList).map (· * e) = (ad.map (fun a => fun i j => a i j * e)).flatMap mat3ToList := by
  induction ad with
  | nil => rfl
  | cons a as ih => simp [List.flatMap_cons, ih, mat3ToList]

theorem rotA_smul (Q : Mat3) (e : ℝ) (ad : List Mat3) :
    rotA Q (ad.map (fun a => fun i j => a i j * e)) = (rotA Q ad).map (fun a => fun i j => a i j * e) := by
  simp only [rotA, List.map_map]
  apply List.map_congr_left
  intro a _
  funext i j
  simp only [Function.comp, mmul, sum3]; ring

theorem derivatives_lengths (regime phase fabric : Int) (A : List Mat3) (f : List ℝ) (D L spin : Mat3)
    (q : DParams) (hlen : f.length = A.length) (out : List Mat3 × List ℝ)
    (h : derivatives regime phase fabric A f D L spin q = .ok out) :
    out.1.length = A.length ∧ out.2.length = A.length := by
  have hdis : ∀ damp c, (dislocationRates damp c phase A f D L q).1.length = A.length ∧
      (dislocationRates damp c phase A f D L q).2.length = A.length := by
    intro damp c; simp [dislocationRates, hlen]
  have hcrss : ∀ damp, (match getCrss phase fabric with
      | .error e => if A.isEmpty then Except.ok (([] : List Mat3), ([] : List ℝ)) else .error e
      | .ok crss => .ok (dislocationRates damp crss phase A f D L q)) = .ok out →
      out.1.length = A.length ∧ out.2.length = A.length := by
    intro damp hh
    cases hc : getCrss phase fabric with
    | error e =>
      simp only [hc] at hh
      cases hA : A with
      | nil => simp [hA] at hh; subst hh; simp
      | cons a as => simp [hA] at hh
    | ok c =>
      simp only [hc] at hh
      injection hh with hh; subst hh
      exact hdis damp c
  unfold derivatives at h
  by_cases h07 : regime = 0 ∨ regime = 7
  · simp only [h07, if_true] at h
    injection h with h; subst h; simp [hlen]
  · simp only [h07, if_false] at h
    by_cases h1 : regime = 1
    · simp only [h1, if_true] at h
      injection h with h; subst h; simp [hlen]
    · simp only [h1, if_false] at h
      by_cases h235 : regime = 2 ∨ regime = 3 ∨ regime = 5
      · simp [h235] at h
      · simp only [h235, if_false] at h
        by_cases h4 : regime = 4
        · simp only [h4, if_true] at h
          exact hcrss 1 h
        · simp only [h4, if_false] at h
          by_cases h6 : regime = 6
          · simp only [h6, if_true] at h
            exact hcrss 0.3 h
          · simp [h6] at h

theorem zeros_as_texture (n : ℕ) :
    zerosR (n * 10) = ((List.replicate n zero3).flatMap mat3ToList) ++ List.replicate n (0:ℝ) := by
  have h : ∀ k : ℕ, (List.replicate k zero3).flatMap mat3ToList = List.replicate (k * 9) (0:ℝ) := by
    intro k
    induction k with
    | zero => simp
    | succ k ih =>
      have h9 : mat3ToList zero3 = List.replicate 9 (0:ℝ) := by simp [mat3ToList, zero3, List.replicate]
      rw [List.replicate_succ, List.flatMap_cons, ih, h9, ← List.replicate_add]; congr 1; omega
  rw [h, ← List.replicate_add]; unfold zerosR
  first | rfl | (congr 1; omega)

theorem rotA_zero (Q : Mat3) (n : ℕ) : rotA Q (List.replicate n zero3) = List.replicate n zero3 := by
  simp only [rotA, List.map_replicate]
  congr 1
  funext i j; simp [mmul, zero3, sum3]

/-- **`eval_rhs` is frame indifferent** -/
theorem rhs_objective (Q : Mat3) (hQ : IsOrth Q) (phase fabric : Int) (n : ℕ) (mp : MParams) (env : RhsEnv)
    (F : Mat3) (t : Tex) (hA : t.A.length = n) (hf : t.f.length = n)
    (hc : NoClip t.A) (hc' : NoClip (rotA Q t.A)) (hreg : env.regime ≠ 1) (spin' : Mat3)
    (out : List ℝ) (h : evalRhs phase fabric n mp env (packY F t) = .ok out) :
    evalRhs phase fabric n mp { env with L := conj Q env.L, spin := spin' }
        (packY (conj Q F) ⟨rotA Q t.A, t.f⟩)
      = .ok (actY Q n out) := by
  obtain ⟨phi, hphi, hcase⟩ := evalRhs_ok phase fabric n mp env _ out h
  have hx := extractVars_packY n F t hA hf hc
  have hx' := extractVars_packY n (conj Q F) ⟨rotA Q t.A, t.f⟩ (by simp [rotA_length, hA]) hf hc'
  have hfN : (extractTex ⟨rotA Q t.A, t.f⟩).f = (extractTex t).f := by simp [extractTex]
  have hfNlen : (extractTex t).f.length = n := by simp [extractTex, hf]
  obtain ⟨ad, fd, hd, hout⟩ := hcase
  have hsc : rhsScale { env with L := conj Q env.L, spin := spin' } = rhsScale env := rfl
  subst hout
  rw [hx] at hd
  simp only at hd
  have hlens := derivatives_lengths _ _ _ _ _ _ _ _ _ (by rw [hfNlen, hA]) (ad, fd) hd
  have hd' := rates_objective Q hQ env.regime phase fabric hreg t.A (extractTex t).f
    (ndD env.L (rhsScale env)) (ndL env.L (rhsScale env)) env.spin spin' ⟨mp.p, mp.n, mp.lam, mp.M, phi⟩ (ad, fd) hd
  rw [← (nd_objective Q env.L (rhsScale env)).1, ← (nd_objective Q env.L (rhsScale env)).2] at hd'
  unfold ndD ndL rhsScale at hd'
  simp only [evalRhs, hphi, Req_iff, hx', hfN, Mat3.memo_eq, hd', F_objective Q _ _ hQ, hx]
  congr 1
  unfold actY
  rw [flat_smul, flat_smul]
  have hu := unpackY_packY n (mmul env.L F)
    ⟨ad.map (fun a => fun i j => a i j * rhsScale env), fd.map (· * rhsScale env)⟩
    (by simp [hlens.1, hA]) (by simp [hlens.2, hA])
  simp only [packY, rhsScale] at hu ⊢
  rw [hu]
  simp only [rotA_smul]

/-! ### rigid-body rotation (the case repaired in /repo: see DESIGN section 12) -/

/-- a grain without active slip follows the vorticity of the flow: `Ȧ = A · skew(L)ᵀ` -/
theorem noSlipRotation_matrix (A L : Mat3) : noSlipRotation A L = mmul A (tr (skew L)) := by
  have h := orientationChange_matrix A L zero3 0
  have hz : msub L (smul3 0 zero3) = L := by funext i j; simp [msub, smul3, zero3]
  rw [hz] at h
  simpa only [noSlipRotation, Mat3.memo_eq] using h

/-- for a rigid-body rotation (`Lᵀ = −L`) that is `Ȧ = A · Lᵀ`: the crystal axes co-rotate with the body -/
theorem noSlipRotation_rigid (A L : Mat3) (hL : ∀ i j, L i j + L j i = 0) : noSlipRotation A L = mmul A (tr L) := by
  rw [noSlipRotation_matrix]
  congr 2
  funext i j
  have := hL i j
  simp only [skew]; linarith

/-- **rigid rotation in a dislocation regime**: when the strain rate vanishes (`emax = 0`, symmetric part of `L` zero) the
right-hand side is the rigid motion: `Ḟ = L F`, every grain `Ȧ = damp · A Lᵀ`, no volume change — the same expression in
every frame (`rhs_objective`), which the unrepaired early return (zero rates) was not. -/
theorem rigid_rotation_rhs (phase fabric : Int) (n : ℕ) (mp : MParams) (env : RhsEnv) (y : List ℝ) (crss : Crss) (phi : ℝ)
    (hphi : lookupFraction mp.assemblage mp.fractions phase = .ok phi)
    (hreg : env.regime = 4) (hc : getCrss phase fabric = .ok crss)
    (he : env.emax = 0) (hL : ∀ i j, env.L i j + env.L j i = 0)
    (hlen : (extractVars n y).2.A.length = (extractVars n y).2.f.length) :
    evalRhs phase fabric n mp env y
      = .ok (mat3ToList (mmul env.L (extractVars n y).1)
              ++ ((extractVars n y).2.A.map (fun a => mmul a (tr env.L))).flatMap mat3ToList
              ++ (extractVars n y).2.f.map (fun _ => 0)) := by
  have hD1 : (fun i j => (env.L i j + env.L j i) / 2 / (1:ℝ)) = zero3 := by
    funext i j; simp [hL i j, zero3]
  have hL1 : (fun i j => env.L i j / (1:ℝ)) = env.L := by funext i j; simp
  have h07 : ¬ ((4:Int) = 0 ∨ (4:Int) = 7) := by omega
  simp only [evalRhs, hphi, he, Req_iff, if_true, Mat3.memo_eq, hD1, hL1, hreg, derivatives, hc]
  norm_num
  rw [dislocationRates_zeroD, zipWith_const_zero _ _ hlen]
  have hfun : (fun a => smul3 1 (noSlipRotation a env.L)) = fun a => mmul a (tr env.L) := by
    funext a
    rw [noSlipRotation_rigid a env.L hL]
    funext i j; simp [smul3]
  simp [hfun]

/-- the hypotheses are satisfiable by a genuine rotation rate: `L = e_y ⊗ e_x − e_x ⊗ e_y` is antisymmetric and non-zero -/
example : ∃ L : Mat3, (∀ i j, L i j + L j i = 0) ∧ L 1 0 ≠ 0 :=
  ⟨fun i j => if i = 1 ∧ j = 0 then 1 else if i = 0 ∧ j = 1 then -1 else 0, by
    intro i j; fin_cases i <;> fin_cases j <;> simp, by simp⟩

end ModelR
