import Proofs.Diag
/-! # C13 — eigenvalue-based texture and strain diagnostics are objective

Theorems about `ModelR.Diag.*` (the model of `stats._scatter_matrix`, `diagnostics.symmetry_pgr`,
`coaxial_index`, `bingham_average`, `finite_strain`, `utils.angle_fse_simpleshear`; tied to the code
by the correspondence check K21–K24).  LAPACK is a function parameter (`eigvalsh`, `eigh`); what is
assumed of it (`IsEigen`: orthonormal eigenvectors, ascending eigenvalues, of the symmetric matrix
read from the lower triangle) appears as an explicit hypothesis AT THE MATRICES ACTUALLY PASSED, and
is checked by the harness on every call of the real code.  All statements hold for every grain count,
every orientation list, every `Q`. -/
namespace ModelR.Diag
open List

/-! ## the scatter matrix -/

/-- the symmetric matrix LAPACK reads from `_scatter_matrix`'s lower triangle is `Σ_g r_g r_gᵀ`:
its quadratic form is a sum of squares, hence it is positive semi-definite -/
theorem scatter_psd (A : List Mat3) (row : Fin 3) (x : Vec3) :
    dot3 x (mulVec (symLower (scatterLower A row)) x) = (A.map fun a => (dot3 (a row) x) ^ 2).sum
    ∧ 0 ≤ dot3 x (mulVec (symLower (scatterLower A row)) x) := by
  rw [symLower_scatterLower, scatter_quadratic]
  exact ⟨rfl, sum_sq_nonneg (A.map fun a => dot3 (a row) x)|>.trans_eq (by simp [Function.comp_def])⟩

/-- **reordering grains** leaves the array built by `_scatter_matrix` unchanged -/
theorem scatter_perm (A B : List Mat3) (h : A.Perm B) (row : Fin 3) :
    scatterLower A row = scatterLower B row := scatterLower_perm h row

/-- **replacing grains by symmetry-equivalent orientations** (`b_g = diag(±1,±1,±1) a_g`, any choice
per grain; the orthorhombic two-folds are `diag(1,-1,-1)`, `diag(-1,1,-1)`, `diag(-1,-1,1)`)
leaves the array built by `_scatter_matrix` unchanged, for each of the three axes -/
theorem scatter_sign (A B : List Mat3) (h : List.Forall₂ SignRel A B) (row : Fin 3) :
    scatterLower B row = scatterLower A row := scatterLower_sign h row

/-- the three two-fold rotations about the crystal axes are sign relabellings -/
theorem twofold_is_signrel (a : Mat3) (k : Fin 3) :
    SignRel a (mmul (diag3 fun i => if i = k then 1 else -1) a) :=
  ⟨_, by intro i; split_ifs <;> norm_num, rfl⟩

/-- **rotating the reference frame** (`a_g ↦ a_g Qᵀ`, any matrix `Q`) conjugates the scatter matrix -/
theorem scatter_frame (A : List Mat3) (row : Fin 3) (Q : Mat3) :
    symLower (scatterLower (A.map fun a => mmul a (tr Q)) row)
      = conj Q (symLower (scatterLower A row)) := by
  rw [symLower_scatterLower, symLower_scatterLower, scatter_frame_full]

/-- for unit crystal axes the trace of the scatter matrix is the number of grains -/
theorem scatter_trace_eq_n (A : List Mat3) (row : Fin 3) (hunit : ∀ a ∈ A, dot3 (a row) (a row) = 1) :
    trace3 (symLower (scatterLower A row)) = A.length := by
  rw [symLower_scatterLower, scatter_trace A row hunit]

/-- the eigenvalues LAPACK returns for a scatter matrix are non-negative and sum to `n` -/
theorem scatter_eigvals (A : List Mat3) (row : Fin 3) (hunit : ∀ a ∈ A, dot3 (a row) (a row) = 1)
    (w : Vec3) (hw : IsEigvals (symLower (scatterLower A row)) w) :
    0 ≤ w 0 ∧ w 0 ≤ w 1 ∧ w 1 ≤ w 2 ∧ w 0 + w 1 + w 2 = A.length := by
  obtain ⟨V, h⟩ := hw
  refine ⟨h.nonneg_of_psd (fun x => (scatter_psd A row x).2) 0, h.asc.1, h.asc.2, ?_⟩
  rw [← h.trace_eq, scatter_trace_eq_n A row hunit]

/-- **the residual test the harness applies to `eigvalsh` is sound**: an ascending triple with the
same three invariants (trace, second invariant `(tr² − Σ S_ij²)/2`, determinant) as a symmetric matrix
that has an eigen-decomposition is its spectrum -/
theorem eigvals_determined_by_invariants (S : Mat3) (w : Vec3) (V : Mat3) (h : IsEigen S w V)
    (w' : Vec3) (hasc : w' 0 ≤ w' 1 ∧ w' 1 ≤ w' 2)
    (h1 : w' 0 + w' 1 + w' 2 = trace3 S)
    (h2 : w' 0 * w' 1 + w' 1 * w' 2 + w' 0 * w' 2 = (trace3 S ^ 2 - inner3 S S) / 2)
    (h3 : w' 0 * w' 1 * w' 2 = det3 S) : w' = w := by
  apply sorted_roots_unique w' w hasc h.asc
  intro x
  rw [← h.charpoly x]
  have hs := h.symm
  have s01 : S 1 0 = S 0 1 := congrFun (congrFun hs 0) 1
  have s02 : S 2 0 = S 0 2 := congrFun (congrFun hs 0) 2
  have s12 : S 2 1 = S 1 2 := congrFun (congrFun hs 1) 2
  have hdet : det3 (msub (smul3 x one3) S)
      = x ^ 3 - trace3 S * x ^ 2 + ((trace3 S ^ 2 - inner3 S S) / 2) * x - det3 S := by
    simp [det3, msub, smul3, one3, trace3, inner3, sum3, s01, s02, s12]
    ring
  rw [hdet]
  linear_combination (-(x ^ 2)) * h1 + x * h2 - h3

/-! ## P, G, R -/

/-- **P + G + R = 1** whenever the eigenvalue sum is not zero -/
theorem pgr_sum_one (w : Vec3) (hs : w 2 + w 1 + w 0 ≠ 0) :
    (pgrOfEigvals w).1 + (pgrOfEigvals w).2.1 + (pgrOfEigvals w).2.2 = 1 := by
  simp only [pgrOfEigvals]
  field_simp
  ring

/-- **each of P, G, R lies in [0, 1]** for non-negative ascending eigenvalues with positive sum -/
theorem pgr_range (w : Vec3) (h0 : 0 ≤ w 0) (h01 : w 0 ≤ w 1) (h12 : w 1 ≤ w 2)
    (hs : 0 < w 2 + w 1 + w 0) :
    (0 ≤ (pgrOfEigvals w).1 ∧ (pgrOfEigvals w).1 ≤ 1)
    ∧ (0 ≤ (pgrOfEigvals w).2.1 ∧ (pgrOfEigvals w).2.1 ≤ 1)
    ∧ (0 ≤ (pgrOfEigvals w).2.2 ∧ (pgrOfEigvals w).2.2 ≤ 1) := by
  simp only [pgrOfEigvals]
  refine ⟨⟨?_, ?_⟩, ⟨?_, ?_⟩, ⟨?_, ?_⟩⟩
  · apply div_nonneg <;> linarith
  · rw [div_le_one hs]; linarith
  · apply div_nonneg <;> linarith
  · rw [div_le_one hs]; linarith
  · apply div_nonneg <;> linarith
  · rw [div_le_one hs]; linarith

/-- **`symmetry_pgr` on a non-empty set of orientations with unit crystal axes**: for each valid axis
the call succeeds and returns numbers in [0,1] summing to 1 (LAPACK spec assumed at the matrix passed) -/
theorem symmetry_pgr_valid (eigvalsh : Mat3 → Vec3) (A : List Mat3) (axis : String) (row : Fin 3)
    (hax : axisRow axis = .ok row) (hne : A ≠ [])
    (hunit : ∀ a ∈ A, dot3 (a row) (a row) = 1)
    (hspec : IsEigvals (symLower (scatterLower A row)) (eigvalsh (scatterLower A row))) :
    ∃ P G R, symmetryPgr eigvalsh A axis = .ok (P, G, R)
      ∧ (0 ≤ P ∧ P ≤ 1) ∧ (0 ≤ G ∧ G ≤ 1) ∧ (0 ≤ R ∧ R ≤ 1) ∧ P + G + R = 1 := by
  obtain ⟨h0, h01, h12, hsum⟩ := scatter_eigvals A row hunit _ hspec
  set w := eigvalsh (scatterLower A row) with hw
  have hlen : (0 : ℝ) < A.length := by
    have : 0 < A.length := List.length_pos_iff.mpr hne
    exact_mod_cast this
  have hs : 0 < w 2 + w 1 + w 0 := by linarith
  refine ⟨(pgrOfEigvals w).1, (pgrOfEigvals w).2.1, (pgrOfEigvals w).2.2, ?_, ?_⟩
  · simp [symmetryPgr, hax, ← hw]
  · obtain ⟨hP, hG, hR⟩ := pgr_range w h0 h01 h12 hs
    exact ⟨hP, hG, hR, pgr_sum_one w hs.ne'⟩

/-- an axis other than `"a"`, `"b"`, `"c"` raises `ValueError` (and only such an axis does) -/
theorem symmetry_pgr_error_iff (eigvalsh : Mat3 → Vec3) (A : List Mat3) (axis : String) :
    symmetryPgr eigvalsh A axis = .error .valueError ↔ (axis ≠ "a" ∧ axis ≠ "b" ∧ axis ≠ "c") := by
  simp only [symmetryPgr, axisRow]
  split_ifs with h1 h2 h3 <;> simp_all

/-- **P, G, R, the coaxial index and the Bingham mean are unchanged by reordering grains**
(exactly: the external solver receives the identical array) -/
theorem diagnostics_perm_invariant (eigvalsh : Mat3 → Vec3) (eigh : Mat3 → Vec3 × Mat3)
    (A B : List Mat3) (h : A.Perm B) (axis axis2 : String) :
    symmetryPgr eigvalsh A axis = symmetryPgr eigvalsh B axis
    ∧ coaxialIndex eigvalsh A axis axis2 = coaxialIndex eigvalsh B axis axis2
    ∧ binghamAverage eigh A axis = binghamAverage eigh B axis := by
  have key : ∀ row, scatterLower A row = scatterLower B row := fun row => scatter_perm A B h row
  simp only [coaxialIndex, symmetryPgr, binghamAverage, key, and_self]

/-- **... and by replacing grains with symmetry-equivalent orientations** -/
theorem diagnostics_sign_invariant (eigvalsh : Mat3 → Vec3) (eigh : Mat3 → Vec3 × Mat3)
    (A B : List Mat3) (h : List.Forall₂ SignRel A B) (axis axis2 : String) :
    symmetryPgr eigvalsh B axis = symmetryPgr eigvalsh A axis
    ∧ coaxialIndex eigvalsh B axis axis2 = coaxialIndex eigvalsh A axis axis2
    ∧ binghamAverage eigh B axis = binghamAverage eigh A axis := by
  have key : ∀ row, scatterLower B row = scatterLower A row := fun row => scatter_sign A B h row
  simp only [coaxialIndex, symmetryPgr, binghamAverage, key, and_self]

/-- **objectivity of the spectrum**: the ascending eigenvalues LAPACK returns in the rotated frame
equal those of the original frame -/
theorem eigvals_objective (A : List Mat3) (row : Fin 3) (Q : Mat3) (hQ : Orth Q) (w w' : Vec3)
    (hw : IsEigvals (symLower (scatterLower A row)) w)
    (hw' : IsEigvals (symLower (scatterLower (A.map fun a => mmul a (tr Q)) row)) w') : w' = w := by
  obtain ⟨V, h⟩ := hw
  obtain ⟨V', h'⟩ := hw'
  rw [scatter_frame] at h'
  exact h.vals_conj hQ h'

/-- **P, G, R are unchanged by a rotation of the reference frame** -/
theorem pgr_objective (eigvalsh : Mat3 → Vec3) (A : List Mat3) (axis : String) (Q : Mat3) (hQ : Orth Q)
    (hspec : ∀ row, IsEigvals (symLower (scatterLower A row)) (eigvalsh (scatterLower A row)))
    (hspec' : ∀ row, IsEigvals (symLower (scatterLower (A.map fun a => mmul a (tr Q)) row))
      (eigvalsh (scatterLower (A.map fun a => mmul a (tr Q)) row))) :
    symmetryPgr eigvalsh (A.map fun a => mmul a (tr Q)) axis = symmetryPgr eigvalsh A axis := by
  simp only [symmetryPgr]
  cases axisRow axis with
  | error e => rfl
  | ok row => simp only [eigvals_objective A row Q hQ _ _ (hspec row) (hspec' row)]

/-- **the coaxial index is unchanged by a rotation of the reference frame** -/
theorem coaxial_objective (eigvalsh : Mat3 → Vec3) (A : List Mat3) (axis1 axis2 : String) (Q : Mat3)
    (hQ : Orth Q)
    (hspec : ∀ row, IsEigvals (symLower (scatterLower A row)) (eigvalsh (scatterLower A row)))
    (hspec' : ∀ row, IsEigvals (symLower (scatterLower (A.map fun a => mmul a (tr Q)) row))
      (eigvalsh (scatterLower (A.map fun a => mmul a (tr Q)) row))) :
    coaxialIndex eigvalsh (A.map fun a => mmul a (tr Q)) axis1 axis2 = coaxialIndex eigvalsh A axis1 axis2 := by
  simp only [coaxialIndex, pgr_objective eigvalsh A _ Q hQ hspec hspec']

/-- **the coaxial index lies in [0, 1]** when neither axis distribution is exactly isotropic
(`P + G > 0`, the property's exclusion; for `P + G = 0` the real code divides 0 by 0) -/
theorem coaxial_range (p1 p2 : ℝ × ℝ × ℝ) (hP1 : 0 ≤ p1.1) (hG1 : 0 ≤ p1.2.1) (hP2 : 0 ≤ p2.1)
    (hG2 : 0 ≤ p2.2.1) (h1 : 0 < p1.2.1 + p1.1) (h2 : 0 < p2.2.1 + p2.1) :
    0 ≤ coaxialOfPgr p1 p2 ∧ coaxialOfPgr p1 p2 ≤ 1 := by
  simp only [coaxialOfPgr]
  have a0 : 0 ≤ p1.1 / (p1.2.1 + p1.1) := div_nonneg hP1 h1.le
  have a1 : p1.1 / (p1.2.1 + p1.1) ≤ 1 := by rw [div_le_one h1]; linarith
  have b0 : 0 ≤ p2.2.1 / (p2.2.1 + p2.1) := div_nonneg hG2 h2.le
  have b1 : p2.2.1 / (p2.2.1 + p2.1) ≤ 1 := by rw [div_le_one h2]; linarith
  constructor <;> norm_num <;> linarith

/-- `coaxial_index` end to end: unit axes, non-empty, both scatter matrices not isotropic
(largest eigenvalue strictly above the smallest) ⇒ the result is in [0, 1] -/
theorem coaxial_index_valid (eigvalsh : Mat3 → Vec3) (A : List Mat3) (axis1 axis2 : String)
    (r1 r2 : Fin 3) (hax1 : axisRow axis1 = .ok r1) (hax2 : axisRow axis2 = .ok r2) (hne : A ≠ [])
    (hunit : ∀ a ∈ A, ∀ row, dot3 (a row) (a row) = 1)
    (hspec : ∀ row, IsEigvals (symLower (scatterLower A row)) (eigvalsh (scatterLower A row)))
    (hiso1 : (eigvalsh (scatterLower A r1)) 0 < (eigvalsh (scatterLower A r1)) 2)
    (hiso2 : (eigvalsh (scatterLower A r2)) 0 < (eigvalsh (scatterLower A r2)) 2) :
    ∃ ba, coaxialIndex eigvalsh A axis1 axis2 = .ok ba ∧ 0 ≤ ba ∧ ba ≤ 1 := by
  have hlen : (0 : ℝ) < A.length := by
    have : 0 < A.length := List.length_pos_iff.mpr hne
    exact_mod_cast this
  obtain ⟨a0, a01, a12, asum⟩ := scatter_eigvals A r1 (fun a ha => hunit a ha r1) _ (hspec r1)
  obtain ⟨b0, b01, b12, bsum⟩ := scatter_eigvals A r2 (fun a ha => hunit a ha r2) _ (hspec r2)
  set w1 := eigvalsh (scatterLower A r1)
  set w2 := eigvalsh (scatterLower A r2)
  have hs1 : 0 < w1 2 + w1 1 + w1 0 := by linarith
  have hs2 : 0 < w2 2 + w2 1 + w2 0 := by linarith
  obtain ⟨⟨hP1, _⟩, ⟨hG1, _⟩, _⟩ := pgr_range w1 a0 a01 a12 hs1
  obtain ⟨⟨hP2, _⟩, ⟨hG2, _⟩, _⟩ := pgr_range w2 b0 b01 b12 hs2
  have hpos1 : 0 < (pgrOfEigvals w1).2.1 + (pgrOfEigvals w1).1 := by
    simp only [pgrOfEigvals]
    rw [← add_div]; apply div_pos _ hs1; linarith
  have hpos2 : 0 < (pgrOfEigvals w2).2.1 + (pgrOfEigvals w2).1 := by
    simp only [pgrOfEigvals]
    rw [← add_div]; apply div_pos _ hs2; linarith
  refine ⟨coaxialOfPgr (pgrOfEigvals w1) (pgrOfEigvals w2), ?_, ?_⟩
  · simp [coaxialIndex, symmetryPgr, hax1, hax2, w1, w2]
  · exact coaxial_range _ _ hP1 hG1 hP2 hG2 hpos1 hpos2

/-! ## Bingham mean axis -/

/-- **the Bingham mean is a unit vector, an eigenvector of the scatter matrix for its largest
eigenvalue, and maximises the Rayleigh quotient** (it is the principal axis) -/
theorem bingham_is_principal (S : Mat3) (w : Vec3) (V : Mat3) (h : IsEigen S w V) :
    let u := binghamOfEigvecs V
    dot3 u u = 1 ∧ mulVec S u = (fun i => w 2 * u i) ∧ w 0 ≤ w 2 ∧ w 1 ≤ w 2
    ∧ ∀ x, dot3 x x = 1 → dot3 x (mulVec S x) ≤ dot3 u (mulVec S u) := by
  intro u
  have hu : u = col V 2 := bingham_eq_col h
  refine ⟨by rw [hu]; exact h.col_unit 2, by rw [hu]; exact h.eig 2, h.asc.1.trans h.asc.2, h.asc.2, ?_⟩
  intro x hx
  rw [hu, ← h.val_eq 2]
  exact h.rayleigh_le x hx

/-- `bingham_average` end to end for a valid axis -/
theorem bingham_average_principal (eigh : Mat3 → Vec3 × Mat3) (A : List Mat3) (axis : String) (row : Fin 3)
    (hax : axisRow axis = .ok row)
    (hspec : IsEigen (symLower (scatterLower A row)) (eigh (scatterLower A row)).1 (eigh (scatterLower A row)).2) :
    ∃ u, binghamAverage eigh A axis = .ok u ∧ dot3 u u = 1
      ∧ mulVec (symLower (scatterLower A row)) u = (fun i => (eigh (scatterLower A row)).1 2 * u i)
      ∧ ∀ x, dot3 x x = 1 →
          dot3 x (mulVec (symLower (scatterLower A row)) x) ≤ dot3 u (mulVec (symLower (scatterLower A row)) u) := by
  obtain ⟨h1, h2, _, _, h3⟩ := bingham_is_principal _ _ _ hspec
  exact ⟨_, by simp [binghamAverage, hax], h1, h2, h3⟩

/-- **under a rotation of the frame the Bingham mean co-rotates up to sign**, provided the largest
eigenvalue is simple (otherwise the principal axis is not unique and LAPACK's choice is arbitrary) -/
theorem bingham_corotates_up_to_sign (A : List Mat3) (row : Fin 3) (Q : Mat3) (hQ : Orth Q)
    (w w' : Vec3) (V V' : Mat3)
    (h : IsEigen (symLower (scatterLower A row)) w V)
    (h' : IsEigen (symLower (scatterLower (A.map fun a => mmul a (tr Q)) row)) w' V')
    (hgap : w 1 < w 2) :
    binghamOfEigvecs V' = mulVec Q (binghamOfEigvecs V)
    ∨ binghamOfEigvecs V' = fun i => - mulVec Q (binghamOfEigvecs V) i := by
  rw [bingham_eq_col h, bingham_eq_col h']
  rw [scatter_frame] at h'
  have hw : w' = w := h.vals_conj hQ h'
  subst hw
  have hc := h.conj hQ
  rcases hc.top_vec_unique hgap (col V' 2) (h'.eig 2) (h'.col_unit 2) with h1 | h1
  · left; rw [h1]; rfl
  · right; rw [h1]; rfl

/-! ## finite strain -/

/-- **a prior rigid rotation does not change the left Cauchy–Green tensor**: `(F Q)(F Q)ᵀ = F Fᵀ` -/
theorem B_right_invariant (F Q : Mat3) (hQ : Orth Q) : leftCG (mmul F Q) = leftCG F := by
  simp only [leftCG, mat3_memo]
  rw [tr_mmul, mmul_assoc, ← mmul_assoc Q, hQ.right, one_mmul]

/-- hence `finite_strain(F Q) = finite_strain(F)` exactly (same array handed to LAPACK) -/
theorem finite_strain_right_invariant (eigh : Mat3 → Vec3 × Mat3) (F Q : Mat3) (hQ : Orth Q) :
    finiteStrain eigh (mmul F Q) = finiteStrain eigh F := by
  simp only [finiteStrain, B_right_invariant F Q hQ]

/-- **a subsequent rotation conjugates it**: `(Q F)(Q F)ᵀ = Q (F Fᵀ) Qᵀ` -/
theorem B_left_covariant (F Q : Mat3) : leftCG (mmul Q F) = conj Q (leftCG F) := by
  simp only [leftCG, mat3_memo, conj]
  rw [tr_mmul]; simp only [mmul_assoc]

/-- **the scalar returned is the largest principal stretch minus one**: `(s + 1)² = w₂` is the maximum
of `|Fᵀ x|²` over unit vectors, attained at the returned axis, which is a unit eigenvector of `F Fᵀ` -/
theorem stretch_is_largest_principal_stretch (eigh : Mat3 → Vec3 × Mat3) (F : Mat3)
    (h : IsEigen (symLower (leftCG F)) (eigh (leftCG F)).1 (eigh (leftCG F)).2) :
    let s := (finiteStrain eigh F).1
    let v := (finiteStrain eigh F).2
    s = Real.sqrt ((eigh (leftCG F)).1 2) - 1 ∧ 0 ≤ (eigh (leftCG F)).1 2
    ∧ dot3 v v = 1 ∧ mulVec (leftCG F) v = (fun i => (eigh (leftCG F)).1 2 * v i)
    ∧ dot3 (mulVec (tr F) v) (mulVec (tr F) v) = (eigh (leftCG F)).1 2
    ∧ ∀ x, dot3 x x = 1 → dot3 (mulVec (tr F) x) (mulVec (tr F) x) ≤ (eigh (leftCG F)).1 2 := by
  intro s v
  rw [leftCG_symm] at h
  have hv : v = col (eigh (leftCG F)).2 2 := rfl
  have hval := h.val_eq 2
  rw [leftCG_quadratic] at hval
  refine ⟨rfl, ?_, by rw [hv]; exact h.col_unit 2, by rw [hv]; exact h.eig 2, by rw [hv]; exact hval.symm, ?_⟩
  · rw [hval]; simp only [dot3, sum3]
    exact add_nonneg (add_nonneg (mul_self_nonneg _) (mul_self_nonneg _)) (mul_self_nonneg _)
  · intro x hx
    rw [← leftCG_quadratic]
    exact h.rayleigh_le x hx

/-- **under a subsequent rotation `F ↦ Q F` the stretch is unchanged and the axis co-rotates up to
sign** (when the largest eigenvalue of `F Fᵀ` is simple) -/
theorem finite_strain_left_covariant (eigh : Mat3 → Vec3 × Mat3) (F Q : Mat3) (hQ : Orth Q)
    (h : IsEigen (symLower (leftCG F)) (eigh (leftCG F)).1 (eigh (leftCG F)).2)
    (h' : IsEigen (symLower (leftCG (mmul Q F))) (eigh (leftCG (mmul Q F))).1 (eigh (leftCG (mmul Q F))).2) :
    (finiteStrain eigh (mmul Q F)).1 = (finiteStrain eigh F).1
    ∧ ((eigh (leftCG F)).1 1 < (eigh (leftCG F)).1 2 →
        (finiteStrain eigh (mmul Q F)).2 = mulVec Q (finiteStrain eigh F).2
        ∨ (finiteStrain eigh (mmul Q F)).2 = fun i => - mulVec Q (finiteStrain eigh F).2 i) := by
  rw [leftCG_symm] at h h'
  have h'' : IsEigen (conj Q (leftCG F)) (eigh (leftCG (mmul Q F))).1 (eigh (leftCG (mmul Q F))).2 :=
    ⟨h'.orth, fun k => by rw [← B_left_covariant]; exact h'.eig k, h'.asc⟩
  have hw := h.vals_conj hQ h''
  constructor
  · simp only [finiteStrain, finiteStrainOfEig, hw]
  · intro hgap
    have hc := h.conj hQ
    have h2 := h''.eig 2
    rw [hw] at h2
    rcases hc.top_vec_unique hgap (col (eigh (leftCG (mmul Q F))).2 2) h2 (h''.col_unit 2) with h1 | h1
    · left; exact h1
    · right; exact h1

/-! ## simple shear -/

/-- **the closed-form helper agrees with `finite_strain` in simple shear**.  For
`F = I + γ e_y ⊗ e_x` with `γ > 0` (the deformation produced by `velocity.simple_shear_2d("Y","X",ε̇)`,
whose gradient is `2 ε̇`, after strain `ε = ε̇ t = γ/2`), with `t = ε + √(ε² + 1)`:
the largest eigenvalue of `F Fᵀ` is `t²` (so the returned stretch is `t − 1`), and the returned axis
lies in the `x–y` plane with `v_y / v_x = t`; i.e. its angle from the `x` axis is `arctan t`, and
`angle_fse_simpleshear(ε)` is that angle in degrees. -/
theorem fse_axis_simple_shear (eigh : Mat3 → Vec3 × Mat3) (γ : ℝ) (hγ : 0 < γ)
    (h : IsEigen (symLower (leftCG (shearF γ))) (eigh (leftCG (shearF γ))).1 (eigh (leftCG (shearF γ))).2) :
    let t := γ / 2 + Real.sqrt ((γ / 2) ^ 2 + 1)
    let v := (finiteStrain eigh (shearF γ)).2
    (finiteStrain eigh (shearF γ)).1 = t - 1
    ∧ v 2 = 0 ∧ v 0 ≠ 0 ∧ v 1 / v 0 = t
    ∧ angleFseSimpleShear (γ / 2) = rad2deg (Real.arctan (v 1 / v 0)) := by
  intro t v
  rw [leftCG_symm] at h
  set w := (eigh (leftCG (shearF γ))).1 with hw
  set V := (eigh (leftCG (shearF γ))).2 with hV
  have hv : v = col V 2 := rfl
  set r := Real.sqrt ((γ / 2) ^ 2 + 1) with hr
  have hr2 : r ^ 2 = (γ / 2) ^ 2 + 1 := Real.sq_sqrt (by positivity)
  have hr0 : 0 ≤ r := Real.sqrt_nonneg _
  have ht0 : 0 < t := by positivity
  have ht : t ^ 2 = 1 + γ * t := by
    simp only [t]; linear_combination hr2
  -- key identity: t (t² |x|² − xᵀBx) = t (t² − 1) x₂² + γ (t x₀ − x₁)²
  have key : ∀ x : Vec3, t * (t ^ 2 * dot3 x x - dot3 x (mulVec (leftCG (shearF γ)) x))
      = t * (t ^ 2 - 1) * x 2 ^ 2 + γ * (t * x 0 - x 1) ^ 2 := by
    intro x
    rw [shear_quadratic]
    simp only [dot3, sum3]
    linear_combination (t * x 0 ^ 2 + (t + γ) * x 1 ^ 2) * ht
  have hpos : 0 < t * (t ^ 2 - 1) := by
    have : t ^ 2 - 1 = γ * t := by linarith
    rw [this]; positivity
  -- w₂ ≤ t²
  have hle : w 2 ≤ t ^ 2 := by
    have h1 := key (col V 2)
    rw [← h.val_eq 2, h.col_unit 2] at h1
    have h2 : 0 ≤ t * (t ^ 2 * 1 - w 2) := by
      rw [h1]; have := hpos.le; positivity
    have := (mul_nonneg_iff_of_pos_left ht0).mp h2
    linarith
  -- t² ≤ w₂ : the vector (1, t, 0) has Rayleigh quotient t²
  have hge : t ^ 2 ≤ w 2 := by
    let u : Vec3 := fun i => if i = 0 then 1 else if i = 1 then t else 0
    have hu := key u
    have hu0 : u 0 = 1 := rfl
    have hu1 : u 1 = t := rfl
    have hu2 : u 2 = 0 := rfl
    have huu : dot3 u u = 1 + t ^ 2 := by simp only [dot3, sum3, hu0, hu1, hu2]; ring
    rw [hu0, hu1, hu2, huu] at hu
    have hq : dot3 u (mulVec (leftCG (shearF γ)) u) = t ^ 2 * (1 + t ^ 2) := by
      have : t * (t ^ 2 * (1 + t ^ 2) - dot3 u (mulVec (leftCG (shearF γ)) u)) = 0 := by
        rw [hu]; ring
      rcases mul_eq_zero.mp this with h0 | h0
      · linarith
      · linarith
    have hR := h.rayleigh_le' u
    rw [hq, huu] at hR
    have h1 : (0 : ℝ) < 1 + t ^ 2 := by positivity
    exact le_of_mul_le_mul_right hR h1
  have hw2 : w 2 = t ^ 2 := le_antisymm hle hge
  -- the eigenvector
  have h1 := key (col V 2)
  rw [← h.val_eq 2, h.col_unit 2, hw2] at h1
  have hz : t * (t ^ 2 - 1) * V 2 2 ^ 2 + γ * (t * V 0 2 - V 1 2) ^ 2 = 0 := by
    have : t * (t ^ 2 * 1 - t ^ 2) = 0 := by ring
    rw [this] at h1; exact h1.symm
  have hA : 0 ≤ t * (t ^ 2 - 1) * V 2 2 ^ 2 := by have := hpos.le; positivity
  have hB : 0 ≤ γ * (t * V 0 2 - V 1 2) ^ 2 := by positivity
  have hA0 : t * (t ^ 2 - 1) * V 2 2 ^ 2 = 0 := by linarith
  have hB0 : γ * (t * V 0 2 - V 1 2) ^ 2 = 0 := by linarith
  have hz2 : V 2 2 = 0 := by
    rcases mul_eq_zero.mp hA0 with h0 | h0
    · exact absurd h0 hpos.ne'
    · exact pow_eq_zero_iff (two_ne_zero) |>.mp h0
  have hz1 : V 1 2 = t * V 0 2 := by
    rcases mul_eq_zero.mp hB0 with h0 | h0
    · exact absurd h0 hγ.ne'
    · have := pow_eq_zero_iff (two_ne_zero) |>.mp h0; linarith
  have hunit := h.col_unit 2
  simp only [dot3, sum3, col] at hunit
  have hv0 : V 0 2 ≠ 0 := by
    intro h0
    rw [hz2, hz1, h0] at hunit
    norm_num at hunit
  have hratio : V 1 2 / V 0 2 = t := by
    rw [hz1]; field_simp
  refine ⟨?_, hz2, hv0, hratio, ?_⟩
  · show Rsqrt (w 2) - 1 = t - 1
    rw [hw2]; simp only [Rsqrt]; rw [Real.sqrt_sq ht0.le]
  · show angleFseSimpleShear (γ / 2) = rad2deg (Real.arctan (V 1 2 / V 0 2))
    rw [hratio]
    have : Real.sqrt (γ / 2 * (γ / 2) + 1) + γ / 2 = t := by
      simp only [t]; rw [← sq]; ring
    simp only [angleFseSimpleShear, Ratan, Rsqrt, this]

end ModelR.Diag
