import Proofs.MatrixODE
/-! # C06, analytic clauses — the exact solution of dF/dt = L·F for constant L

"The deformation gradient returned by a texture update equals the solution of dF/dt = L.F started
from the supplied F …; hence det F = exp of the time integral of tr L, and the result for a split
interval equals the result for the whole."

`Properties/C06.lean` shows that what the code integrates for the F block is exactly `L·F`. Here the
mathematical facts about that ODE are proved for a CONSTANT velocity gradient `L` (and, in the last
section, for a piecewise constant one), on the project's own `Mat3`, `mmul`, `trace3`, `det3`:

* the solution exists, is explicit (`Fsol`, the matrix exponential) and is unique;
* splitting the interval gives the same result as the whole interval;
* Liouville: `det F(t) = exp ((t - t0) tr L) det F(t0) = exp (∫ tr L) det F(t0)`.

`expm s L` is Mathlib's `NormedSpace.exp (s • L)` on `Matrix (Fin 3) (Fin 3) ℝ`, read back as a
`Mat3` (`Proofs/MatrixODE.lean`; `mmul` is Mathlib's matrix product there: `mmul_eq_mul`).
Derivatives are stated entry by entry (real functions) and, for `Fsol`, also as a `Mat3`-valued
derivative in the product topology; no matrix norm occurs in any statement.

Not covered here (validated numerically by the harness, see `PARTIAL` in `harness/props/c06.py`):
`L` depending continuously on time/position (only the determinant clause is proved for such `L`:
`det_solution_timedep`), and the accuracy of LSODA. -/
namespace ModelR

/-- the candidate solution `F(t) = exp ((t - t0) L) · F0` -/
noncomputable def Fsol (L F0 : Mat3) (t0 t : ℝ) : Mat3 := mmul (expm (t - t0) L) F0

/-- `F` solves `dF/dt = L·F` on the whole line, entry by entry -/
def SolvesLF (L : Mat3) (F : ℝ → Mat3) : Prop :=
  ∀ t i j, HasDerivAt (fun t => F t i j) (mmul L (F t) i j) t

/-- the derivative of `det3` at `F` in the direction `D`: Σ (cofactor of `F` at `i j`) · `D i j` -/
def ddet3 (F D : Mat3) : ℝ :=
    D 0 0 * (F 1 1 * F 2 2 - F 1 2 * F 2 1)
  - D 0 1 * (F 1 0 * F 2 2 - F 1 2 * F 2 0)
  + D 0 2 * (F 1 0 * F 2 1 - F 1 1 * F 2 0)
  - D 1 0 * (F 0 1 * F 2 2 - F 0 2 * F 2 1)
  + D 1 1 * (F 0 0 * F 2 2 - F 0 2 * F 2 0)
  - D 1 2 * (F 0 0 * F 2 1 - F 0 1 * F 2 0)
  + D 2 0 * (F 0 1 * F 1 2 - F 0 2 * F 1 1)
  - D 2 1 * (F 0 0 * F 1 2 - F 0 2 * F 1 0)
  + D 2 2 * (F 0 0 * F 1 1 - F 0 1 * F 1 0)

/-! ## 1. existence: the exponential solves the ODE -/

/-- **`Fsol` starts at the supplied `F0` and solves `dF/dt = L·F`** (as a `Mat3`-valued function,
product topology), for every `L`, `F0`, `t0`, `t` -/
theorem F_const_solves (L F0 : Mat3) (t0 t : ℝ) :
    Fsol L F0 t0 t0 = F0 ∧
    HasDerivAt (fun t => Fsol L F0 t0 t) (mmul L (Fsol L F0 t0 t)) t := by
  refine ⟨?_, expm_mmul_hasDerivAt L F0 t0 t⟩
  simp [Fsol]

/-- the same entry by entry: `Fsol` is a solution in the sense of `SolvesLF` -/
theorem Fsol_solves (L F0 : Mat3) (t0 : ℝ) : SolvesLF L (fun t => Fsol L F0 t0 t) :=
  fun t i j => expm_mmul_hasDerivAt_entry L F0 t0 t i j

/-- **uniqueness**: every solution of `dF/dt = L·F` is `Fsol` started from its own value at `t0`;
so "the solution started from the supplied F" is well defined and equals `Fsol` -/
theorem solution_unique (L : Mat3) (F : ℝ → Mat3) (hF : SolvesLF L F) (t0 t : ℝ) :
    F t = Fsol L (F t0) t0 t := by
  -- G s = exp ((t0 - s) L) · F s is constant
  have hG : ∀ s i j, HasDerivAt (fun s => mmul (expm (t0 - s) L) (F s) i j) 0 s := by
    intro s i j
    have H := mmul_hasDerivAt_entry (fun s => expm (t0 - s) L) F
      (mneg (mmul (expm (t0 - s) L) L)) (mmul L (F s)) s
      (fun i j => expm_back_hasDerivAt_entry L t0 s i j) (fun i j => hF s i j) i j
    refine HasDerivAt.congr_deriv H ?_
    simp only [madd, mneg, mmul, sum3]; ring
  have hconst : mmul (expm (t0 - t) L) (F t) = F t0 := by
    funext i j
    have := is_const_of_deriv_eq_zero (fun s => (hG s i j).differentiableAt)
      (fun s => (hG s i j).deriv) t t0
    simpa using this
  have hinv : mmul (expm (t - t0) L) (expm (t0 - t) L) = one3 := by
    rw [← expm_add]; simp
  rw [Fsol, ← hconst, ← mmul_assoc, hinv, one_mmul]

/-! ## 2. a split interval gives the result of the whole interval -/

/-- **semigroup**: integrating `t0 → t1` and then `t1 → t2` from the intermediate result equals
integrating `t0 → t2`, for all `t0 t1 t2` (no order assumed) -/
theorem split_eq_whole (L F0 : Mat3) (t0 t1 t2 : ℝ) :
    Fsol L (Fsol L F0 t0 t1) t1 t2 = Fsol L F0 t0 t2 := by
  simp only [Fsol]
  rw [← mmul_assoc, ← expm_add]
  congr 2; ring

/-- the same for ANY solution: restarting from its value at `t1` reproduces it at `t2` -/
theorem split_eq_whole_of_solves (L : Mat3) (F : ℝ → Mat3) (hF : SolvesLF L F) (t0 t1 t2 : ℝ) :
    Fsol L (Fsol L (F t0) t0 t1) t1 t2 = F t2 := by
  rw [split_eq_whole, ← solution_unique L F hF]

/-- **a reversed interval undoes the forward one**: integrating `t0 → t1` and then back `t1 → t0` (time_end < time_start is
an ordinary call of the update) returns the supplied deformation gradient -/
theorem backward_undoes_forward (L F0 : Mat3) (t0 t1 : ℝ) :
    Fsol L (Fsol L F0 t0 t1) t1 t0 = F0 := by
  rw [split_eq_whole]
  simp [Fsol]

/-- **the time origin is immaterial for a steady flow**: shifting both ends of the interval by the same amount (model times
of 1e6 or 1e15 instead of 0) does not change the result -/
theorem time_shift_invariant (L F0 : Mat3) (t0 t s : ℝ) :
    Fsol L F0 (t0 + s) (t + s) = Fsol L F0 t0 t := by
  simp only [Fsol]
  congr 2; ring

/-! ## 3. Liouville: the determinant -/

/-- **algebraic core**: the derivative of `det3` at `F` in the direction `L·F` is `tr L · det F` -/
theorem ddet3_mmul (L F : Mat3) : ddet3 F (mmul L F) = trace3 L * det3 F := by
  simp only [ddet3, det3, trace3, mmul, sum3]; ring

/-- **`ddet3` is the derivative of `det3`** along any entrywise differentiable curve -/
theorem det3_hasDerivAt (F : ℝ → Mat3) (dF : Mat3) (t : ℝ)
    (h : ∀ i j, HasDerivAt (fun t => F t i j) (dF i j) t) :
    HasDerivAt (fun t => det3 (F t)) (ddet3 (F t) dF) t := by
  have H := (((h 0 0).fun_mul (((h 1 1).fun_mul (h 2 2)).fun_sub ((h 1 2).fun_mul (h 2 1)))).fun_sub
      ((h 0 1).fun_mul (((h 1 0).fun_mul (h 2 2)).fun_sub ((h 1 2).fun_mul (h 2 0))))).fun_add
      ((h 0 2).fun_mul (((h 1 0).fun_mul (h 2 1)).fun_sub ((h 1 1).fun_mul (h 2 0))))
  refine HasDerivAt.congr_deriv H ?_
  simp only [ddet3]; ring

/-- **Liouville for constant `L`**: along every solution of `dF/dt = L·F`,
`det F(t) = exp ((t - t0) tr L) · det F(t0)` for all `t0 t` -/
theorem det_solution (L : Mat3) (F : ℝ → Mat3) (hF : SolvesLF L F) (t0 t : ℝ) :
    det3 (F t) = Real.exp ((t - t0) * trace3 L) * det3 (F t0) := by
  refine scalar_linear_ode (fun t => det3 (F t)) (trace3 L) (fun s => ?_) t0 t
  have := det3_hasDerivAt F (mmul L (F s)) s (hF s)
  rwa [ddet3_mmul] at this

/-- the same with the exponent written as the time integral of `tr L` -/
theorem det_solution_integral (L : Mat3) (F : ℝ → Mat3) (hF : SolvesLF L F) (t0 t : ℝ) :
    det3 (F t) = Real.exp (∫ _s in t0..t, trace3 L) * det3 (F t0) := by
  rw [det_solution L F hF t0 t, intervalIntegral.integral_const, smul_eq_mul]

/-- **Liouville for a time-dependent `L`** (any `L : ℝ → Mat3` whose trace is continuous in time —
this includes `L(t, x(t))` along a pathline): along every entrywise solution of `dF/dt = L(t)·F`,
`det F(t) = exp (∫_{t0}^{t} tr L) · det F(t0)` -/
theorem det_solution_timedep (L : ℝ → Mat3) (hL : Continuous fun t => trace3 (L t))
    (F : ℝ → Mat3) (hF : ∀ t i j, HasDerivAt (fun t => F t i j) (mmul (L t) (F t) i j) t)
    (t0 t : ℝ) :
    det3 (F t) = Real.exp (∫ s in t0..t, trace3 (L s)) * det3 (F t0) := by
  refine scalar_linear_ode_timedep (fun t => det3 (F t)) (fun t => trace3 (L t)) hL
    (fun s => ?_) t0 t
  have := det3_hasDerivAt F (mmul (L s) (F s)) s (hF s)
  rwa [ddet3_mmul] at this

/-- **the determinant of the explicit solution** -/
theorem det_Fsol (L F0 : Mat3) (t0 t : ℝ) :
    det3 (Fsol L F0 t0 t) = Real.exp ((t - t0) * trace3 L) * det3 F0 := by
  have := det_solution L (fun t => Fsol L F0 t0 t) (Fsol_solves L F0 t0) t0 t
  simpa [(F_const_solves L F0 t0 t0).1] using this

/-- `det exp (s L) = exp (s tr L)` (Jacobi's formula, for the project's 3×3 `det3`) -/
theorem det3_expm (s : ℝ) (L : Mat3) : det3 (expm s L) = Real.exp (s * trace3 L) := by
  have := det_Fsol L one3 0 s
  simpa [Fsol] using this

/-- an incompressible velocity gradient (`tr L = 0`) keeps `det F` -/
theorem det_solution_incompressible (L : Mat3) (hL : trace3 L = 0) (F : ℝ → Mat3)
    (hF : SolvesLF L F) (t0 t : ℝ) : det3 (F t) = det3 (F t0) := by
  rw [det_solution L F hF t0 t, hL]; simp

/-! ## 4. piecewise constant velocity gradient -/

/-- the flow through a list of pieces `(duration, L)` in time order: each piece is the exact
solution `Fsol` for its own constant `L`, started from the result of the previous piece -/
noncomputable def flow : List (ℝ × Mat3) → Mat3 → Mat3
  | [], F => F
  | p :: ps, F => flow ps (Fsol p.2 F 0 p.1)

/-- the propagator of a list of pieces: `exp (dₙ Lₙ) ⋯ exp (d₁ L₁)` -/
noncomputable def Phi : List (ℝ × Mat3) → Mat3
  | [] => one3
  | p :: ps => mmul (Phi ps) (expm p.1 p.2)

/-- `Σ duration · tr L`, the time integral of `tr L` over the pieces -/
def intTr (ps : List (ℝ × Mat3)) : ℝ := (ps.map fun p => p.1 * trace3 p.2).sum

/-- the flow is linear in the start value: `flow ps F0 = Φ ps · F0` -/
theorem flow_eq_Phi (ps : List (ℝ × Mat3)) (F0 : Mat3) : flow ps F0 = mmul (Phi ps) F0 := by
  induction ps generalizing F0 with
  | nil => simp [flow, Phi]
  | cons p ps ih => simp [flow, Phi, Fsol, ih, mmul_assoc]

/-- **concatenation law for the propagator** -/
theorem Phi_append (ps qs : List (ℝ × Mat3)) : Phi (ps ++ qs) = mmul (Phi qs) (Phi ps) := by
  induction ps with
  | nil => simp [Phi]
  | cons p ps ih => simp [Phi, ih, mmul_assoc]

/-- **split = whole for a piecewise constant `L`**: running the pieces `ps` and then `qs` from the
intermediate result is running `ps ++ qs` -/
theorem flow_append (ps qs : List (ℝ × Mat3)) (F0 : Mat3) :
    flow (ps ++ qs) F0 = flow qs (flow ps F0) := by
  induction ps generalizing F0 with
  | nil => simp [flow]
  | cons p ps ih => simp [flow, ih]

/-- cutting one piece in two (same `L`) does not change the result -/
theorem flow_split_piece (d1 d2 : ℝ) (L : Mat3) (ps : List (ℝ × Mat3)) (F0 : Mat3) :
    flow ((d1, L) :: (d2, L) :: ps) F0 = flow ((d1 + d2, L) :: ps) F0 := by
  simp only [flow]
  congr 1
  have := split_eq_whole L F0 0 d1 (d1 + d2)
  simpa [Fsol] using this

/-- **Liouville for a piecewise constant `L`**: `det F = exp (Σ duration · tr L) · det F0` -/
theorem det_flow (ps : List (ℝ × Mat3)) (F0 : Mat3) :
    det3 (flow ps F0) = Real.exp (intTr ps) * det3 F0 := by
  induction ps generalizing F0 with
  | nil => simp [flow, intTr]
  | cons p ps ih =>
    have e : intTr (p :: ps) = intTr ps + (p.1 - 0) * trace3 p.2 := by
      simp [intTr]; ring
    rw [flow, ih, det_Fsol, e, Real.exp_add]; ring

theorem det_Phi (ps : List (ℝ × Mat3)) : det3 (Phi ps) = Real.exp (intTr ps) := by
  have := det_flow ps one3
  simpa [flow_eq_Phi] using this

end ModelR
