import Proofs.Basic
/-! # C09 — grain-boundary sliding: small grains are floored and do not rotate

Theorems about `ModelR.applyGbs` (the model of `utils.apply_gbs`, tied to the code by
the correspondence check K11) and its composition with `extractTex` (`utils.extract_vars`).
All statements are for every list length `n`, every threshold and every input. -/
namespace ModelR
open List

/-- floored fraction vector before renormalisation -/
noncomputable def gbsFloored (thr : ℝ) (f : List ℝ) : List ℝ := f.map (fun x => if x < thr then thr else x)

theorem applyGbs_f (chi : ℝ) (n : ℕ) (prev : List Mat3) (t : Tex) :
    (applyGbs chi n prev t).f
      = (gbsFloored (chi / n) t.f).map (· / (gbsFloored (chi / n) t.f).sum) := by
  simp [applyGbs, gbsFloored, RofNat]
  try (intro a _; first | rfl | congr)

theorem applyGbs_length_f (chi : ℝ) (n : ℕ) (prev : List Mat3) (t : Tex) :
    (applyGbs chi n prev t).f.length = t.f.length := by
  simp [applyGbs]

theorem applyGbs_length_A (chi : ℝ) (n : ℕ) (prev : List Mat3) (t : Tex)
    (h1 : t.A.length = t.f.length) (h2 : prev.length = t.f.length) :
    (applyGbs chi n prev t).A.length = t.f.length := by
  simp [applyGbs, h1, h2]

/-- **masked grains keep exactly the reference orientation** -/
theorem masked_keeps_prev (chi : ℝ) (n : ℕ) (prev : List Mat3) (t : Tex) (i : ℕ)
    (hA : i < t.A.length) (hp : i < prev.length) (hf : i < t.f.length)
    (hmask : t.f[i] < chi / n) :
    (applyGbs chi n prev t).A[i]'(by simp [applyGbs]; omega) = prev[i] := by
  simp [applyGbs, RofNat, hmask]

/-- **unmasked grains keep their integrated orientation** -/
theorem unmasked_keeps_own (chi : ℝ) (n : ℕ) (prev : List Mat3) (t : Tex) (i : ℕ)
    (hA : i < t.A.length) (hp : i < prev.length) (hf : i < t.f.length)
    (hmask : ¬ t.f[i] < chi / n) :
    (applyGbs chi n prev t).A[i]'(by simp [applyGbs]; omega) = t.A[i] := by
  simp [applyGbs, RofNat, hmask]

/-- **masked grains get the floor chi/n before renormalisation** -/
theorem masked_floored (chi : ℝ) (n : ℕ) (prev : List Mat3) (t : Tex) (i : ℕ)
    (hf : i < t.f.length) (hmask : t.f[i] < chi / n) :
    (applyGbs chi n prev t).f[i]'(by simp [applyGbs]; omega)
      = (chi / n) / (gbsFloored (chi / n) t.f).sum := by
  simp [applyGbs_f, gbsFloored, hmask]

/-- **unmasked grains keep their volume relative to the common normaliser** -/
theorem unmasked_scaled (chi : ℝ) (n : ℕ) (prev : List Mat3) (t : Tex) (i : ℕ)
    (hf : i < t.f.length) (hmask : ¬ t.f[i] < chi / n) :
    (applyGbs chi n prev t).f[i]'(by simp [applyGbs]; omega)
      = t.f[i] / (gbsFloored (chi / n) t.f).sum := by
  simp [applyGbs_f, gbsFloored, hmask]

/-- hence the ratio of any two unmasked grains is preserved (cross-multiplied form,
valid also when the normaliser is 0) -/
theorem unmasked_ratio_preserved (chi : ℝ) (n : ℕ) (prev : List Mat3) (t : Tex) (i j : ℕ)
    (hi : i < t.f.length) (hj : j < t.f.length)
    (hmi : ¬ t.f[i] < chi / n) (hmj : ¬ t.f[j] < chi / n) :
    (applyGbs chi n prev t).f[i]'(by simp [applyGbs]; omega) * t.f[j]
      = (applyGbs chi n prev t).f[j]'(by simp [applyGbs]; omega) * t.f[i] := by
  rw [unmasked_scaled chi n prev t i hi hmi, unmasked_scaled chi n prev t j hj hmj]
  ring

/-- **fractions are renormalised to sum to 1** (whenever the floored sum is non-zero) -/
theorem renormalised (chi : ℝ) (n : ℕ) (prev : List Mat3) (t : Tex)
    (hs : (gbsFloored (chi / n) t.f).sum ≠ 0) :
    (applyGbs chi n prev t).f.sum = 1 := by
  rw [applyGbs_f, sum_map_div, div_self hs]

theorem floored_sum_ge (thr : ℝ) (f : List ℝ) : f.sum ≤ (gbsFloored thr f).sum := by
  have := sum_map_le_sum_map f (fun x => x) (fun x => if x < thr then thr else x)
    (by intro x _; split_ifs with h <;> linarith)
  simpa [gbsFloored] using this

theorem floored_sum_le (thr : ℝ) (hthr : 0 ≤ thr) (f : List ℝ) (hf : ∀ x ∈ f, 0 ≤ x) :
    (gbsFloored thr f).sum ≤ f.sum + f.length * thr := by
  have := sum_map_le_sum_map f (fun x => if x < thr then thr else x) (fun x => x + thr)
    (by intro x hx; have := hf x hx; split_ifs with h <;> linarith)
  rw [sum_map_add_const] at this
  simpa [gbsFloored] using this

theorem floored_ge_thr (thr : ℝ) (f : List ℝ) : ∀ x ∈ gbsFloored thr f, thr ≤ x := by
  intro x hx
  simp only [gbsFloored, List.mem_map] at hx
  obtain ⟨y, _, rfl⟩ := hx
  split_ifs with h <;> linarith

/-- **no fraction leaves `apply_gbs` below chi/(n(1+chi))**, for input on the simplex. -/
theorem floor_bound (chi : ℝ) (n : ℕ) (prev : List Mat3) (t : Tex)
    (hn : t.f.length = n) (hn0 : 0 < n) (hchi : 0 ≤ chi)
    (hpos : ∀ x ∈ t.f, 0 ≤ x) (hsum : t.f.sum = 1) :
    ∀ x ∈ (applyGbs chi n prev t).f, chi / (n * (1 + chi)) ≤ x := by
  intro x hx
  have hnR : (0 : ℝ) < n := by exact_mod_cast hn0
  have hthr : 0 ≤ chi / n := by positivity
  have hlo := floored_sum_ge (chi / n) t.f
  have hhi := floored_sum_le (chi / n) hthr t.f hpos
  rw [hsum] at hlo
  rw [hsum, hn] at hhi
  have hnthr : (n : ℝ) * (chi / n) = chi := by field_simp
  rw [hnthr] at hhi
  set s := (gbsFloored (chi / n) t.f).sum with hs
  have hspos : 0 < s := by linarith
  rw [applyGbs_f, List.mem_map] at hx
  obtain ⟨y, hy, rfl⟩ := hx
  have hy' := floored_ge_thr _ _ y hy
  have h1 : chi / (n * (1 + chi)) = (chi / n) / (1 + chi) := by
    rw [div_div]
  rw [h1]
  calc chi / n / (1 + chi) ≤ chi / n / s := by
        apply div_le_div_of_nonneg_left hthr hspos hhi
    _ ≤ y / s := by
        apply div_le_div_of_nonneg_right hy' hspos.le

/-- **ordering of grain volumes is preserved** (monotone floor, then positive scaling) -/
theorem order_preserved (chi : ℝ) (n : ℕ) (prev : List Mat3) (t : Tex) (i j : ℕ)
    (hi : i < t.f.length) (hj : j < t.f.length)
    (hs : 0 < (gbsFloored (chi / n) t.f).sum) (hij : t.f[i] ≤ t.f[j]) :
    (applyGbs chi n prev t).f[i]'(by simp [applyGbs]; omega)
      ≤ (applyGbs chi n prev t).f[j]'(by simp [applyGbs]; omega) := by
  simp only [applyGbs_f, gbsFloored, List.getElem_map]
  apply div_le_div_of_nonneg_right _ hs.le
  split_ifs with h1 h2 h2 <;> linarith

/-- **with chi = 0 nothing is masked**: orientations untouched, fractions only renormalised -/
theorem chi_zero_noop (n : ℕ) (prev : List Mat3) (t : Tex)
    (hA : t.A.length = t.f.length) (hp : prev.length = t.f.length)
    (hpos : ∀ x ∈ t.f, 0 ≤ x) :
    (applyGbs 0 n prev t).A = t.A ∧ (applyGbs 0 n prev t).f = t.f.map (· / t.f.sum) := by
  have hfl : gbsFloored (0 / (n : ℝ)) t.f = t.f := by
    simp only [gbsFloored, zero_div]
    conv_rhs => rw [← List.map_id t.f]
    apply List.map_congr_left
    intro x hx
    have := hpos x hx
    simp [not_lt.mpr this]
  constructor
  · apply List.ext_getElem
    · simp [applyGbs, hA, hp]
    · intro i h1 h2
      have hiA : i < t.A.length := h2
      have hif : i < t.f.length := by omega
      have hip : i < prev.length := by omega
      have : ¬ t.f[i] < 0 / (n : ℝ) := by
        simp only [zero_div, not_lt]; exact hpos _ (List.getElem_mem _)
      exact unmasked_keeps_own 0 n prev t i hiA hip hif this
  · rw [applyGbs_f, hfl]

/-- **an exact tie `f_i = chi/n` is not frozen** (the comparison is strict) -/
theorem tie_not_masked (chi : ℝ) (n : ℕ) (prev : List Mat3) (t : Tex) (i : ℕ)
    (hA : i < t.A.length) (hp : i < prev.length) (hf : i < t.f.length)
    (htie : t.f[i] = chi / n) :
    (applyGbs chi n prev t).A[i]'(by simp [applyGbs]; omega) = t.A[i] :=
  unmasked_keeps_own chi n prev t i hA hp hf (by rw [htie]; exact lt_irrefl _)

/-- `extract_vars` renormalises a non-negative vector: stored fractions are on the simplex -/
theorem extract_simplex (t : Tex) (hs : ((t.f.map clip0).sum) ≠ 0) :
    (extractTex t).f.sum = 1 ∧ ∀ x ∈ (extractTex t).f, 0 ≤ x ∨ (t.f.map clip0).sum < 0 := by
  constructor
  · simp only [extractTex, listSum_eq_sum]
    rw [sum_map_div, div_self hs]
  · intro x hx
    left
    simp only [extractTex, listSum_eq_sum, List.mem_map] at hx
    obtain ⟨y, ⟨z, _, rfl⟩, rfl⟩ := hx
    have hz : 0 ≤ clip0 z := by unfold clip0; split_ifs with h <;> linarith
    have hsum : 0 ≤ (t.f.map clip0).sum := by
      apply List.sum_nonneg
      intro w hw
      simp only [List.mem_map] at hw
      obtain ⟨v, _, rfl⟩ := hw
      unfold clip0; split_ifs with h <;> linarith
    exact div_nonneg hz hsum

/-- `extract_vars` is the identity on fractions already on the simplex -/
theorem extract_id_on_simplex (f : List ℝ) (A : List Mat3)
    (hpos : ∀ x ∈ f, 0 ≤ x) (hsum : f.sum = 1) :
    (extractTex ⟨A, f⟩).f = f := by
  have h0 : f.map clip0 = f := by
    conv_rhs => rw [← List.map_id f]
    apply List.map_congr_left
    intro x hx
    have := hpos x hx
    simp [clip0, not_lt.mpr this]
  simp only [extractTex, listSum_eq_sum, h0, hsum]
  conv_rhs => rw [← List.map_id f]
  apply List.map_congr_left
  intro x _; simp

/-- **every stored fraction is at least chi/(n(1+chi))**: the snapshot appended by an update is
`extract_vars` of the vector written back by the last `apply_gbs`, which is on the simplex, so
`extract_vars` leaves it unchanged and the `floor_bound` carries over. -/
theorem stored_floor (chi : ℝ) (n : ℕ) (prev : List Mat3) (t : Tex)
    (hn : t.f.length = n) (hn0 : 0 < n) (hchi : 0 ≤ chi)
    (hpos : ∀ x ∈ t.f, 0 ≤ x) (hsum : t.f.sum = 1) :
    ∀ x ∈ (extractTex (applyGbs chi n prev t)).f, chi / (n * (1 + chi)) ≤ x := by
  have hb := floor_bound chi n prev t hn hn0 hchi hpos hsum
  have hnR : (0 : ℝ) < n := by exact_mod_cast hn0
  have hlo := floored_sum_ge (chi / n) t.f
  rw [hsum] at hlo
  have hs : (gbsFloored (chi / n) t.f).sum ≠ 0 := by linarith
  have hpos' : ∀ x ∈ (applyGbs chi n prev t).f, 0 ≤ x := by
    intro x hx
    have := hb x hx
    have h0 : 0 ≤ chi / (n * (1 + chi)) := by positivity
    linarith
  have hid := extract_id_on_simplex (applyGbs chi n prev t).f (applyGbs chi n prev t).A hpos'
    (renormalised chi n prev t hs)
  intro x hx
  have : (extractTex (applyGbs chi n prev t)).f = (applyGbs chi n prev t).f := hid
  rw [this] at hx
  exact hb x hx

end ModelR
