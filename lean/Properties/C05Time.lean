import Properties.C05
/-! # C05 (continued) — time-dependent velocity-gradient histories

For a history `L(t, x(t))` the right-hand side is non-autonomous, `rhs t y`. Multiplying the whole
history by `k` and compressing the time axis by `1/k` gives `rhs' t y = k • rhs (k t) y`
(`rhs_homogeneous` supplies the factor `k`, the compression supplies the argument `k t`).
Every explicit Runge–Kutta scheme with nodes `c_i` then visits the SAME states: the stage times of
the fast run are the stage times of the slow run divided by `k`. -/
namespace ModelR
open List

/-- stages of an explicit RK method for a non-autonomous system; each tableau row carries its node `c` -/
noncomputable def rkStagesT (rhs : ℝ → List ℝ → List ℝ) (h t : ℝ) (y : List ℝ) :
    List (ℝ × List ℝ) → List (List ℝ)
  | [] => []
  | (c, row) :: rows =>
    let ks := rkStagesT rhs h t y rows
    let yi := (List.zip row ks).foldl (fun acc p => axpy (h * p.1) p.2 acc) y
    ks ++ [rhs (t + c * h) yi]

noncomputable def rkStepT (a : List (ℝ × List ℝ)) (b : List ℝ) (rhs : ℝ → List ℝ → List ℝ)
    (post : List ℝ → List ℝ) (h : ℝ) (s : ℝ × List ℝ) : ℝ × List ℝ :=
  (s.1 + h, post ((List.zip b (rkStagesT rhs h s.1 s.2 a)).foldl (fun acc p => axpy (h * p.1) p.2 acc) s.2))

noncomputable def runStepsT (step : ℝ → ℝ × List ℝ → ℝ × List ℝ) : List ℝ → ℝ × List ℝ → ℝ × List ℝ
  | [], s => s
  | h :: hs, s => runStepsT step hs (step h s)

/-- the right-hand side of the history scaled by `k` with the time axis compressed by `1/k` -/
noncomputable def scaledRhs (k : ℝ) (rhs : ℝ → List ℝ → List ℝ) : ℝ → List ℝ → List ℝ :=
  fun t y => (rhs (k * t) y).map (k * ·)

theorem rkStagesT_scale (rhs : ℝ → List ℝ → List ℝ) (k h t : ℝ) (hk : k ≠ 0) (y : List ℝ)
    (a : List (ℝ × List ℝ)) :
    rkStagesT (scaledRhs k rhs) (h / k) (t / k) y a
      = (rkStagesT rhs h t y a).map (fun v => v.map (k * ·)) := by
  induction a with
  | nil => rfl
  | cons row rows ih =>
    obtain ⟨c, r⟩ := row
    simp only [rkStagesT, ih, List.map_append, List.map_cons, List.map_nil]
    rw [fold_axpy_scale k h hk]
    have ht : k * (t / k + c * (h / k)) = t + c * h := by field_simp
    simp only [scaledRhs, ht]

/-- **rate invariance for time-dependent histories, every explicit Runge–Kutta scheme**: starting
at `t/k` with steps `h_i/k`, the fast run reaches exactly the states of the slow run, at times
divided by `k`. -/
theorem rk_rate_invariant_timedep (a : List (ℝ × List ℝ)) (b : List ℝ)
    (rhs : ℝ → List ℝ → List ℝ) (post : List ℝ → List ℝ) (k : ℝ) (hk : k ≠ 0)
    (hs : List ℝ) (t : ℝ) (y : List ℝ) :
    runStepsT (rkStepT a b (scaledRhs k rhs) post) (hs.map (· / k)) (t / k, y)
      = ((runStepsT (rkStepT a b rhs post) hs (t, y)).1 / k,
         (runStepsT (rkStepT a b rhs post) hs (t, y)).2) := by
  induction hs generalizing t y with
  | nil => rfl
  | cons h hs ih =>
    simp only [List.map_cons, runStepsT, rkStepT, rkStagesT_scale rhs k h t hk, fold_axpy_scale k h hk]
    have : t / k + h / k = (t + h) / k := by ring
    rw [this]
    exact ih _ _

end ModelR

namespace ModelR
open List

/-- the right-hand side as a total function on flat vectors (a rejected evaluation aborts the
solver; it is represented by the empty vector) -/
noncomputable def rhsList (phase fabric : Int) (n : ℕ) (mp : MParams) (env : RhsEnv) (y : List ℝ) : List ℝ :=
  match evalRhs phase fabric n mp env y with
  | .ok v => v
  | .error _ => []

/-- the concrete right-hand side of the scaled history is `k` times the original one -/
theorem rhsList_scale (phase fabric : Int) (n : ℕ) (mp : MParams) (env : RhsEnv) (y : List ℝ)
    (k : ℝ) (hk : k ≠ 0) (hreg : env.regime ≠ 1) (spin' : Mat3)
    (hsym : env.emax = 0 → ∀ i j, env.L i j + env.L j i = 0) :
    rhsList phase fabric n mp { scaleEnv k env with spin := spin' } y
      = (rhsList phase fabric n mp env y).map (k * ·) := by
  unfold rhsList
  rw [rhs_scale phase fabric n mp env y k hk hreg spin' hsym]
  cases evalRhs phase fabric n mp env y with
  | ok v => rfl
  | error e => rfl

/-- **C05 for the modelled update itself (steady flows)**: every explicit Runge–Kutta scheme applied
to the actual `eval_rhs` and the actual `perform_step` post-processing visits the same states when
the velocity gradient is multiplied by `k ≠ 0`, the largest principal strain rate scales with it and
all steps are divided by `k` — whatever the externally computed spin of the fast run is. -/
theorem update_rate_invariant_steady (a : List (List ℝ)) (b : List ℝ)
    (phase fabric : Int) (n : ℕ) (mp : MParams) (env : RhsEnv) (prev : List Mat3)
    (k : ℝ) (hk : k ≠ 0) (hreg : env.regime ≠ 1) (spin' : Mat3)
    (hsym : env.emax = 0 → ∀ i j, env.L i j + env.L j i = 0) (hs : List ℝ) (y : List ℝ) :
    runSteps (rkStep a b (rhsList phase fabric n mp { scaleEnv k env with spin := spin' })
        (postStep mp.chi n prev)) (hs.map (· / k)) y
      = runSteps (rkStep a b (rhsList phase fabric n mp env) (postStep mp.chi n prev)) hs y := by
  have hfun : rhsList phase fabric n mp { scaleEnv k env with spin := spin' }
      = fun z => (rhsList phase fabric n mp env z).map (k * ·) := by
    funext z; exact rhsList_scale phase fabric n mp env z k hk hreg spin' hsym
  rw [hfun]
  exact rk_rate_invariant a b _ _ k hk hs y

end ModelR
