import Proofs.Drex
/-! # C03 — rates conserve the texture manifold

Theorems about `ModelR.derivatives` (model of `core.derivatives`, tied to the code by the
correspondence check K9 on both the compiled and the interpreted path).
Every statement is for every grain count (lists of any length), every orientation (not
necessarily orthonormal), every velocity gradient and every parameter value. -/
namespace ModelR
open List

/-- per-grain kernel: the rotation rate is `A · Ω` with `Ω` skew (K7–K9) -/
theorem rotation_is_A_skew (phase : Int) (crss : Crss) (A D L : Mat3) (p n lam : ℝ) :
    ∃ W : Mat3, IsSkew W ∧ (rotationAndStrainCore phase crss A D L p n lam).1 = mmul A W := by
  have hz : ∃ W : Mat3, IsSkew W ∧ noSlipRotation A L = mmul A W :=
    ⟨spinMat (spinVector L zero3 0), spinMat_skew _, by simp [noSlipRotation, orientationChange_eq]⟩
  have hr : ∀ r : Fin 4 → ℝ, ∃ W : Mat3, IsSkew W ∧ (rotationFromRates crss A L r p n lam).1 = mmul A W := by
    intro r
    refine ⟨spinMat (spinVector L (deformationRate A r) (slipRateSoftest (deformationRate A r) L)),
      spinMat_skew _, ?_⟩
    simp [rotationFromRates, orientationChange_eq]
  unfold rotationAndStrainCore
  simp only [vec4memo_eq, perm4memo_eq]
  split_ifs
  · exact hz
  · exact hz
  · exact hr _
  · exact hr _

/-- the output of the dislocation branch, grain by grain -/
theorem dislocationRates_fst (damp : ℝ) (crss : Crss) (phase : Int) (A : List Mat3) (f : List ℝ)
    (D L : Mat3) (q : DParams) :
    (dislocationRates damp crss phase A f D L q).1
      = A.map (fun a => smul3 damp (rotationAndStrainCore phase crss a D L q.p q.n q.lam).1) := by
  simp [dislocationRates, List.map_map, Function.comp_def]

/-- energies of the grains -/
noncomputable def energies (crss : Crss) (phase : Int) (A : List Mat3) (D L : Mat3) (q : DParams) : List ℝ :=
  A.map (fun a => (rotationAndStrainCore phase crss a D L q.p q.n q.lam).2)

theorem dislocationRates_snd (damp : ℝ) (crss : Crss) (phase : Int) (A : List Mat3) (f : List ℝ)
    (D L : Mat3) (q : DParams) :
    (dislocationRates damp crss phase A f D L q).2
      = List.zipWith (fun fi e => q.phi * q.M * fi *
          (damp * (weightedSum f (energies crss phase A D L q) - e))) f (energies crss phase A D L q) := by
  simp [dislocationRates, energies, List.map_map, Function.comp_def]

/-- regimes 4 (matrix_dislocation) and 6 (frictional_yielding) with their damping factors -/
theorem derivatives_dislocation (regime phase fabric : Int) (hreg : regime = 4 ∨ regime = 6)
    (A : List Mat3) (f : List ℝ) (D L spin : Mat3) (q : DParams) (crss : Crss)
    (hc : getCrss phase fabric = .ok crss) :
    derivatives regime phase fabric A f D L spin q
      = .ok (dislocationRates (if regime = 4 then 1 else 0.3) crss phase A f D L q) := by
  rcases hreg with h | h <;> subst h <;> simp [derivatives, hc]

/-- **each grain's orientation rate is its orientation composed with a skew spin** -/
theorem rate_is_A_skew (regime phase fabric : Int) (hreg : regime = 4 ∨ regime = 6)
    (A : List Mat3) (f : List ℝ) (D L spin : Mat3) (q : DParams) (crss : Crss)
    (hc : getCrss phase fabric = .ok crss) (out : List Mat3 × List ℝ)
    (hout : derivatives regime phase fabric A f D L spin q = .ok out) :
    out.1.length = A.length ∧
    ∀ i (hi : i < A.length) (ho : i < out.1.length),
      ∃ W : Mat3, IsSkew W ∧ out.1[i] = mmul A[i] W := by
  rw [derivatives_dislocation regime phase fabric hreg A f D L spin q crss hc] at hout
  injection hout with hout
  subst hout
  rw [dislocationRates_fst]
  refine ⟨by simp, ?_⟩
  intro i hi ho
  obtain ⟨W, hW, hEq⟩ := rotation_is_A_skew phase crss A[i] D L q.p q.n q.lam
  refine ⟨smul3 (if regime = 4 then 1 else 0.3) W, isSkew_smul _ _ hW, ?_⟩
  simp only [List.getElem_map, hEq, mmul_smul]

/-- **volume-fraction rates sum to zero whenever the fractions sum to one** -/
theorem sum_fracdiff_zero (regime phase fabric : Int) (hreg : regime = 4 ∨ regime = 6)
    (A : List Mat3) (f : List ℝ) (D L spin : Mat3) (q : DParams) (crss : Crss)
    (hc : getCrss phase fabric = .ok crss) (hlen : f.length = A.length) (hsum : f.sum = 1)
    (out : List Mat3 × List ℝ)
    (hout : derivatives regime phase fabric A f D L spin q = .ok out) :
    out.2.sum = 0 := by
  rw [derivatives_dislocation regime phase fabric hreg A f D L spin q crss hc] at hout
  injection hout with hout
  subst hout
  rw [dislocationRates_snd]
  have hl : f.length = (energies crss phase A D L q).length := by simp [energies, hlen]
  set es := energies crss phase A D L q
  set dmp : ℝ := if regime = 4 then 1 else 0.3
  have h1 : (List.zipWith (fun fi e => q.phi * q.M * fi * (dmp * (weightedSum f es - e))) f es)
      = List.zipWith (fun fi e => (q.phi * q.M * dmp) * fi * (weightedSum f es - e)) f es := by
    congr 1; funext fi e; ring
  rw [h1, sum_zipWith_mul_const _ _ f es hl, weightedSum_eq f es hl, hsum]
  ring

/-- the i-th fraction rate in closed form -/
theorem fracdiff_entry (regime phase fabric : Int) (hreg : regime = 4 ∨ regime = 6)
    (A : List Mat3) (f : List ℝ) (D L spin : Mat3) (q : DParams) (crss : Crss)
    (hc : getCrss phase fabric = .ok crss) (hlen : f.length = A.length)
    (out : List Mat3 × List ℝ)
    (hout : derivatives regime phase fabric A f D L spin q = .ok out)
    (i : ℕ) (hi : i < f.length) :
    ∃ ho : i < out.2.length, ∃ he : i < (energies crss phase A D L q).length,
      out.2[i] = q.phi * q.M * f[i] * ((if regime = 4 then 1 else 0.3) *
        (weightedSum f (energies crss phase A D L q) - (energies crss phase A D L q)[i])) := by
  rw [derivatives_dislocation regime phase fabric hreg A f D L spin q crss hc] at hout
  injection hout with hout
  subst hout
  have he : i < (energies crss phase A D L q).length := by simp [energies]; omega
  refine ⟨by rw [dislocationRates_snd]; simp; omega, he, ?_⟩
  simp [dislocationRates_snd]

/-- **grains of zero volume have zero volume rate** -/
theorem dead_grain (regime phase fabric : Int) (hreg : regime = 4 ∨ regime = 6)
    (A : List Mat3) (f : List ℝ) (D L spin : Mat3) (q : DParams) (crss : Crss)
    (hc : getCrss phase fabric = .ok crss) (hlen : f.length = A.length)
    (out : List Mat3 × List ℝ)
    (hout : derivatives regime phase fabric A f D L spin q = .ok out)
    (i : ℕ) (hi : i < f.length) (hz : f[i] = 0) (ho : i < out.2.length) : out.2[i] = 0 := by
  obtain ⟨_, _, h⟩ := fracdiff_entry regime phase fabric hreg A f D L spin q crss hc hlen out hout i hi
  rw [h, hz]; ring

/-- **the volume rates vanish when the mobility is zero** -/
theorem zero_mobility (regime phase fabric : Int) (hreg : regime = 4 ∨ regime = 6)
    (A : List Mat3) (f : List ℝ) (D L spin : Mat3) (q : DParams) (crss : Crss)
    (hc : getCrss phase fabric = .ok crss) (hlen : f.length = A.length) (hM : q.M = 0)
    (out : List Mat3 × List ℝ)
    (hout : derivatives regime phase fabric A f D L spin q = .ok out) :
    ∀ x ∈ out.2, x = 0 := by
  intro x hx
  obtain ⟨i, hi, rfl⟩ := List.getElem_of_mem hx
  have hlen2 : out.2.length = f.length := by
    rw [derivatives_dislocation regime phase fabric hreg A f D L spin q crss hc] at hout
    injection hout with hout
    subst hout
    rw [dislocationRates_snd]; simp [energies, hlen]
  obtain ⟨_, _, h⟩ := fracdiff_entry regime phase fabric hreg A f D L spin q crss hc hlen out hout i (by omega)
  rw [h, hM]; ring

/-- the rates depend on mobility and phase fraction only through the product `φ·M`, and the
orientation rates and energies do not depend on them at all:
**linear in the mobility and in the phase volume fraction** -/
theorem linear_in_M_phi (regime phase fabric : Int) (hreg : regime = 4 ∨ regime = 6)
    (A : List Mat3) (f : List ℝ) (D L spin : Mat3) (q : DParams) (crss : Crss)
    (hc : getCrss phase fabric = .ok crss) (a b : ℝ) :
    ∃ o1 o2 : List Mat3 × List ℝ,
      derivatives regime phase fabric A f D L spin q = .ok o1 ∧
      derivatives regime phase fabric A f D L spin { q with M := a * q.M, phi := b * q.phi } = .ok o2 ∧
      o2.1 = o1.1 ∧ o2.2 = o1.2.map (fun x => a * b * x) := by
  refine ⟨_, _, derivatives_dislocation regime phase fabric hreg A f D L spin q crss hc,
    derivatives_dislocation regime phase fabric hreg A f D L spin _ crss hc, ?_, ?_⟩
  · simp [dislocationRates_fst]
  · simp only [dislocationRates_snd, energies, List.map_zipWith]
    congr 1; funext fi e; ring

/-- **a grain grows exactly when its strain energy is below the volume-weighted mean** -/
theorem grows_iff_below_mean (regime phase fabric : Int) (hreg : regime = 4 ∨ regime = 6)
    (A : List Mat3) (f : List ℝ) (D L spin : Mat3) (q : DParams) (crss : Crss)
    (hc : getCrss phase fabric = .ok crss) (hlen : f.length = A.length)
    (hφM : 0 < q.phi * q.M)
    (out : List Mat3 × List ℝ)
    (hout : derivatives regime phase fabric A f D L spin q = .ok out)
    (i : ℕ) (hi : i < f.length) (hpos : 0 < f[i]) (ho : i < out.2.length)
    (he : i < (energies crss phase A D L q).length) :
    0 < out.2[i] ↔ (energies crss phase A D L q)[i] < weightedSum f (energies crss phase A D L q) := by
  obtain ⟨_, _, h⟩ := fracdiff_entry regime phase fabric hreg A f D L spin q crss hc hlen out hout i hi
  rw [h]
  have hd : (0 : ℝ) < (if regime = 4 then 1 else 0.3) := by split_ifs <;> norm_num
  set m := weightedSum f (energies crss phase A D L q)
  set e := (energies crss phase A D L q)[i]
  constructor
  · intro hp
    by_contra hcon
    push Not at hcon
    have : q.phi * q.M * f[i] * ((if regime = 4 then (1 : ℝ) else 0.3) * (m - e)) ≤ 0 := by
      apply mul_nonpos_of_nonneg_of_nonpos
      · positivity
      · apply mul_nonpos_of_nonneg_of_nonpos hd.le; linarith
    linarith
  · intro hlt
    have : 0 < m - e := by linarith
    positivity

/-- **the solver returns without raising** for every supported (phase, fabric) pair, both
dislocation-type regimes and every input, with one rate per grain. -/
theorem total (regime phase fabric : Int) (hreg : regime = 4 ∨ regime = 6)
    (hpf : (phase = 0 ∧ 0 ≤ fabric ∧ fabric ≤ 4) ∨ (phase = 1 ∧ fabric = 5))
    (A : List Mat3) (f : List ℝ) (D L spin : Mat3) (q : DParams) (hlen : f.length = A.length) :
    ∃ out, derivatives regime phase fabric A f D L spin q = .ok out ∧
      out.1.length = A.length ∧ out.2.length = A.length := by
  have hc : ∃ crss, getCrss phase fabric = .ok crss := by
    rcases hpf with ⟨hp, h0, h4⟩ | ⟨hp, hf⟩
    · subst hp
      have : fabric = 0 ∨ fabric = 1 ∨ fabric = 2 ∨ fabric = 3 ∨ fabric = 4 := by omega
      rcases this with h | h | h | h | h <;> subst h <;> simp [getCrss]
    · subst hp; subst hf; simp [getCrss]
  obtain ⟨crss, hc⟩ := hc
  refine ⟨_, derivatives_dislocation regime phase fabric hreg A f D L spin q crss hc, ?_, ?_⟩
  · simp [dislocationRates_fst]
  · simp [dislocationRates_snd, energies, hlen]

/-! ### the divisions of the kernel never have a zero denominator after the guards
(so the real-number model does not hide a `x / 0 = 0`: this is the formal content of
"finite values ... including grains on which no slip system can be activated") -/

/-- every CRSS row of the table has positive finite entries or `inf` -/
theorem crss_pos (phase fabric : Int) (crss : Crss) (hc : getCrss phase fabric = .ok crss) (s : Fin 4) :
    (crss s).isInf = true ∨ 0 < (crss s).val := by
  unfold getCrss at hc
  split_ifs at hc <;> injection hc with hc <;> subst hc <;>
    fin_cases s <;> simp [mkCrss, tauFin, tauInf]

/-- after the olivine no-slip guard the most active system has finite CRSS and a non-zero invariant,
so `crss[i_max] / invariants[i_max]` is a division by a non-zero number -/
theorem prefactor_denominator_nonzero (crss : Crss) (I : Fin 4 → ℝ) (s : Fin 4)
    (hguard : ¬ (Req (divByTau (I s) (crss s)) 0 = true)) :
    (crss s).isInf = false ∧ I s ≠ 0 := by
  simp only [Req_iff, divByTau] at hguard
  constructor
  · by_contra h
    simp only [Bool.not_eq_false] at h
    simp [h] at hguard
  · intro h0
    apply hguard
    simp [h0]

/-- the softest-slip-rate quotient is only formed when `|denominator| ≥ 1e-15` -/
theorem softest_guard (G L : Mat3) :
    slipRateSoftest G L = 0 ∨ softestDenom G ≠ 0 := by
  unfold slipRateSoftest
  by_cases h : -1e-15 < softestDenom G ∧ softestDenom G < 1e-15
  · left; simp [h]
  · right
    intro h0
    apply h
    rw [h0]
    constructor <;> norm_num

end ModelR
