import Properties.C08
/-! # C08 (continued) — interleaved updates of separately held minerals

The statement quantifies over "all interleavings of update calls across minerals (minerals share
no hidden state)". A program holding several minerals issues a sequence of calls
`minerals[i].update_orientations(...)`; in the model each call is `updateWith` applied to the i-th
mineral with the solver output `r` of that call (ANY output, including a failed call `none`).
The theorems below say that what one mineral ends up with is the result of ITS OWN calls, in
their order, applied to it alone: the calls made on other minerals in between, their number,
their outcome (completed or failed) and their position in the sequence do not enter. -/
namespace ModelR
open List

/-- one call on the `i`-th mineral of the collection (an index outside the collection does nothing) -/
noncomputable def applyOp (chi : ℝ) (ms : List Mineral) (op : ℕ × Option (List (List ℝ))) : List Mineral :=
  ms.modify op.1 (fun m => (updateWith m chi op.2).1)

/-- any sequence of calls on the collection -/
noncomputable def runOps (chi : ℝ) (ms : List Mineral) (ops : List (ℕ × Option (List (List ℝ)))) : List Mineral :=
  ops.foldl (applyOp chi) ms

/-- the calls one mineral receives, applied to it alone -/
noncomputable def runOwn (chi : ℝ) (m : Mineral) (rs : List (Option (List (List ℝ)))) : Mineral :=
  rs.foldl (fun m r => (updateWith m chi r).1) m

/-- the solver outputs of the calls addressed to mineral `j`, in call order -/
def ownCalls (j : ℕ) (ops : List (ℕ × Option (List (List ℝ)))) : List (Option (List (List ℝ))) :=
  (ops.filter (fun op => op.1 = j)).map Prod.snd

theorem applyOp_length (chi : ℝ) (ms : List Mineral) (op : ℕ × Option (List (List ℝ))) :
    (applyOp chi ms op).length = ms.length := by
  simp [applyOp]

theorem runOps_length (chi : ℝ) (ms : List Mineral) (ops : List (ℕ × Option (List (List ℝ)))) :
    (runOps chi ms ops).length = ms.length := by
  induction ops generalizing ms with
  | nil => rfl
  | cons op ops ih => simp [runOps, List.foldl_cons] at ih ⊢; rw [ih, applyOp_length]

/-- **projection**: after ANY interleaved sequence of calls, mineral `j` is what its own calls make
of it (refinement of the collection to one independent state machine per mineral). -/
theorem interleave_projection (chi : ℝ) (ms : List Mineral) (ops : List (ℕ × Option (List (List ℝ))))
    (j : ℕ) :
    (runOps chi ms ops)[j]? = (ms[j]?).map (fun m => runOwn chi m (ownCalls j ops)) := by
  induction ops generalizing ms with
  | nil => simp [runOps, runOwn, ownCalls]
  | cons op ops ih =>
    have hstep : runOps chi ms (op :: ops) = runOps chi (applyOp chi ms op) ops := by
      simp [runOps]
    rw [hstep, ih]
    by_cases h : op.1 = j
    · subst h
      simp only [applyOp, ownCalls, List.getElem?_modify_eq, List.filter_cons, decide_true, if_true,
        List.map_cons, runOwn, List.foldl_cons]
      cases ms[op.1]? <;> rfl
    · have hne : ¬ (op.1 = j) := h
      simp only [applyOp, ownCalls, List.filter_cons, hne, decide_false, Bool.false_eq_true,
        if_false]
      rw [List.getElem?_modify_ne (h := hne)]

/-- **interleaving independence**: two call sequences that address each mineral with the same
calls in the same order (however the calls on different minerals are interleaved) leave the
whole collection in the same state. -/
theorem interleave_independent (chi : ℝ) (ms : List Mineral)
    (ops ops' : List (ℕ × Option (List (List ℝ))))
    (h : ∀ j, ownCalls j ops = ownCalls j ops') :
    runOps chi ms ops = runOps chi ms ops' := by
  apply List.ext_getElem?
  intro j
  rw [interleave_projection, interleave_projection, h j]

/-- calls on other minerals never touch mineral `j` (frame property of one call) -/
theorem other_calls_frame (chi : ℝ) (ms : List Mineral) (ops : List (ℕ × Option (List (List ℝ))))
    (j : ℕ) (h : ∀ op ∈ ops, op.1 ≠ j) :
    (runOps chi ms ops)[j]? = ms[j]? := by
  rw [interleave_projection]
  have : ownCalls j ops = [] := by
    simp only [ownCalls, List.map_eq_nil_iff, List.filter_eq_nil_iff]
    intro op hop
    simpa using h op hop
  rw [this]
  simp [runOwn]

/-- **twins**: two minerals built identically and sent the same calls end identical, whatever is
done to other minerals in between (positions `i`, `j` of one collection). -/
theorem twins_identical (chi : ℝ) (ms : List Mineral) (ops : List (ℕ × Option (List (List ℝ))))
    (i j : ℕ) (hm : ms[i]? = ms[j]?) (hc : ownCalls i ops = ownCalls j ops) :
    (runOps chi ms ops)[i]? = (runOps chi ms ops)[j]? := by
  rw [interleave_projection, interleave_projection, hm, hc]

/-- the sequential schedule (all calls of mineral 0, then all of mineral 1) and the alternating one
are two interleavings with the same own-call lists (the hypothesis of `interleave_independent` is
satisfiable by genuinely different schedules) -/
example (a b c d : Option (List (List ℝ))) :
    (∀ j, ownCalls j [(0, a), (0, b), (1, c), (1, d)] = ownCalls j [(0, a), (1, c), (0, b), (1, d)])
    ∧ [(0, a), (0, b), (1, c), (1, d)] ≠ [((0 : ℕ), a), (1, c), (0, b), (1, d)] := by
  constructor
  · intro j
    by_cases h0 : j = 0
    · subst h0; simp [ownCalls]
    · by_cases h1 : j = 1
      · subst h1; simp [ownCalls]
      · have e0 : ¬ (0 = j) := fun e => h0 e.symm
        have e1 : ¬ (1 = j) := fun e => h1 e.symm
        simp [ownCalls, e0, e1]
  · simp

end ModelR
