import Proofs.NoSlip
import Properties.C07
import Proofs.Solver
import Mathlib.Tactic.FieldSimp
/-! # C05 — texture depends on the strain path, not on the strain rate

`eval_rhs` is homogeneous of degree one in the velocity gradient (for the dislocation-type and
null regimes), post-processing involves neither L nor t, hence every one-step scheme that
advances by `h · rhs` produces the same states when L is multiplied by `k > 0` and all steps are
divided by `k`. -/
namespace ModelR
open List

/-- the environment seen when the whole velocity-gradient history is multiplied by `k`:
`L ↦ k L`, and the largest principal strain rate (external `eigvalsh`) scales with it. -/
noncomputable def scaleEnv (k : ℝ) (env : RhsEnv) : RhsEnv :=
  { env with L := fun i j => k * env.L i j, emax := k * env.emax }

theorem ndD_scale (k e : ℝ) (hk : k ≠ 0) (L : Mat3) :
    ndD (fun i j => k * L i j) (k * e) = ndD L e := by
  funext i j
  simp only [ndD]
  by_cases he : e = 0
  · simp [he]
  · field_simp

theorem ndL_scale (k e : ℝ) (hk : k ≠ 0) (L : Mat3) :
    ndL (fun i j => k * L i j) (k * e) = ndL L e := by
  funext i j
  simp only [ndL]
  by_cases he : e = 0
  · simp [he]
  · field_simp

/-- in the regimes that do not read the `deformation_gradient_spin` argument the result of
`derivatives` does not depend on it -/
theorem derivatives_spin_irrelevant (regime phase fabric : Int) (hreg : regime ≠ 1)
    (A : List Mat3) (f : List ℝ) (D L s s' : Mat3) (q : DParams) :
    derivatives regime phase fabric A f D L s q = derivatives regime phase fabric A f D L s' q := by
  simp [derivatives, hreg]

theorem flatMap_smul (k : ℝ) (ad : List Mat3) :
    (ad.map (smul3 k)).flatMap mat3ToList = (ad.flatMap mat3ToList).map (k * ·) := by
  induction ad with
  | nil => rfl
  | cons a as ih =>
    simp only [List.map_cons, List.flatMap_cons, List.map_append, ih]
    congr 1

/-- without strain rate the solver's rates are linear in the velocity gradient: the rigid-body rotation rate of every grain
scales with `L`, nothing else moves (regime 1 reads the externally computed spin and is excluded) -/
theorem derivatives_zeroD_smul (regime phase fabric : Int) (hreg : regime ≠ 1) (A : List Mat3) (f : List ℝ)
    (L s s' : Mat3) (q : DParams) (k : ℝ) :
    derivatives regime phase fabric A f zero3 (fun i j => k * L i j) s' q
      = (derivatives regime phase fabric A f zero3 L s q).map (fun r => (r.1.map (smul3 k), r.2.map (k * ·))) := by
  have hdis : ∀ damp : ℝ, ∀ crss : Crss,
      dislocationRates damp crss phase A f zero3 (fun i j => k * L i j) q
        = ((dislocationRates damp crss phase A f zero3 L q).1.map (smul3 k),
           (dislocationRates damp crss phase A f zero3 L q).2.map (k * ·)) := by
    intro damp crss
    simp only [dislocationRates_zeroD, List.map_map, List.map_zipWith, mul_zero]
    congr 1
    apply List.map_congr_left; intro a _
    simp only [Function.comp, noSlipRotation_smul]
    funext i j; simp only [smul3]; ring
  by_cases h07 : regime = 0 ∨ regime = 7
  · rw [null_regimes_zero _ _ _ h07, null_regimes_zero _ _ _ h07]
    simp only [Except.map, List.map_map]
    congr 2
    · apply List.map_congr_left; intro a _; funext i j; simp [smul3, zero3]
    · apply List.map_congr_left; intro a _; simp
  by_cases h235 : regime = 2 ∨ regime = 3 ∨ regime = 5
  · rw [unsupported_rejected _ _ _ h235, unsupported_rejected _ _ _ h235]; rfl
  by_cases h4 : regime = 4
  · simp only [derivatives, if_neg h07, if_neg hreg, if_neg h235, if_pos h4]
    cases hc : getCrss phase fabric with
    | error e => simp only; split_ifs <;> rfl
    | ok crss => simp only [hdis, Except.map]
  by_cases h6 : regime = 6
  · simp only [derivatives, if_neg h07, if_neg hreg, if_neg h235, if_neg h4, if_pos h6]
    cases hc : getCrss phase fabric with
    | error e => simp only; split_ifs <;> rfl
    | ok crss => simp only [hdis, Except.map]
  · simp only [derivatives, if_neg h07, if_neg hreg, if_neg h235, if_neg h4, if_neg h6]; rfl

/-- **`eval_rhs` is homogeneous of degree one in L**, accepted or rejected alike: multiplying L by `k ≠ 0` (the largest
principal strain rate scales by `k`, the externally computed spin may change arbitrarily) multiplies every component of
the rate vector by `k` and leaves an error the same error.  Regime 1 (`matrix_diffusion`) is excluded: there the rate is
`spin · emax`, which is of degree two.  `hsym` is the spectral fact about the external `eigvalsh` that the model does not
contain: the largest |principal strain rate| vanishes only when the strain rate does. -/
theorem rhs_scale (phase fabric : Int) (n : ℕ) (mp : MParams) (env : RhsEnv) (y : List ℝ)
    (k : ℝ) (hk : k ≠ 0) (hreg : env.regime ≠ 1) (spin' : Mat3)
    (hsym : env.emax = 0 → ∀ i j, env.L i j + env.L j i = 0) :
    evalRhs phase fabric n mp { scaleEnv k env with spin := spin' } y
      = (evalRhs phase fabric n mp env y).map (fun out => out.map (k * ·)) := by
  unfold evalRhs
  cases hl : lookupFraction mp.assemblage mp.fractions phase with
  | error e => rfl
  | ok phi =>
    simp only [scaleEnv, Req_iff, Mat3.memo_eq]
    by_cases he : env.emax = 0
    · have hs := hsym he
      have hD1 : (fun i j => (env.L i j + env.L j i) / 2 / (1:ℝ)) = zero3 := by
        funext i j; simp [hs i j, zero3]
      have hD2 : (fun i j => (k * env.L i j + k * env.L j i) / 2 / (1:ℝ)) = zero3 := by
        funext i j
        have : k * env.L i j + k * env.L j i = k * (env.L i j + env.L j i) := by ring
        simp [this, hs i j, zero3]
      have hL1 : (fun i j => env.L i j / (1:ℝ)) = env.L := by funext i j; simp
      have hL2 : (fun i j => k * env.L i j / (1:ℝ)) = fun i j => k * env.L i j := by funext i j; simp
      simp only [he, mul_zero, if_true, hD1, hD2, hL1, hL2]
      rw [derivatives_zeroD_smul env.regime phase fabric hreg _ _ env.L env.spin spin' _ k]
      cases derivatives env.regime phase fabric (extractVars n y).2.A (extractVars n y).2.f zero3 env.L env.spin
          ⟨mp.p, mp.n, mp.lam, mp.M, phi⟩ with
      | error er => rfl
      | ok r =>
        obtain ⟨ad, fd⟩ := r
        simp only [Except.map, mmul_smul_left, mat3ToList_smul, List.map_append, List.map_map, flatMap_smul, mul_one,
          Function.comp_def]
    · have hke : k * env.emax ≠ 0 := mul_ne_zero hk he
      have e1 := ndD_scale k env.emax hk env.L
      have e2 := ndL_scale k env.emax hk env.L
      unfold ndD at e1
      unfold ndL at e2
      simp only [he, hke, if_false]
      rw [e1, e2, derivatives_spin_irrelevant _ _ _ hreg _ _ _ _ spin' env.spin]
      cases derivatives env.regime phase fabric (extractVars n y).2.A (extractVars n y).2.f
          (fun i j => (env.L i j + env.L j i) / 2 / env.emax) (fun i j => env.L i j / env.emax) env.spin
          ⟨mp.p, mp.n, mp.lam, mp.M, phi⟩ with
      | error er => rfl
      | ok r =>
        obtain ⟨ad, fd⟩ := r
        have hfun : (fun x : ℝ => x * (k * env.emax)) = (fun x => k * x) ∘ fun x => x * env.emax := by
          funext x; simp only [Function.comp]; ring
        simp only [Except.map, mmul_smul_left, mat3ToList_smul, List.map_append, List.map_map, hfun]

theorem rhs_homogeneous (phase fabric : Int) (n : ℕ) (mp : MParams) (env : RhsEnv) (y out : List ℝ)
    (k : ℝ) (hk : k ≠ 0) (hreg : env.regime ≠ 1) (spin' : Mat3)
    (hsym : env.emax = 0 → ∀ i j, env.L i j + env.L j i = 0)
    (h : evalRhs phase fabric n mp env y = .ok out) :
    evalRhs phase fabric n mp { scaleEnv k env with spin := spin' } y = .ok (out.map (k * ·)) := by
  rw [rhs_scale phase fabric n mp env y k hk hreg spin' hsym, h]; rfl

/-- an error stays the same error: rejection does not depend on the rate either -/
theorem rhs_error_homogeneous (phase fabric : Int) (n : ℕ) (mp : MParams) (env : RhsEnv) (y : List ℝ)
    (k : ℝ) (hk : k ≠ 0) (hreg : env.regime ≠ 1) (spin' : Mat3) (e : Err)
    (hsym : env.emax = 0 → ∀ i j, env.L i j + env.L j i = 0)
    (h : evalRhs phase fabric n mp env y = .error e) :
    evalRhs phase fabric n mp { scaleEnv k env with spin := spin' } y = .error e := by
  rw [rhs_scale phase fabric n mp env y k hk hreg spin' hsym, h]; rfl

/-! ### every one-step scheme: explicit Euler and general explicit Runge–Kutta -/

/-- `y + h • v` on flat vectors -/
noncomputable def axpy (h : ℝ) (v y : List ℝ) : List ℝ := List.zipWith (fun yi vi => yi + h * vi) y v

theorem axpy_scale (h k : ℝ) (hk : k ≠ 0) (v y : List ℝ) :
    axpy (h / k) (v.map (k * ·)) y = axpy h v y := by
  unfold axpy
  rw [List.zipWith_map_right]
  congr 1; funext yi vi; field_simp

/-- one explicit Euler step followed by the post-processing `post` (which sees neither L nor t) -/
noncomputable def eulerStep (rhs : List ℝ → List ℝ) (post : List ℝ → List ℝ) (h : ℝ) (y : List ℝ) : List ℝ :=
  post (axpy h (rhs y) y)

/-- run a list of step sizes -/
noncomputable def runSteps (step : ℝ → List ℝ → List ℝ) : List ℝ → List ℝ → List ℝ
  | [], y => y
  | h :: hs, y => runSteps step hs (step h y)

/-- **rate invariance of the integrated state for explicit Euler**: if the right-hand side of the
fast history is `k` times that of the slow one (which `rhs_homogeneous` provides) and every step
is divided by `k`, the sequence of states is identical. -/
theorem euler_rate_invariant (rhs : List ℝ → List ℝ) (post : List ℝ → List ℝ) (k : ℝ) (hk : k ≠ 0)
    (hs : List ℝ) (y : List ℝ) :
    runSteps (eulerStep (fun z => (rhs z).map (k * ·)) post) (hs.map (· / k)) y
      = runSteps (eulerStep rhs post) hs y := by
  induction hs generalizing y with
  | nil => rfl
  | cons h hs ih =>
    simp only [List.map_cons, runSteps, eulerStep, axpy_scale h k hk]
    exact ih _

/-- stage values of an explicit Runge–Kutta method with strictly lower-triangular tableau `a`
(row `i` lists the coefficients of the earlier stages), evaluated recursively -/
noncomputable def rkStages (rhs : List ℝ → List ℝ) (h : ℝ) (y : List ℝ) : List (List ℝ) → List (List ℝ)
  | [] => []
  | row :: rows =>
    let ks := rkStages rhs h y rows      -- stages computed so far (tableau given last-row-first)
    let yi := (List.zip row ks).foldl (fun acc p => axpy (h * p.1) p.2 acc) y
    ks ++ [rhs yi]

noncomputable def rkStep (a : List (List ℝ)) (b : List ℝ) (rhs : List ℝ → List ℝ) (post : List ℝ → List ℝ)
    (h : ℝ) (y : List ℝ) : List ℝ :=
  post ((List.zip b (rkStages rhs h y a)).foldl (fun acc p => axpy (h * p.1) p.2 acc) y)

theorem fold_axpy_scale (k h : ℝ) (hk : k ≠ 0) (cs : List ℝ) (ks : List (List ℝ)) (y : List ℝ) :
    (List.zip cs (ks.map (fun v => v.map (k * ·)))).foldl (fun acc p => axpy (h / k * p.1) p.2 acc) y
      = (List.zip cs ks).foldl (fun acc p => axpy (h * p.1) p.2 acc) y := by
  induction cs generalizing ks y with
  | nil => simp
  | cons c cs ih =>
    cases ks with
    | nil => simp
    | cons v vs =>
      simp only [List.map_cons, List.zip_cons_cons, List.foldl_cons]
      have : axpy (h / k * c) (v.map (k * ·)) y = axpy (h * c) v y := by
        have := axpy_scale (h * c) k hk v y
        rw [← this]; congr 1; field_simp
      rw [this]
      exact ih vs _

theorem rkStages_scale (rhs : List ℝ → List ℝ) (k h : ℝ) (hk : k ≠ 0) (y : List ℝ) (a : List (List ℝ)) :
    rkStages (fun z => (rhs z).map (k * ·)) (h / k) y a
      = (rkStages rhs h y a).map (fun v => v.map (k * ·)) := by
  induction a with
  | nil => rfl
  | cons row rows ih =>
    simp only [rkStages, ih, List.map_append, List.map_cons, List.map_nil]
    rw [fold_axpy_scale k h hk]

/-- **rate invariance for every explicit Runge–Kutta scheme** (arbitrary tableau `a`, weights `b`) -/
theorem rk_rate_invariant (a : List (List ℝ)) (b : List ℝ) (rhs : List ℝ → List ℝ) (post : List ℝ → List ℝ)
    (k : ℝ) (hk : k ≠ 0) (hs : List ℝ) (y : List ℝ) :
    runSteps (rkStep a b (fun z => (rhs z).map (k * ·)) post) (hs.map (· / k)) y
      = runSteps (rkStep a b rhs post) hs y := by
  induction hs generalizing y with
  | nil => rfl
  | cons h hs ih =>
    simp only [List.map_cons, runSteps, rkStep, rkStages_scale rhs k h hk, fold_axpy_scale k h hk]
    exact ih _

/-- `perform_step`'s post-processing reads neither the velocity gradient nor the time -/
theorem post_rate_free (chi : ℝ) (n : ℕ) (prev : List Mat3) :
    ∃ post : List ℝ → List ℝ, ∀ y, postStep chi n prev y = post y :=
  ⟨postStep chi n prev, fun _ => rfl⟩

end ModelR
