/-! Discrete part of `geometry.poles`: how the reference-axes string selects the three output
components (K39).  Mathlib-free (linked into the driver).

```python
_ref_axes = ref_axes.lower()
upward_axes = (set("xyz") - set(_ref_axes)).pop()
axes_map = {"x": 0, "y": 1, "z": 2}
...
zvals = directions[:, axes_map[upward_axes]]
yvals = directions[:, axes_map[_ref_axes[1]]]
xvals = directions[:, axes_map[_ref_axes[0]]]
```
-/
namespace ModelD.RefAxes

/-- Python exception classes raised by the string handling of `poles` -/
inductive Err where
  | keyError    -- `pop from an empty set`, or a letter outside "xyz"
  | indexError  -- fewer than two characters
  deriving DecidableEq, Repr

def axesMap (c : Char) : Option (Fin 3) :=
  if c = 'x' then some 0 else if c = 'y' then some 1 else if c = 'z' then some 2 else none

/-- indices `(ix, iy, iz)` into the direction vector used for `(xvals, yvals, zvals)`, from the
characters of `ref_axes.lower()`.
`iz = none` when more than one of `x, y, z` is absent from the string: `set.pop()` then returns an
arbitrary element (hash-order dependent in CPython), which the model leaves unspecified.
The order of the checks follows the order of evaluation of the Python statements. -/
def resolveChars (cs : List Char) : Except Err (Fin 3 × Fin 3 × Option (Fin 3)) :=
  let left := ['x', 'y', 'z'].filter fun c => !cs.contains c
  match left with
  | [] => .error .keyError
  | u :: rest =>
    let iz := if rest.isEmpty then axesMap u else none
    match cs with
    | c0 :: c1 :: _ =>
      match axesMap c1 with
      | none => .error .keyError
      | some iy =>
        match axesMap c0 with
        | none => .error .keyError
        | some ix => .ok (ix, iy, iz)
    | _ => .error .indexError

/-- `str.lower()` on the ASCII range -/
def lowerChars (cs : List Char) : List Char := cs.map Char.toLower

def resolve (refAxes : String) : Except Err (Fin 3 × Fin 3 × Option (Fin 3)) :=
  resolveChars (lowerChars refAxes.toList)

/-- the six strings the documentation allows (two distinct letters of "xyz") -/
def valid : List String := ["xy", "xz", "yx", "yz", "zx", "zy"]

end ModelD.RefAxes
