/-! `Mineral.save` / `Mineral.load` / `Mineral.from_file` (K32) over a model of NPZ archives.

* Strings (file names, postfixes, archive member names) are `List Char`.
* An array is its shape and its flat contents as 64-bit tokens (IEEE bit patterns for float64
  data, the integer values for the uint8 `meta` array). `np.save`/`np.load` of one array is the
  trusted codec (identity on these tokens; bitwise round trips are checked by the harness).
* `np.stack` / `list(array)` are modelled concretely (`stack`, `unstack`).
* An archive is the ordered list of ZIP members `(name, array)`; names may repeat (ZIP append
  mode writes a second member with the same name). `lookup` is `NpzFile.__getitem__` of
  numpy 2.x: an exact member name wins, otherwise a member whose name minus a trailing ".npy"
  equals the key; among equal names the last written member is the one `ZipFile.open` returns.
* `zipName` is what `zipfile.ZipInfo` does to a member name: it is cut at the first NUL.
* The file system is a list `(file name, archive)`; an operation returns the new file system
  and `Except Err _`, so "nothing was written" is the statement that the first component is
  unchanged.

The model follows the code in /repo **after** the two repairs made for C17
(`load` sets `n_grains`; `save` rejects non-".npz" names like the two loaders do).
`loadPinned` / `savePinned` keep the pinned behaviour for the witnesses. -/
namespace ModelD.Npz

abbrev Str := List Char

inductive Err where
  | valueError | keyError | indexError | typeError | overflowError | fileNotFound
  deriving DecidableEq, Repr

structure Arr where
  shape : List Nat
  data : List UInt64
  deriving DecidableEq, Repr

/-- contents consistent with the shape -/
def Arr.WF (a : Arr) : Prop := a.data.length = a.shape.prod

structure Mineral where
  phase : Nat
  fabric : Nat
  regime : Nat
  nGrains : Nat
  fractions : List Arr
  orientations : List Arr
  deriving DecidableEq, Repr

abbrev Archive := List (Str × Arr)
abbrev FS := List (Str × Archive)

/-! ### names -/
def kMeta : Str := ['m', 'e', 't', 'a']
def kFractions : Str := ['f', 'r', 'a', 'c', 't', 'i', 'o', 'n', 's']
def kOrientations : Str := ['o', 'r', 'i', 'e', 'n', 't', 'a', 't', 'i', 'o', 'n', 's']
def dotNpy : Str := ['.', 'n', 'p', 'y']
def dotNpz : Str := ['.', 'n', 'p', 'z']

/-- `f"{key}_{postfix}"` -/
def keyOf (k : Str) (pf : Option Str) : Str :=
  match pf with
  | none => k
  | some p => k ++ '_' :: p

/-- `zipfile.ZipInfo(filename)`: the name is terminated at the first NUL character -/
def zipName (s : Str) : Str := s.takeWhile (· ≠ Char.ofNat 0)

def isNpzName (s : Str) : Bool := dotNpz.isSuffixOf s

/-! ### archives -/
/-- last member with exactly this name (`ZipFile.open(name)`: `NameToInfo` keeps the last) -/
def lastNamed (ar : Archive) (name : Str) : Option Arr :=
  match ar with
  | [] => none
  | (n, a) :: rest =>
    match lastNamed rest name with
    | some b => some b
    | none => if n = name then some a else none

/-- `NpzFile.__getitem__(key)` -/
def lookup (ar : Archive) (key : Str) : Option Arr :=
  match lastNamed ar key with
  | some a => some a
  | none => lastNamed ar (key ++ dotNpy)

/-! ### file system -/
def fsGet (fs : FS) (name : Str) : Option Archive :=
  match fs with
  | [] => none
  | (n, ar) :: rest => if n = name then some ar else fsGet rest name

def fsPut (fs : FS) (name : Str) (ar : Archive) : FS :=
  (name, ar) :: fs.filter (fun e => e.1 ≠ name)

/-! ### numpy pieces -/
/-- `np.stack(list)`: all arrays must have the same shape (and there must be at least one) -/
def stack (l : List Arr) : Except Err Arr :=
  match l with
  | [] => .error .valueError
  | a :: rest =>
    if rest.all (fun b => b.shape = a.shape) then
      .ok ⟨l.length :: a.shape, l.flatMap (·.data)⟩
    else .error .valueError

def chunks : Nat → Nat → List UInt64 → List (List UInt64)
  | 0, _, _ => []
  | k + 1, size, d => d.take size :: chunks k size (d.drop size)

/-- `list(array)`: iteration over the first axis (a 0-d array cannot be iterated) -/
def unstack (a : Arr) : Except Err (List Arr) :=
  match a.shape with
  | [] => .error .typeError
  | k :: rest => .ok ((chunks k rest.prod a.data).map (fun d => ⟨rest, d⟩))

/-- `np.array([phase, fabric, regime], dtype=np.uint8)` (numpy 2: out-of-range Python ints raise) -/
def mkMeta (m : Mineral) : Except Err Arr :=
  if m.phase < 256 ∧ m.fabric < 256 ∧ m.regime < 256 then
    .ok ⟨[3], [UInt64.ofNat m.phase, UInt64.ofNat m.fabric, UInt64.ofNat m.regime]⟩
  else .error .overflowError

/-- `arr.shape[0]` -/
def dim0 (a : Arr) : Except Err Nat :=
  match a.shape with
  | [] => .error .indexError
  | k :: _ => .ok k

/-! ### `Mineral.save` -/
/-- the checks and the construction of `data` (everything that happens before the first write):
returns the three arrays `meta, fractions, orientations`. -/
def saveData (m : Mineral) : Except Err (Arr × Arr × Arr) := do
  if m.fractions.length ≠ m.orientations.length then throw .valueError
  match m.fractions, m.orientations with
  | f0 :: _, o0 :: _ =>
    let nf ← dim0 f0
    let no ← dim0 o0
    if nf = no ∧ no = m.nGrains then
      let mt ← mkMeta m
      let F ← stack m.fractions
      let O ← stack m.orientations
      pure (mt, F, O)
    else throw .valueError
  | _, _ => throw .indexError   -- `self.fractions[0]` on an empty list

/-- the write: `np.savez(filename, **data)` replaces the file by the three un-suffixed members
(`savez` appends ".npz" to other names); the `ZipFile(filename, mode="a")` path appends three
members named `key_postfix` to the (possibly new) archive. -/
def writeData (fs : FS) (filename : Str) (pf : Option Str) (d : Arr × Arr × Arr) : FS :=
  match pf with
  | none =>
    let name := if isNpzName filename then filename else filename ++ dotNpz
    fsPut fs name [(kMeta ++ dotNpy, d.1), (kFractions ++ dotNpy, d.2.1), (kOrientations ++ dotNpy, d.2.2)]
  | some p =>
    let ar := (fsGet fs filename).getD []
    fsPut fs filename (ar ++ [(zipName (keyOf kMeta (some p)), d.1),
                              (zipName (keyOf kFractions (some p)), d.2.1),
                              (zipName (keyOf kOrientations (some p)), d.2.2)])

/-- `Mineral.save` as pinned (no file-name check) -/
def savePinned (fs : FS) (m : Mineral) (filename : Str) (pf : Option Str) : FS × Except Err Unit :=
  match saveData m with
  | .error e => (fs, .error e)
  | .ok d => (writeData fs filename pf d, .ok ())

/-- `Mineral.save` (repaired: non-".npz" names are rejected first) -/
def save (fs : FS) (m : Mineral) (filename : Str) (pf : Option Str) : FS × Except Err Unit :=
  if ¬ isNpzName filename then (fs, .error .valueError) else savePinned fs m filename pf

/-! ### loaders -/
/-- the part shared by `load` and `from_file`: name check, `np.load`, the three lookups,
positional unpacking of `meta`, `list(...)` of the two stacks. -/
def readData (fs : FS) (filename : Str) (pf : Option Str) :
    Except Err (Nat × Nat × Nat × List Arr × List Arr) := do
  if ¬ isNpzName filename then throw .valueError
  let ar ← match fsGet fs filename with
    | some ar => pure ar
    | none => throw .fileNotFound
  let get (k : Str) : Except Err Arr :=
    match lookup ar (keyOf k pf) with
    | some a => pure a
    | none => throw .keyError
  let mt ← get kMeta
  let (p, f, r) ← match mt.shape, mt.data with
    | [3], [p, f, r] => pure (p.toNat, f.toNat, r.toNat)
    | [], _ => throw .typeError       -- cannot unpack a 0-d array
    | _, _ => throw .valueError       -- wrong number of values to unpack
  let F ← get kFractions
  let fr ← unstack F
  let O ← get kOrientations
  let ors ← unstack O
  pure (p, f, r, fr, ors)

/-- `len(fractions[0])` -/
def len0 (l : List Arr) : Except Err Nat :=
  match l with
  | [] => .error .indexError
  | a :: _ => match a.shape with
    | [] => .error .typeError
    | k :: _ => .ok k

/-- `Mineral.from_file` -/
def fromFile (fs : FS) (filename : Str) (pf : Option Str) : Except Err Mineral := do
  let (p, f, r, fr, ors) ← readData fs filename pf
  let n ← len0 fr
  if ors.isEmpty then throw .indexError   -- `orientations[0]`
  pure ⟨p, f, r, n, fr, ors⟩

/-- `Mineral.load` as pinned: `n_grains` of the receiving object is left as it was -/
def loadPinned (fs : FS) (target : Mineral) (filename : Str) (pf : Option Str) : Except Err Mineral := do
  let (p, f, r, fr, ors) ← readData fs filename pf
  if fr.isEmpty ∨ ors.isEmpty then throw .indexError   -- `self.orientations[0]`, `self.fractions[0]`
  pure { target with phase := p, fabric := f, regime := r, fractions := fr, orientations := ors }

/-- `Mineral.load` (repaired: `self.n_grains = len(self.fractions[0])`) -/
def load (fs : FS) (target : Mineral) (filename : Str) (pf : Option Str) : Except Err Mineral := do
  let (p, f, r, fr, ors) ← readData fs filename pf
  let n ← len0 fr
  if ors.isEmpty then throw .indexError
  pure { target with phase := p, fabric := f, regime := r, nGrains := n, fractions := fr, orientations := ors }

/-! ### sequences of saves -/
/-- save the minerals one after the other under the given postfixes (stops at the first error) -/
def saveAll (fs : FS) (filename : Str) : List (Option Str × Mineral) → FS × Except Err Unit
  | [] => (fs, .ok ())
  | (p, m) :: rest =>
    match save fs m filename p with
    | (fs', .ok ()) => saveAll fs' filename rest
    | (fs', .error e) => (fs', .error e)

/-- a mineral in a consistent state: what `save` accepts and what the round trip preserves -/
structure Valid (m : Mineral) : Prop where
  count : m.fractions.length = m.orientations.length
  nonempty : m.fractions ≠ []
  fshape : ∀ a ∈ m.fractions, a.shape = [m.nGrains] ∧ a.WF
  oshape : ∀ a ∈ m.orientations, a.shape = [m.nGrains, 3, 3] ∧ a.WF
  small : m.phase < 256 ∧ m.fabric < 256 ∧ m.regime < 256

end ModelD.Npz
