/-! `core.DefaultParams` and the presets of `pydrex.mock` (K36): a small explicit model of the
Python semantics that decide what a preset *is*.

* a class body = ordered annotated assignments `name: T = v` + un-annotated assignments `name = v`;
* `@dataclass` on a class collects the fields of its bases (through `__dataclass_fields__`,
  found by ordinary attribute lookup, i.e. inherited) and then its **own annotated** names:
  an existing name keeps its position and gets the new default, a new name is appended.
  Un-annotated assignments never become fields. A class **without** the decorator gets no new
  `__dataclass_fields__` and no new `__init__`: both are inherited from the nearest decorated base;
* the generated `__init__` stores, for every field of the class it was generated for, the keyword
  argument or that class's default as an **instance** attribute, then calls `__post_init__`;
* attribute lookup on an instance: instance dictionary first, then the classes along the MRO
  (annotated defaults and un-annotated assignments are both class attributes);
* `DefaultParams.__post_init__` raises `ValueError` unless for every field
  `field.type is type(field.default)` (it looks at the *default*, not at the stored value);
* `as_dict` = `dataclasses.asdict`: the fields in order with `getattr(instance, name)`;
* `frozen=True`: the generated `__setattr__` raises `FrozenInstanceError` when
  `type(self) is cls or name in fields`; the generated `__hash__` hashes the tuple of field values.

Values: scalars (`int`, `float` by its `repr`, enum members by ordinal) and flat tuples/lists of
scalars — all that occurs in the parameter record. Only single inheritance is needed. -/
namespace ModelD.Params

inductive Scalar where
  | int (i : Int)
  | float (repr : String)
  | phase (ord : Nat)      -- `MineralPhase` member
  | fabric (ord : Nat)     -- `MineralFabric` member
  | str (s : String)
  | bool (b : Bool)
  deriving DecidableEq, Repr

inductive PyVal where
  | sc (s : Scalar)
  | tuple (xs : List Scalar)
  | list (xs : List Scalar)
  deriving DecidableEq, Repr

/-- `type(v).__name__` -/
def typeName : PyVal → String
  | .sc (.int _) => "int"
  | .sc (.float _) => "float"
  | .sc (.phase _) => "MineralPhase"
  | .sc (.fabric _) => "MineralFabric"
  | .sc (.str _) => "str"
  | .sc (.bool _) => "bool"
  | .tuple _ => "tuple"
  | .list _ => "list"

/-- `isinstance(v, Hashable)` in effect: lists are not hashable -/
def hashable : PyVal → Bool
  | .list _ => false
  | _ => true

structure Field where
  name : String
  ann : String          -- the annotation (a type name)
  default : PyVal
  deriving DecidableEq, Repr

structure ClassDef where
  name : String
  decorated : Bool                       -- `@dataclass(frozen=True)` applied to this class
  annotated : List Field                 -- `name: T = v` in the class body, in order
  plain : List (String × PyVal)          -- `name = v` in the class body
  deriving DecidableEq, Repr

/-- a class together with its bases, most derived first (the MRO of a single-inheritance chain;
`object` omitted) -/
abbrev Cls := List ClassDef

inductive Err where
  | valueError | typeError | frozenInstanceError | attributeError
  deriving DecidableEq, Repr

/-- add/replace one field: an existing name keeps its position -/
def setField (fs : List Field) (f : Field) : List Field :=
  if fs.any (·.name == f.name) then fs.map (fun g => if g.name == f.name then f else g) else fs ++ [f]

/-- `cls.__dataclass_fields__` (as seen by attribute lookup on the class) -/
def fieldsOf : Cls → List Field
  | [] => []
  | c :: bases => if c.decorated then c.annotated.foldl setField (fieldsOf bases) else fieldsOf bases

/-- the class whose generated `__init__` / `__setattr__` is found first along the MRO -/
def initOwner : Cls → Cls
  | [] => []
  | c :: bases => if c.decorated then c :: bases else initOwner bases

/-- class attribute lookup along the MRO -/
def classAttr : Cls → String → Option PyVal
  | [], _ => none
  | c :: bases, n =>
    match c.plain.reverse.lookup n with     -- a later assignment in the body wins
    | some v => some v
    | none =>
      match (c.annotated.reverse.find? (·.name == n)) with
      | some f => some f.default
      | none => classAttr bases n

structure Instance where
  cls : Cls
  attrs : List (String × PyVal)          -- the instance dictionary
  deriving DecidableEq, Repr

/-- `__post_init__` of `DefaultParams` (inherited by every subclass) -/
def postInitOk (cls : Cls) : Bool := (fieldsOf cls).all (fun f => f.ann == typeName f.default)

/-- `Cls(**kwargs)` -/
def instantiate (cls : Cls) (kwargs : List (String × PyVal)) : Except Err Instance :=
  let fs := fieldsOf (initOwner cls)
  if kwargs.any (fun kv => !(fs.any (·.name == kv.1))) then .error .typeError   -- unexpected keyword argument
  else
    let attrs := fs.map (fun f => (f.name, (kwargs.lookup f.name).getD f.default))
    if postInitOk cls then .ok ⟨cls, attrs⟩ else .error .valueError

/-- `getattr(instance, name)` -/
def getattr (i : Instance) (n : String) : Option PyVal :=
  match i.attrs.lookup n with
  | some v => some v
  | none => classAttr i.cls n

/-- `instance.as_dict()` (`dataclasses.asdict`) -/
def asDict (i : Instance) : List (String × Option PyVal) :=
  (fieldsOf i.cls).map (fun f => (f.name, getattr i f.name))

/-- `setattr(instance, name, v)` under the frozen dataclass `__setattr__` -/
def setattr (i : Instance) (n : String) (v : PyVal) : Except Err Instance :=
  match initOwner i.cls with
  | [] => .ok { i with attrs := (n, v) :: i.attrs }
  | owner =>
    if i.cls = owner ∨ (fieldsOf owner).any (·.name == n) then .error .frozenInstanceError
    else .ok { i with attrs := (n, v) :: i.attrs }

/-- `hash(instance)`: defined iff every field value is hashable -/
def hashOk (i : Instance) : Bool :=
  (fieldsOf (initOwner i.cls)).all (fun f => match getattr i f.name with | some v => hashable v | none => false)

/-! ### the tables -/
def fl (s : String) : PyVal := .sc (.float s)
def nat (n : Nat) : PyVal := .sc (.int n)

/-- `core.DefaultParams` -/
def defaultParams : ClassDef :=
  { name := "DefaultParams", decorated := true, plain := [],
    annotated := [
      ⟨"phase_assemblage", "tuple", .tuple [.phase 0]⟩,
      ⟨"phase_fractions", "tuple", .tuple [.float "1.0"]⟩,
      ⟨"stress_exponent", "float", fl "1.5"⟩,
      ⟨"deformation_exponent", "float", fl "3.5"⟩,
      ⟨"gbm_mobility", "int", nat 125⟩,
      ⟨"gbs_threshold", "float", fl "0.3"⟩,
      ⟨"nucleation_efficiency", "float", fl "5.0"⟩,
      ⟨"number_of_grains", "int", nat 3500⟩,
      ⟨"initial_olivine_fabric", "MineralFabric", .sc (.fabric 0)⟩,
      ⟨"disl_Peierls_stress", "float", fl "2.0"⟩,
      ⟨"disl_prefactors", "tuple", .tuple [.float "1e-16", .float "1e-17"]⟩,
      ⟨"diff_prefactors", "tuple", .tuple [.float "1e-10", .float "1e-10"]⟩,
      ⟨"disl_lowtemp_switch", "float", fl "0.7"⟩,
      ⟨"disl_activation_energy", "float", fl "460.0"⟩,
      ⟨"disl_activation_volume", "float", fl "12.0"⟩,
      ⟨"diff_activation_energies", "tuple", .tuple [.float "430.0", .int 330]⟩,
      ⟨"diff_activation_volumes", "tuple", .tuple [.float "4.0", .float "4.0"]⟩,
      ⟨"disl_coefficients", "tuple", .tuple [.float "440000000.0", .float "-52600.0", .float "0.0211",
          .float "0.000174", .float "-41.8", .float "0.0421", .float "-1.14e-05"]⟩ ] }

/-- the nine names every preset assigns, with the given values -/
def presetBody (assemblage fractions : List Scalar) (mob : Nat) (gbs : String) (n : Nat) : List Field := [
  ⟨"phase_assemblage", "tuple", .tuple assemblage⟩,
  ⟨"phase_fractions", "tuple", .tuple fractions⟩,
  ⟨"initial_olivine_fabric", "MineralFabric", .sc (.fabric 0)⟩,
  ⟨"stress_exponent", "float", fl "1.5"⟩,
  ⟨"deformation_exponent", "float", fl "3.5"⟩,
  ⟨"gbm_mobility", "int", nat mob⟩,
  ⟨"gbs_threshold", "float", fl gbs⟩,
  ⟨"nucleation_efficiency", "float", fl "5.0"⟩,
  ⟨"number_of_grains", "int", nat n⟩ ]

def twoPhase : List Scalar := [.phase 0, .phase 1]
def onePhase : List Scalar := [.phase 0]

/-- the presets of `pydrex.mock` as they are in /repo now (repaired: decorated, annotated, values
of exactly the annotated type) -/
def presets : List ClassDef := [
  ⟨"ParamsFraters2021", true, presetBody twoPhase [.float "0.7", .float "0.3"] 125 "0.3" 5000, []⟩,
  ⟨"ParamsKaminski2001_Fig5Solid", true, presetBody onePhase [.float "1.0"] 0 "0.0" 3375, []⟩,
  ⟨"ParamsKaminski2001_Fig5ShortDash", true, presetBody onePhase [.float "1.0"] 50 "0.0" 3375, []⟩,
  ⟨"ParamsKaminski2001_Fig5LongDash", true, presetBody onePhase [.float "1.0"] 200 "0.0" 3375, []⟩,
  ⟨"ParamsKaminski2004_Fig4Triangles", true, presetBody onePhase [.float "1.0"] 125 "0.4" 4394, []⟩,
  ⟨"ParamsKaminski2004_Fig4Squares", true, presetBody onePhase [.float "1.0"] 125 "0.2" 4394, []⟩,
  ⟨"ParamsKaminski2004_Fig4Circles", true, presetBody onePhase [.float "1.0"] 125 "0.0" 4394, []⟩,
  ⟨"ParamsHedjazian2017", true, presetBody twoPhase [.float "0.7", .float "0.3"] 10 "0.2" 2197, []⟩ ]

/-- what a preset declares: the assignments of its own class body -/
def declared (c : ClassDef) : List (String × PyVal) :=
  c.annotated.map (fun f => (f.name, f.default)) ++ c.plain

/-- the same preset as written in the pinned source: no decorator, no annotations, and the
literals as typed there (`gbs_threshold = 0`, `nucleation_efficiency = 5`, `phase_fractions = (1,)`) -/
def pinnedPreset (name : String) (assemblage fractions : List Scalar) (mob : Nat) (gbs : PyVal) (nuc : PyVal) (n : Nat) : ClassDef :=
  { name := name, decorated := false, annotated := [],
    plain := [("phase_assemblage", .tuple assemblage), ("phase_fractions", .tuple fractions),
      ("initial_olivine_fabric", .sc (.fabric 0)), ("stress_exponent", fl "1.5"), ("deformation_exponent", fl "3.5"),
      ("gbm_mobility", nat mob), ("gbs_threshold", gbs), ("nucleation_efficiency", nuc), ("number_of_grains", nat n)] }

def presetsPinned : List ClassDef := [
  pinnedPreset "ParamsFraters2021" twoPhase [.float "0.7", .float "0.3"] 125 (fl "0.3") (fl "5.0") 5000,
  pinnedPreset "ParamsKaminski2001_Fig5Solid" onePhase [.int 1] 0 (nat 0) (nat 5) 3375,
  pinnedPreset "ParamsKaminski2001_Fig5ShortDash" onePhase [.int 1] 50 (nat 0) (nat 5) 3375,
  pinnedPreset "ParamsKaminski2001_Fig5LongDash" onePhase [.int 1] 200 (nat 0) (nat 5) 3375,
  pinnedPreset "ParamsKaminski2004_Fig4Triangles" onePhase [.int 1] 125 (fl "0.4") (nat 5) 4394,
  pinnedPreset "ParamsKaminski2004_Fig4Squares" onePhase [.int 1] 125 (fl "0.2") (nat 5) 4394,
  pinnedPreset "ParamsKaminski2004_Fig4Circles" onePhase [.int 1] 125 (nat 0) (nat 5) 4394,
  pinnedPreset "ParamsHedjazian2017" twoPhase [.float "0.7", .float "0.3"] 10 (fl "0.2") (nat 5) 2197 ]

end ModelD.Params
