/-! `geometry.to_indices2d` (the axis-letter table used by all flows of `velocity.py`) and the
argument handling of the three constructors `simple_shear_2d`, `cell_2d`, `corner_2d`
(discrete part of K33).  Strings are lists of characters. -/
namespace ModelD.Flow

inductive Err where
  | valueError
  deriving DecidableEq, Repr

inductive Axis where
  | X | Y | Z
  deriving DecidableEq, Repr

/-- `s.upper()` followed by the comparison with the one-letter patterns "X", "Y", "Z":
which pattern (if any) the upper-cased string equals.  Python's `upper()` is Unicode aware; the
harness checks exhaustively over all code points that a string upper-cases to "X"/"Y"/"Z" only if
it is one of the six ASCII letters below (no other character maps to them and no multi-character
string shrinks to one letter). -/
def axisOf (s : List Char) : Option Axis :=
  match s with
  | [c] =>
    if c = 'x' ∨ c = 'X' then some .X
    else if c = 'y' ∨ c = 'Y' then some .Y
    else if c = 'z' ∨ c = 'Z' then some .Z
    else none
  | _ => none

/-- `geometry.to_indices2d(horizontal, vertical)`. -/
def toIndices2d (horizontal vertical : List Char) : Except Err (Nat × Nat) :=
  match axisOf horizontal, axisOf vertical with
  | some .X, some .Y => .ok (0, 1)
  | some .X, some .Z => .ok (0, 2)
  | some .Y, some .X => .ok (1, 0)
  | some .Y, some .Z => .ok (1, 2)
  | some .Z, some .X => .ok (2, 0)
  | some .Z, some .Y => .ok (2, 1)
  | _, _ => .error .valueError

/-- axis letters of an index (for the converse direction of the table) -/
def letter : Fin 3 → List Char
  | 0 => ['X'] | 1 => ['Y'] | 2 => ['Z']
def letterLower : Fin 3 → List Char
  | 0 => ['x'] | 1 => ['y'] | 2 => ['z']
def axisIndex : Axis → Fin 3
  | .X => 0 | .Y => 1 | .Z => 2

/-- the constructors `simple_shear_2d`, `corner_2d`: they catch the `ValueError` of
`to_indices2d` and raise a new `ValueError` with a message; the indices are passed on
unchanged to the kernels. -/
def flowIndices (h v : List Char) : Except Err (Nat × Nat) :=
  match toIndices2d h v with
  | .ok p => .ok p
  | .error _ => .error .valueError

/-- `cell_2d`: the `edge_length < 0` test comes first (`dNeg` = that comparison). -/
def cellIndices (dNeg : Bool) (h v : List Char) : Except Err (Nat × Nat) :=
  if dNeg then .error .valueError else flowIndices h v

end ModelD.Flow
