import ModelD.Scsv
/-! # `pydrex.io.parse_scsv_schema` – the terse one-line schema notation (C16, extension)

`d<delimiter>m<missing>:name(type:fill:unit)name2(…)…` → schema dictionary. Modelled as coded:
`str.find`, slicing, `re.split(r"\(|\)", …)`, `pop()`, `itertools.batched(…, 2)`, `str.split(":")`,
`SCSV_TERSEMAP`; every failure is the SCSV error. -/
namespace Scsv

/-- `s.find(c)`: index of the first occurrence -/
def findChar (c : Char) : Str → Option Nat
  | [] => none
  | x :: xs => if x = c then some 0 else (findChar c xs).map (· + 1)

/-- `re.split(r"\(|\)", s)` -/
def splitParens : Str → List Str
  | [] => [[]]
  | c :: cs =>
    match splitParens cs with
    | [] => [[c]]          -- unreachable: the result is never empty
    | h :: t => if c = '(' ∨ c = ')' then [] :: h :: t else (c :: h) :: t

/-- `s.split(":")` -/
def splitColon : Str → List Str
  | [] => [[]]
  | c :: cs =>
    match splitColon cs with
    | [] => [[c]]
    | h :: t => if c = ':' then [] :: h :: t else (c :: h) :: t

/-- `SCSV_TERSEMAP` -/
def terseType (s : Str) : Option Str :=
  if s = ['s'] then some "string".toList
  else if s = ['i'] then some "integer".toList
  else if s = ['f'] then some "float".toList
  else if s = ['b'] then some "boolean".toList
  else if s = ['c'] then some "complex".toList
  else none

/-- the type of a column from its code: `SCSV_TERSEMAP[_spec[0]]` unless `_spec[0] == ""` -/
def terseTypeOf (code : Str) : Except Err Str :=
  if code = [] then .ok defaultType
  else match terseType code with
    | some ty => .ok ty
    | none => .error .scsv

/-- one `name(spec)` pair -/
def terseField (name spec : Str) : Except Err Field :=
  let sp := splitColon spec
  (terseTypeOf (sp.headD [])).map fun ty =>
    ⟨some name, some ty, if sp.length = 3 then sp[2]? else none, some (.str ((sp[1]?).getD []))⟩

/-- `for name, spec in itertools.batched(raw_colspecs, 2)` (the length is even when this is called) -/
def terseFields : List Str → Except Err (List Field)
  | name :: spec :: rest => do
    let f ← terseField name spec
    let fs ← terseFields rest
    pure (f :: fs)
  | _ => .ok []

/-- `parse_scsv_schema(terse_schema)` -/
def parseTerse (s : Str) : Except Err Schema :=
  match s with
  | 'd' :: _ =>
    match findChar ':' s with
    | none => .error .scsv
    | some ic =>
      if ic < 4 then .error .scsv else
      match findChar 'm' (s.take ic) with
      | none => .error .scsv
      | some im =>
        if im < 2 then .error .scsv else
        let delimiter := (s.take im).drop 1
        let missing := (s.take ic).drop (im + 1)
        let raw := (splitParens (s.drop (ic + 1))).dropLast
        if raw.length < 2 then .error .scsv
        else if raw.length % 2 ≠ 0 then .error .scsv
        else (terseFields raw).map fun fs => ⟨some delimiter, some missing, some fs⟩
  | _ => .error .scsv

end Scsv
