import ModelD.Params
/-! `io.parse_config` and its helpers (K37) over an already TOML-decoded configuration.

The configuration is a record of optional entries (`none` = key absent). Only what the code
looks at is kept: the *kind* of a value where the code dispatches on it (`isinstance`), its
`repr` where it is passed through, presence where only `in` is tested. File reading
(`meshio.read`, `read_scsv`, `np.load`, the velocity-gradient factory) is external: the model
records which inputs are loaded and which are reset to `None`.

The numeric test `abs(sum(phase_fractions) - 1.0) > 1e-16` is a parameter `sumBad : List ρ → Bool`
(`tmpl/ConfigNum`: Float in the driver, ℝ in the theorems).

`Quirks` switches between the pinned source (all flags on) and /repo after the C19 repairs (all
flags off, `repaired`); the theorems are about `repaired`, the witnesses about `pinned`. -/
namespace ModelD.Config
open ModelD.Params (PyVal)

inductive Phase where
  | olivine | enstatite
  deriving DecidableEq, Repr

inductive Fabric where
  | olivine_A | olivine_B | olivine_C | olivine_D | olivine_E | enstatite_AB
  deriving DecidableEq, Repr

inductive Err where
  | configError | typeError | keyError | valueError
  deriving DecidableEq, Repr

/-- which pinned behaviours are active -/
structure Quirks where
  fabricConcat : Bool      -- `"olivine_" + value` without looking at the type (default is an enum member)
  outputIndexed : Bool     -- `output_opts[level]` unconditionally; defaulted `[output]` table not stored
  phaseIndexError : Bool   -- `except IndexError` around `MineralPhase(i)` (which raises ValueError)
  phaseGetattr : Bool      -- phase names resolved by `getattr(MineralPhase, name)`
  inputBuiltin : Bool      -- error message subscripts the builtin `input`
  deriving DecidableEq, Repr

def pinned : Quirks := ⟨true, true, true, true, true⟩
def repaired : Quirks := ⟨false, false, false, false, false⟩

/-- an element of `phase_assemblage` as `tomllib` delivers it -/
inductive PhaseTok where
  | str (s : String) | int (i : Int) | bool (b : Bool) | other
  deriving DecidableEq, Repr

/-- a parsed phase: an enum member or — through `getattr` on the enum class — some other
attribute of the class (`real`, `numerator`, `__doc__`, …) -/
inductive PhaseVal where
  | member (p : Phase) | classAttr (name : String)
  deriving DecidableEq, Repr

def phaseOfName : String → Option Phase
  | "olivine" => some .olivine
  | "enstatite" => some .enstatite
  | _ => none

def phaseOfOrd (i : Int) : Option Phase :=
  if i = 0 then some .olivine else if i = 1 then some .enstatite else none

/-- `getattr(MineralPhase, name)`; `attrs` = the non-member attribute names of the class that
resolve (a fact about CPython's `IntEnum`, supplied by the harness from `dir(MineralPhase)`) -/
def getattrPhase (attrs : List String) (name : String) : Option PhaseVal :=
  match phaseOfName name with
  | some p => some (.member p)
  | none => if attrs.contains name then some (.classAttr name) else none

/-- `io._parse_phase` -/
def parsePhase (q : Quirks) (attrs : List String) : PhaseTok → Except Err PhaseVal
  | .str s =>
    if q.phaseGetattr then
      match getattrPhase attrs s with
      | some v => .ok v
      | none => .error .configError
    else
      match phaseOfName s with
      | some p => .ok (.member p)
      | none => .error .configError
  | .bool b => .ok (.member (if b then .enstatite else .olivine))   -- `isinstance(True, int)`; `MineralPhase(True)`
  | .int i =>
    match phaseOfOrd i with
    | some p => .ok (.member p)
    | none => if q.phaseIndexError then .error .valueError else .error .configError
  | .other => .error .configError

def parsePhases (q : Quirks) (attrs : List String) : List PhaseTok → Except Err (List PhaseVal)
  | [] => .ok []
  | t :: ts =>
    match parsePhase q attrs t with
    | .error e => .error e
    | .ok v =>
      match parsePhases q attrs ts with
      | .error e => .error e
      | .ok vs => .ok (v :: vs)

/-- value of `initial_olivine_fabric` as delivered -/
inductive FabTok where
  | str (s : String) | other
  deriving DecidableEq, Repr

def fabricOfLetter : String → Option Fabric
  | "A" => some .olivine_A | "B" => some .olivine_B | "C" => some .olivine_C
  | "D" => some .olivine_D | "E" => some .olivine_E | _ => none

def parseFabric (q : Quirks) : Option FabTok → Except Err Fabric
  | none => if q.fabricConcat then .error .typeError else .ok .olivine_A   -- default: enum member
  | some (.str s) =>
    match fabricOfLetter s with
    | some f => .ok f
    | none => .error .configError
  | some .other => if q.fabricConcat then .error .typeError else .error .configError

/-- a parameter value in the result: the default of `DefaultParams().as_dict()` or what the file gave -/
inductive PVal where
  | default (v : Option PyVal) | given (repr : String)
  deriving DecidableEq, Repr

structure ParamsIn (ρ : Type) where
  assemblage : Option (List PhaseTok)
  fractions : Option (List ρ)
  fabric : Option FabTok
  coeffLen : Option Nat                      -- `len(disl_coefficients)` when the key is given
  passthrough : List (String × String)       -- the other parameters that are given: key ↦ repr

structure ParamsOut (ρ : Type) where
  assemblage : List PhaseVal
  fractions : Option (List ρ)                -- `none` = the default `(1.0,)`
  fabric : Fabric
  coeffLen : Option Nat                      -- `none` = the default 7-tuple
  passthrough : List (String × PVal)

/-- the parameters that `_parse_config_params` only defaults and passes through -/
def passKeys : List String :=
  ["stress_exponent", "deformation_exponent", "gbm_mobility", "gbs_threshold", "nucleation_efficiency",
   "number_of_grains", "disl_Peierls_stress", "disl_prefactors", "diff_prefactors", "disl_lowtemp_switch",
   "disl_activation_energy", "disl_activation_volume", "diff_activation_energies", "diff_activation_volumes"]

/-- `DefaultParams().as_dict()[key]` through the dataclass model -/
def defaultOf (key : String) : Option PyVal :=
  match ModelD.Params.instantiate [ModelD.Params.defaultParams] [] with
  | .ok i => ((ModelD.Params.asDict i).lookup key).join
  | .error _ => none

def fracLen {ρ : Type} : Option (List ρ) → Nat
  | none => 1
  | some l => l.length

/-- the sum test on the fractions that are given (the default `(1.0,)` passes) -/
def fracBad {ρ : Type} (sumBad : List ρ → Bool) : Option (List ρ) → Bool
  | some l => sumBad l
  | none => false

/-- `len(phase_assemblage)` (default `(MineralPhase.olivine,)`) -/
def assemblageLen : Option (List PhaseTok) → Nat
  | some ts => ts.length
  | none => 1

/-- the parsed assemblage (the default is one enum member, returned unchanged by `_parse_phase`) -/
def phasesOf (q : Quirks) (attrs : List String) : Option (List PhaseTok) → Except Err (List PhaseVal)
  | none => .ok [.member .olivine]
  | some ts => parsePhases q attrs ts

def passOut (given : List (String × String)) : List (String × PVal) :=
  passKeys.map (fun k => (k, match given.lookup k with
                              | some r => .given r
                              | none => .default (defaultOf k)))

/-- `io._parse_config_params` (a missing `[parameters]` table is the record with all entries `none`) -/
def parseParams {ρ : Type} (q : Quirks) (attrs : List String) (sumBad : List ρ → Bool) (p : ParamsIn ρ) :
    Except Err (ParamsOut ρ) :=
  if fracBad sumBad p.fractions then .error .configError
  else if assemblageLen p.assemblage ≠ fracLen p.fractions then .error .configError
  else
    match phasesOf q attrs p.assemblage with
    | .error e => .error e
    | .ok phases =>
      match parseFabric q p.fabric with
      | .error e => .error e
      | .ok fabric =>
        if (p.coeffLen.getD 7) ≠ 7 then .error .configError
        else .ok { assemblage := phases, fractions := p.fractions, fabric := fabric, coeffLen := p.coeffLen,
                   passthrough := passOut p.passthrough }

/-! ### `[input]` -/
/-- `isinstance(x, float | int)` -/
inductive NumTok where
  | num (repr : String) | other
  deriving DecidableEq, Repr

structure InputIn where
  timestep : Option NumTok
  strainFinal : Option NumTok
  mesh : Bool
  velocityGradient : Bool
  paths : Bool
  locationsInitial : Bool
  locationsFinal : Bool
  deriving DecidableEq, Repr

inductive Mode where
  | mesh | velocityGradient | paths | none
  deriving DecidableEq, Repr

/-- what becomes of an `[input]` key -/
inductive KeyState where
  | absent | raw | loaded | setNone
  deriving DecidableEq, Repr

structure InputOut where
  timestep : String          -- repr, "nan" when defaulted
  strainFinal : String       -- repr, "inf" when defaulted
  mode : Mode
  mesh : KeyState
  velocityGradient : KeyState
  paths : KeyState
  locationsInitial : KeyState
  locationsFinal : KeyState
  deriving DecidableEq, Repr

def rawIf (b : Bool) : KeyState := if b then .raw else .absent

/-- `_parse_config_input_common` followed by the mode selection of `parse_config` -/
def numOrDefault (q : Quirks) (dflt : String) : Option NumTok → Except Err String
  | none => .ok dflt
  | some (.num r) => .ok r
  | some .other => .error (if q.inputBuiltin then .typeError else .configError)

def selectMode (ts sf : String) (i : InputIn) : Except Err InputOut :=
  if i.mesh then
    if i.locationsFinal then .ok ⟨ts, sf, .mesh, .loaded, .setNone, .setNone, .setNone, .loaded⟩
    else .error .keyError
  else if i.velocityGradient then
    if i.locationsInitial then .ok ⟨ts, sf, .velocityGradient, .setNone, .loaded, .setNone, .loaded, .setNone⟩
    else .error .keyError
  else if i.paths then .ok ⟨ts, sf, .paths, .setNone, .absent, .loaded, .setNone, .setNone⟩
  else .ok ⟨ts, sf, .none, .absent, .absent, .setNone, rawIf i.locationsInitial, rawIf i.locationsFinal⟩

def parseInput (q : Quirks) : Option InputIn → Except Err InputOut
  | none => .error .configError                       -- missing [input] section
  | some i =>
    if i.timestep.isNone ∧ i.paths = false then .error .configError
    else
      match numOrDefault q "nan" i.timestep with
      | .error e => .error e
      | .ok ts =>
        match numOrDefault q "inf" i.strainFinal with
        | .error e => .error e
        | .ok sf => selectMode ts sf i

/-! ### `[output]` -/
structure OutputIn where
  directory : Option String
  rawOutput : Option (List String)
  diagnostics : Option (List String)
  anisotropy : Option String
  paths : Option String
  logLevel : Option String
  deriving DecidableEq, Repr

structure OutputOut where
  stored : Bool                     -- the result dictionary has an "output" entry
  directory : Option String         -- `none` = current working directory
  rawOutput : List PhaseVal
  diagnostics : List PhaseVal
  anisotropy : Option String        -- `none` = ["Voigt", "hexaxis", "moduli", "%decomp"]
  paths : Option String             -- what is stored under "paths"
  logLevel : String
  deriving DecidableEq, Repr

def emptyOutput : OutputIn := ⟨none, none, none, none, none, none⟩

def outPhases (attrs : List String) : List String → Except Err (List PhaseVal)
  | [] => .ok []
  | n :: ns =>
    match getattrPhase attrs n with       -- `_parse_output_options` uses getattr in both versions
    | none => .error .configError
    | some v =>
      match outPhases attrs ns with
      | .error e => .error e
      | .ok vs => .ok (v :: vs)

/-- `io._parse_output_options` -/
def parseOutputOption (q : Quirks) (attrs : List String) (given : Option (List String))
    (assemblage : List PhaseVal) : Except Err (List PhaseVal) :=
  match given with
  | none => if q.outputIndexed then .error .keyError else .ok assemblage
  | some names =>
    match outPhases attrs names with
    | .error e => .error e
    | .ok vs => if vs.all (fun v => assemblage.contains v) then .ok vs else .error .configError

def parseOutput (q : Quirks) (attrs : List String) (o : Option OutputIn) (assemblage : List PhaseVal) :
    Except Err OutputOut :=
  let oi := o.getD emptyOutput
  match parseOutputOption q attrs oi.rawOutput assemblage with
  | .error e => .error e
  | .ok raw =>
    match parseOutputOption q attrs oi.diagnostics assemblage with
    | .error e => .error e
    | .ok diag =>
      -- every mode branch stores a "paths" entry in the input table, so `"paths" in _input` always
      -- holds and an output "paths" entry is always replaced by None
      .ok { stored := o.isSome || !q.outputIndexed, directory := oi.directory, rawOutput := raw,
            diagnostics := diag, anisotropy := oi.anisotropy, paths := none,
            logLevel := oi.logLevel.getD "WARNING" }

/-! ### the whole file -/
structure ConfigIn (ρ : Type) where
  name : Option String
  parameters : Option (ParamsIn ρ)
  input : Option InputIn
  output : Option OutputIn

structure ConfigOut (ρ : Type) where
  name : Option String             -- `none` = the random default `pydrex.<integer>`
  parameters : ParamsOut ρ
  input : InputOut
  output : OutputOut

def emptyParams {ρ : Type} : ParamsIn ρ := ⟨none, none, none, none, []⟩

/-- `io.parse_config` after `tomllib.load` -/
def parseConfig {ρ : Type} (q : Quirks) (attrs : List String) (sumBad : List ρ → Bool) (c : ConfigIn ρ) :
    Except Err (ConfigOut ρ) :=
  match parseParams q attrs sumBad (c.parameters.getD emptyParams) with
  | .error e => .error e
  | .ok params =>
    match parseInput q c.input with
    | .error e => .error e
    | .ok input =>
      match parseOutput q attrs c.output params.assemblage with
      | .error e => .error e
      | .ok output => .ok ⟨c.name, params, input, output⟩

end ModelD.Config
