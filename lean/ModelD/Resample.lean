/-! `stats.resample_orientations` (K28), discrete part: shape validation, the broadcast
assignment `out_orientations[i, ...] = orient[sort_ascending][count_less]`, output shapes.

Shapes are `List Nat` (numpy `.shape` tuples). Two validation predicates are modelled:
`rejectCoded` is the test in the pinned source (with Python's chained comparison
`a != b != 3`, which means `a != b and b != 3`); `rejectFixed` is the test after the
repair (`shape[2:] != (3, 3)`), which is what `/repo` runs now. -/
namespace ModelD.Resample

inductive Err where
  | valueError   -- `ValueError` (explicit raise, or numpy broadcasting failure)
  | indexError   -- `IndexError` (`cumfrac[-1]` on an empty array)
  deriving DecidableEq, Repr

/-- shape entry with Python's tuple indexing already known to be in range (rank was tested
first; `or` short-circuits), default irrelevant -/
def dim (s : List Nat) (i : Nat) : Nat := s.getD i 0

/-- the rejection test as written in the pinned source:
```
len(o.shape) != 4 or len(f.shape) != 2 or o.shape[0] != f.shape[0]
  or o.shape[1] != f.shape[1] or o.shape[2] != o.shape[3] != 3
``` -/
def rejectCoded (os fs : List Nat) : Bool :=
  os.length != 4 || fs.length != 2 || dim os 0 != dim fs 0 || dim os 1 != dim fs 1
    || (dim os 2 != dim os 3 && dim os 3 != 3)

/-- the repaired test: `… or o.shape[2:] != (3, 3)` -/
def rejectFixed (os fs : List Nat) : Bool :=
  os.length != 4 || fs.length != 2 || dim os 0 != dim fs 0 || dim os 1 != dim fs 1
    || os.drop 2 != [3, 3]

/-- the specification: orientations `(N, M, 3, 3)`, fractions `(N, M)` -/
def WellFormed (os fs : List Nat) : Prop := ∃ N M, os = [N, M, 3, 3] ∧ fs = [N, M]

/-- numpy broadcasting of a value of trailing shape `(a, b)` into a `(3, 3)` slot
(`out[i, ...] = value` with `value.shape = (n_samples, a, b)`): each extent must be 1 or 3. -/
def broadcastOk (a b : Nat) : Bool := (a == 1 || a == 3) && (b == 1 || b == 3)

/-- What a call does, as a function of the shapes only (`N ≥ 1`; `reject` is the validation
test in force): error class or the shapes of the two returned arrays. -/
def outcome (reject : List Nat → List Nat → Bool) (os fs : List Nat) (nSamples : Option Nat) :
    Except Err (List Nat × List Nat) :=
  if reject os fs then .error .valueError
  else
    let N := dim fs 0
    let M := dim fs 1
    let n := nSamples.getD M
    if N = 0 then .ok ([0, n, 3, 3], [0, n])         -- loop body never runs
    else if M = 0 then .error .indexError              -- `cumfrac[-1] = 1.0` on an empty array
    else if broadcastOk (dim os 2) (dim os 3) then .ok ([N, n, 3, 3], [N, n])
    else .error .valueError                            -- "could not broadcast input array"

def fmtOutcome : Except Err (List Nat × List Nat) → String
  | .error .valueError => "ValueError"
  | .error .indexError => "IndexError"
  | .ok (a, b) => "ok " ++ " ".intercalate (a.map toString) ++ " | " ++ " ".intercalate (b.map toString)

end ModelD.Resample
