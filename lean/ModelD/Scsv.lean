import ModelD.Csv
import ModelD.YamlScalar
/-! # Model of `pydrex.io.save_scsv` / `read_scsv` (C16)

Function by function after `src/pydrex/io.py` (at commit cc8cd84: header scalars quoted, fence only before the
header is closed, no `NaN` special case, typed parsing errors reported as SCSVError):
`_validate_scsv_schema` → `validate`, `_parse_scsv_bool` → `parseBool`, `_parse_scsv_cell` →
`parseCell`, `write_scsv_header` → `headerLines`, `save_scsv` → `save`, `read_scsv` → `read`.
Python exception classes are kept (`Err`). CPython's float/complex formatting and parsing are
EXTERNAL: they are the parameter `E : FloatExt`; floats are IEEE bit patterns.

`Err.unmodelled` marks inputs outside the modelled sub-language (mixed-type numeric
comparisons, YAML text that is not of the shape the writer emits); the harness counts them and
never compares them. -/
namespace Scsv

inductive Err
  | scsv | key | attr | type | value | index | stopIteration | yaml | csv | unmodelled
  deriving DecidableEq, Repr

inductive Ty | str | int | float | bool | complex
  deriving DecidableEq, Repr

abbrev FBits := UInt64

/-- a data cell -/
inductive Val
  | str (s : Str) | int (i : Int) | float (x : FBits) | bool (b : Bool) | complex (re im : FBits)
  deriving DecidableEq, Repr

/-- a fill value as given by the caller or as reconstructed from the header -/
inductive PyVal
  | str (s : Str) | int (i : Int) | float (x : FBits)
  deriving DecidableEq, Repr

structure Field where
  name : Option Str          -- `none`: key absent
  type : Option Str
  unit : Option Str
  fill : Option PyVal
  deriving DecidableEq, Repr

structure Schema where
  delimiter : Option Str
  missing : Option Str
  fields : Option (List Field)
  deriving DecidableEq, Repr

/-- CPython externals: `repr(float)`, `float(str)`, `str(complex)`, `complex(str)`
(`none` = `ValueError`) -/
structure FloatExt where
  frepr : FBits → Str
  fparse : Str → Option FBits
  crepr : FBits → FBits → Str
  cparse : Str → Option (FBits × FBits)

/-! ## IEEE predicates on bit patterns -/

def fIsNaN (x : FBits) : Bool :=
  (x &&& 0x7FF0000000000000) == 0x7FF0000000000000 && (x &&& 0x000FFFFFFFFFFFFF) != 0
def fIsZero (x : FBits) : Bool := (x &&& 0x7FFFFFFFFFFFFFFF) == 0
/-- Python `==` on floats -/
def fEq (x y : FBits) : Bool := !fIsNaN x && !fIsNaN y && (x == y || (fIsZero x && fIsZero y))
/-- `np.nan` -/
def nanBits : FBits := 0x7FF8000000000000
def zeroBits : FBits := 0

/-! ## types, `str()`, constructors -/

def defaultType : Str := "string".toList
def defaultFill : PyVal := .str []

/-- `SCSV_TYPEMAP` -/
def typeOf (s : Str) : Option Ty :=
  if s = "string".toList then some .str
  else if s = "integer".toList then some .int
  else if s = "float".toList then some .float
  else if s = "boolean".toList then some .bool
  else if s = "complex".toList then some .complex
  else none

def Field.typeName (f : Field) : Str := f.type.getD defaultType
def Field.fillVal (f : Field) : PyVal := f.fill.getD defaultFill

/-- `str(d)` for a data cell -/
def pyStr (E : FloatExt) : Val → Str
  | .str s => s
  | .int i => pyStrInt i
  | .float x => E.frepr x
  | .bool b => if b then "True".toList else "False".toList
  | .complex re im => E.crepr re im

/-- `str(fill)` -/
def pyStrP (E : FloatExt) : PyVal → Str
  | .str s => s
  | .int i => pyStrInt i
  | .float x => E.frepr x

def optErr {α} (e : Err) : Option α → Except Err α
  | some a => .ok a
  | none => .error e

/-- `t(f)`: the Python type object applied to a fill value -/
def construct (E : FloatExt) (t : Ty) (f : PyVal) : Except Err Val :=
  match t, f with
  | .str, f => .ok (.str (pyStrP E f))
  | .int, .str s => (optErr .value (pyIntOfStr s)).map .int
  | .int, .int i => .ok (.int i)
  | .int, .float _ => .error .unmodelled
  | .float, .str s => (optErr .value (E.fparse s)).map .float
  | .float, .int _ => .error .unmodelled
  | .float, .float x => .ok (.float x)
  | .bool, .str s => .ok (.bool (!s.isEmpty))
  | .bool, .int i => .ok (.bool (i != 0))
  | .bool, .float x => .ok (.bool (!fIsZero x))
  | .complex, .str s => (optErr .value (E.cparse s)).map (fun (a, b) => .complex a b)
  | .complex, .int _ => .error .unmodelled
  | .complex, .float x => .ok (.complex x zeroBits)

/-- `_parse_scsv_bool` -/
def parseBool (x : Str) : Bool :=
  (["yes", "true", "t", "1"].map String.toList).contains (lower x)

/-- `_parse_scsv_cell(func, data, missingstr, fillval)` -/
def parseCell (E : FloatExt) (t : Ty) (data : Str) (missing : Str) (fill : PyVal) : Except Err Val :=
  if strip data = missing then construct E t fill
  else if t = .bool then .ok (.bool (parseBool data))
  else construct E t (.str (strip data))

/-! ## schema validation -/

/-- the loop over the fields in `_validate_scsv_schema` -/
def validateFields : List Field → Except Err Bool
  | [] => .ok true
  | f :: fs =>
    match f.name with
    | none => .ok false                                    -- `"name" not in field`
    | some n =>
      if !isIdentifier n then .ok false
      else match typeOf f.typeName with
        | none => .ok false
        | some t =>
          if t ≠ .str ∧ t ≠ .bool ∧ f.fill.isNone then .ok false
          else validateFields fs

/-- `_validate_scsv_schema` -/
def validate (s : Schema) : Except Err Bool :=
  match s.delimiter, s.missing, s.fields with
  | some d, some m, some fs =>
    if fs.length > 0 ∧ d ≠ m ∧ ¬ isInfix d m then validateFields fs else .ok false
  | _, _, _ => .ok false

/-! ## header writer -/

def pfxName : Str := "    - name: ".toList
def pfxType : Str := "      type: ".toList
def pfxUnit : Str := "      unit: ".toList
def pfxFill : Str := "      fill: ".toList

/-- an optional `key: 'value'` line -/
def optLine (pfx : Str) : Option Str → List Str
  | some v => [pfx ++ Yaml.yamlQuoted v]
  | none => []

def fieldLines (E : FloatExt) (f : Field) : List Str :=
  (pfxName ++ Yaml.yamlQuoted (f.name.getD [])) :: (pfxType ++ f.typeName) ::
    (optLine pfxUnit f.unit ++ optLine pfxFill (f.fill.map (pyStrP E)))

def lineSchema : Str := "schema:".toList
def pfxDelim : Str := "  delimiter: ".toList
def pfxMissing : Str := "  missing: ".toList
def lineFields : Str := "  fields:".toList

/-- the lines `write_scsv_header` writes between (and excluding) the two `---` fences -/
def headerLines (E : FloatExt) (d m : Str) (fs : List Field) : List Str :=
  lineSchema :: (pfxDelim ++ Yaml.yamlQuoted d) :: (pfxMissing ++ Yaml.yamlQuoted m) :: lineFields ::
    fs.flatMap (fieldLines E)

/-! ## save -/

/-- Python `zip(*xs)` (stops at the shortest) -/
def zipStar {α} : List (List α) → List (List α)
  | [] => []
  | [c] => c.map (fun x => [x])
  | c :: cs => List.zipWith (fun x r => x :: r) c (zipStar cs)

/-- the trial parse of `str(d)` in `save_scsv`; a `ValueError` is re-raised as
`SCSVError("invalid data …")` -/
def trialParse (E : FloatExt) (missing : Str) (t : Ty) (fill : PyVal) (d : Val) : Except Err Unit :=
  match parseCell E t (pyStr E d) missing fill with
  | .error .value => .error .scsv
  | .error e => .error e
  | .ok _ => .ok ()

/-- the fill substitution of `save_scsv`: the missing marker or `str(d)`.
(`isinstance(t, bool)` is a test on a type object and is always False; boolean columns fall
through to the final `else`, which does the same.) -/
def substitute (E : FloatExt) (missing : Str) (t : Ty) (fill : PyVal) (d : Val) : Except Err Str :=
  let text := pyStr E d
  match t with
  | .bool => .ok text
  | .float =>
    match d with
    | .float x =>
      (construct E .float fill).bind fun tf =>
        match tf with
        | .float y => .ok (if (fIsNaN x && fIsNaN y) || fEq x y then missing else text)
        | _ => .error .unmodelled
    | .str _ => .error .type                 -- `np.isnan(str)`
    | _ => .error .unmodelled
  | .complex =>
    match d with
    | .complex a b =>
      (construct E .complex fill).bind fun tf =>
        match tf with
        | .complex c e =>
          .ok (if ((fIsNaN a || fIsNaN b) && (fIsNaN c || fIsNaN e)) || (fEq a c && fEq b e) then missing else text)
        | _ => .error .unmodelled
    | .str _ => .error .type
    | _ => .error .unmodelled
  | .int =>
    (construct E .int fill).bind fun tf =>
      match d, tf with
      | .int i, .int j => .ok (if i = j then missing else text)
      | .bool b, .int j => .ok (if (if b then 1 else 0) = j then missing else text)
      | .str _, _ => .ok text
      | _, _ => .error .unmodelled
  | .str =>
    match d with
    | .str s => .ok (if s = pyStrP E fill then missing else text)
    | _ => .ok text

/-- what `save_scsv` appends to the row for one datum: the missing marker or `str(d)`, after the
trial parse. `ValueError`s are reported as `Err.value` and turned into the SCSV error by the caller. -/
def saveCell (E : FloatExt) (missing : Str) (t : Ty) (fill : PyVal) (d : Val) : Except Err Str :=
  (trialParse E missing t fill d).bind fun _ => substitute E missing t fill d

/-- `for i, (d, t, f) in enumerate(zip(col, types, fills, strict=True))` -/
def saveRowCells (E : FloatExt) (missing : Str) : List Val → List (Ty × PyVal) → Except Err (List Str)
  | [], [] => .ok []
  | d :: ds, (t, f) :: tfs => do
    let w ← saveCell E missing t f d
    let r ← saveRowCells E missing ds tfs
    pure (w :: r)
  | _, _ => .error .value                  -- zip(strict=True)

/-- `except ValueError: raise SCSVError(...)` around the body of `save_scsv` -/
def valueToScsv {α} : Except Err α → Except Err α
  | .error .value => .error .scsv
  | r => r

def saveRows (E : FloatExt) (d : Char) (missing : Str) (tfs : List (Ty × PyVal)) :
    List (List Val) → Except Err (List Str)
  | [] => .ok []
  | row :: rows => do
    let cells ← saveRowCells E missing row tfs
    let rest ← saveRows E d missing tfs rows
    pure (Csv.writeRow d cells :: rest)

def fence : Str := "---".toList

/-- the body of the `try` block of `save_scsv`: header, column names, rows -/
def saveBody (E : FloatExt) (s : Schema) (data : List (List Val)) : Except Err (List Str) :=
  (validate s).bind fun ok =>
    if !ok then .error .scsv else
    match s.delimiter, s.missing, s.fields with
    | some dl, some m, some fs =>
      match dl with
      | [d] =>
        (saveRows E d m (fs.map (fun f => ((typeOf f.typeName).getD .str, f.fillVal))) (zipStar data)).map
          fun rows => fence :: headerLines E dl m fs ++ [fence] ++ Csv.writeRow d (fs.map (fun f => f.name.getD [])) :: rows
      | _ => .error .type                                      -- csv.writer: 1-character delimiter
    | _, _, _ => .error .unmodelled

/-- the lines (without terminators) of the file written by `save_scsv(file, schema, data)` -/
def saveLines (E : FloatExt) (s : Schema) (data : List (List Val)) : Except Err (List Str) :=
  match data with
  | [] => .error .scsv                                      -- `len(data) == 0`
  | c0 :: cs =>
    if cs.any (fun c => c.length ≠ c0.length) then .error .scsv
    else valueToScsv (saveBody E s data)

def joinLines (ls : List Str) : Str := ls.flatMap (· ++ ['\n'])

/-- the text of the file written by `save_scsv` -/
def save (E : FloatExt) (s : Schema) (data : List (List Val)) : Except Err Str :=
  (saveLines E s data).map joinLines

/-! ## read -/

/-- the loop over the file's lines in `read_scsv`: (yaml lines, csv lines).
`isYaml`: inside the YAML section; `done`: the YAML section has been closed. -/
def fenceNL : Str := "---\n".toList

def fenceSplit : List Str → Bool → Bool → List Str × List Str
  | [], _, _ => ([], [])
  | l :: ls, isYaml, done =>
    if l = ['\n'] then fenceSplit ls isYaml done
    else if l = fenceNL ∧ !done then
      if isYaml then fenceSplit ls false true else fenceSplit ls true false
    else
      let (y, c) := fenceSplit ls isYaml done
      if isYaml then (l :: y, c) else (y, l :: c)

def dropNL (l : Str) : Str := if l.getLast? = some '\n' then l.dropLast else l

/-- value of `key: 'scalar'` where `rest` is the text after `key: ` -/
def parseQuotedValue (rest : Str) : Except Err Str :=
  match rest with
  | '\'' :: body =>
    match Yaml.scanSingleQuoted body with
    | some (v, []) => .ok v
    | _ => .error .unmodelled
  | _ => .error .unmodelled

def stripPrefix? (p s : Str) : Option Str := if p.isPrefixOf s then some (s.drop p.length) else none

/-- an optional line `<pfx>'scalar'` at the head of `ls` -/
def parseOptLine (pfx : Str) (ls : List Str) : Except Err (Option Str × List Str) :=
  match ls with
  | l :: rest =>
    match stripPrefix? pfx l with
    | some u => (parseQuotedValue u).map (fun v => (some v, rest))
    | none => .ok (none, ls)
  | [] => .ok (none, [])

/-- the plain scalar after `type: ` (letters only; anything else is outside the modelled shape) -/
def parseTypeValue (ty : Str) : Except Err Str :=
  if !(ty.all isAsciiLetter) then .error .unmodelled
  else match Yaml.resolvePlain ty with
    | .str t => .ok t
    | _ => .error .unmodelled

/-- fields of the header, in the shape the writer emits: name, type, [unit], [fill] -/
def parseFieldLines (fuel : Nat) (ls : List Str) : Except Err (List Field) :=
  match fuel with
  | 0 => .error .unmodelled
  | fuel + 1 =>
  match ls with
  | [] => .ok []
  | l1 :: l2 :: rest =>
    match stripPrefix? pfxName l1, stripPrefix? pfxType l2 with
    | some nm, some ty => do
      let name ← parseQuotedValue nm
      let tyv ← parseTypeValue ty
      let (unit, rest) ← parseOptLine pfxUnit rest
      let (fill, rest) ← parseOptLine pfxFill rest
      let fs ← parseFieldLines fuel rest
      pure (⟨some name, some tyv, unit, fill.map PyVal.str⟩ :: fs)
    | _, _ => .error .unmodelled
  | _ => .error .unmodelled

/-- `yaml.safe_load("".join(yaml_lines))["schema"]` for header text of the shape written by
`write_scsv_header` (without comments); other shapes are `unmodelled`. -/
def parseHeader (yamlLines : List Str) : Except Err Schema :=
  if yamlLines.isEmpty then .error .type               -- `None["schema"]`
  else if !(yamlLines.all (·.all Yaml.isYamlPrintable)) then .error .yaml   -- ReaderError
  else
    match yamlLines.map dropNL with
    | l0 :: l1 :: l2 :: l3 :: rest =>
      if l0 ≠ lineSchema ∨ l3 ≠ lineFields then .error .unmodelled else
      match stripPrefix? pfxDelim l1, stripPrefix? pfxMissing l2 with
      | some d, some m => do
        let d ← parseQuotedValue d
        let m ← parseQuotedValue m
        if rest.isEmpty then throw .unmodelled          -- `fields:` with a null value
        let fs ← parseFieldLines (rest.length + 1) rest
        pure ⟨some d, some m, some fs⟩
      | _, _ => .error .unmodelled
    | _ => .error .unmodelled

/-- `zip(*rows, strict=True)`; `none` is `ValueError` -/
def zipStarStrict {α} (rows : List (List α)) : Option (List (List α)) :=
  match rows with
  | [] => some []
  | r :: rs => if rs.all (fun x => x.length = r.length) then some (zipStar rows) else none

/-- the checks of `collections.namedtuple` on the field names (all raise `ValueError`) -/
def namedtupleOK (names : List Str) : Bool :=
  names.all (fun n => isIdentifier n && !pyKeywords.contains n && n.head? ≠ some '_') && names.Nodup

def parseColumn (E : FloatExt) (missing : Str) (t : Ty) (fill : PyVal) : List Str → Except Err (List Val)
  | [] => .ok []
  | x :: xs => do
    let v ← parseCell E t x missing fill
    let vs ← parseColumn E missing t fill xs
    pure (v :: vs)

def parseColumns (E : FloatExt) (missing : Str) : List (Ty × PyVal) → List (List Str) → Except Err (List (List Val))
  | [], [] => .ok []
  | (t, f) :: tfs, c :: cs => do
    let v ← parseColumn E missing t f c
    let vs ← parseColumns E missing tfs cs
    pure (v :: vs)
  | _, _ => .error .value                  -- zip(strict=True)

/-- the typed parsing at the end of `read_scsv`, inside `try: … except ValueError: raise SCSVError` -/
def readTyped (E : FloatExt) (m : Str) (tfs : List (Ty × PyVal)) (rows : List (List Str)) :
    Except Err (List (List Val)) :=
  valueToScsv ((optErr .value (zipStarStrict rows)).bind fun cols => parseColumns E m tfs cols)

/-- `read_scsv` after the schema has been validated -/
def readBody (E : FloatExt) (s : Schema) (csvLines : List Str) : Except Err (List Str × List (List Val)) :=
  match s.delimiter, s.missing, s.fields with
  | some dl, some m, some fs =>
    match dl with
    | [d] =>
      (optErr .csv (Csv.readRows d csvLines)).bind fun rows =>
        match rows with
        | [] => .error .stopIteration                           -- `next(reader)`
        | hdr :: rows =>
          if fs.map (fun f => f.name.getD []) ≠ hdr.map strip then .error .scsv
          else if !namedtupleOK (fs.map (fun f => f.name.getD [])) then .error .value
          else (readTyped E m (fs.map (fun f => ((typeOf f.typeName).getD .str, f.fillVal))) rows).map
            fun vals => (fs.map (fun f => f.name.getD []), vals)
    | _ => .error .type                                         -- csv.reader: 1-character delimiter
  | _, _, _ => .error .unmodelled

/-- `read_scsv` on the lines of the file (each with its terminator): field names and columns -/
def readLines (E : FloatExt) (lines : List Str) : Except Err (List Str × List (List Val)) :=
  (parseHeader (fenceSplit lines false false).1).bind fun s =>
    (validate s).bind fun ok =>
      if !ok then .error .scsv else readBody E s (fenceSplit lines false false).2

/-- `read_scsv(file)` on the text of the file -/
def read (E : FloatExt) (txt : Str) : Except Err (List Str × List (List Val)) :=
  readLines E (splitLines (universalNewlines txt))

end Scsv
