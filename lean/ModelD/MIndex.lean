/-! Discrete parts of the M-index computation (K27):
* `pairs` — `itertools.combinations(quats, 2)` as used by `stats.misorientation_hist`;
* `countIn` — a histogram bin count as a function of the list of pair values;
* the batched variant `diagnostics.misorientation_indices`: a process pool completes the
  snapshots in an arbitrary order, `Pool.imap` hands the results back in submission order and the
  loop `for i, out in enumerate(pool.imap(_run, stack)): m_indices[i] = out` stores them. -/
namespace ModelD.MIndex

/-- `itertools.combinations(l, 2)`: all `(l[i], l[j])` with `i < j`, in lexicographic order -/
def pairs {α : Type} : List α → List (α × α)
  | [] => []
  | x :: xs => xs.map (fun y => (x, y)) ++ pairs xs

/-- values of a pair function over all combinations (the list `misorientations_data`) -/
def pairValues {α β : Type} (f : α → α → β) (l : List α) : List β :=
  (pairs l).map fun p => f p.1 p.2

/-- number of pair values falling in a bin described by the predicate `inBin` -/
def countIn {β : Type} (inBin : β → Bool) (vals : List β) : Nat := vals.countP inBin

/-! ### the process pool -/

/-- The pool: snapshot `i` is evaluated at some point; `order` is the order in which the workers
FINISH (any list of indices; a correct pool finishes every submitted index). The completion log is
the list of `(index, result)` in finishing order. -/
def completionLog {α β : Type} (f : α → β) (stack : List α) (order : List Nat) : List (Nat × β) :=
  order.filterMap fun i => (stack[i]?).map fun x => (i, f x)

/-- `Pool.imap`: results are handed to the consumer in SUBMISSION order (Python's documented
contract): the consumer waits for index 0, then 1, … -/
def imap {α β : Type} (f : α → β) (stack : List α) (order : List Nat) : List β :=
  (List.range stack.length).filterMap fun i => (completionLog f stack order).lookup i

/-- `m_indices = np.empty(n); for i, out in enumerate(results): m_indices[i] = out`
(`none` = an entry of the uninitialised array that was never written) -/
def assignEnumerated {β : Type} (n : Nat) (results : List β) : List (Option β) :=
  (List.range n).map fun i => results[i]?

/-- `diagnostics.misorientation_indices(stack, …)` for a pool finishing in `order` -/
def batched {α β : Type} (f : α → β) (stack : List α) (order : List Nat) : List (Option β) :=
  assignEnumerated stack.length (imap f stack order)

end ModelD.MIndex
