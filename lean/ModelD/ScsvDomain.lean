import ModelD.Scsv
/-! # Executable form of the hypotheses of the round-trip theorem (C16)

`domainFailures E s data` lists the hypotheses of `Scsv.C16.save_read_roundtrip` that do NOT hold for
the given schema and data (empty list = inside the theorem's domain, up to `FloatSpec E`). It is
proved sound in `Proofs/ScsvDomain.lean` and evaluated by the driver, so that the harness can check
that its "valid" stream lies inside the proved domain and that each hypothesis-replay case violates
the hypothesis it claims to violate. -/
namespace Scsv

instance {ε α} [DecidableEq ε] [DecidableEq α] : DecidableEq (Except ε α) := fun a b =>
  match a, b with
  | .ok x, .ok y => if h : x = y then isTrue (by rw [h]) else isFalse (by intro e; cases e; exact h rfl)
  | .error x, .error y => if h : x = y then isTrue (by rw [h]) else isFalse (by intro e; cases e; exact h rfl)
  | .ok _, .error _ => isFalse (by intro e; cases e)
  | .error _, .ok _ => isFalse (by intro e; cases e)

def yamlSafeB (s : Str) : Bool := s.all (fun c => Yaml.isYamlPrintable c && !Yaml.isYamlBreak c)

def canonB (x : FBits) : Bool := !fIsNaN x || x == nanBits

def partEqB (x y : FBits) : Bool := (fIsNaN x && fIsNaN y) || fEq x y

def Field.tyB (f : Field) : Ty := (typeOf f.typeName).getD .str

def fillValueB (E : FloatExt) (f : Field) : Val :=
  match construct E f.tyB f.fillVal with
  | .ok v => v
  | .error _ => .str []

/-- the column's fill is usable: `t(fill)` succeeds and the reader constructs the same value from `str(fill)` -/
def fillOKB (E : FloatExt) (f : Field) : Bool :=
  f.tyB == .bool ||
    (decide (construct E f.tyB f.fillVal = .ok (fillValueB E f)) &&
     decide (construct E f.tyB (.str (pyStrP E f.fillVal)) = .ok (fillValueB E f)))

def cellOKB (E : FloatExt) (m : Str) (t : Ty) (fv : Val) (d : Val) : Bool :=
  decide (pyStr E d ≠ m) &&
  match t, d with
  | .str, .str s => decide (strip s = s) && !s.contains '\n' && !s.contains '\r'
  | .int, .int _ => true
  | .float, .float x => canonB x
  | .bool, .bool _ => true
  | .complex, .complex a b => canonB a && canonB b &&
      (match fv with
       | .complex c e => !((fIsNaN a || fIsNaN b) && (fIsNaN c || fIsNaN e)) || (partEqB a c && partEqB b e)
       | _ => true)
  | _, _ => false

/-- names of the violated hypotheses (empty = all hold) -/
def domainFailures (E : FloatExt) (s : Schema) (data : List (List Val)) : List String :=
  match s.delimiter, s.missing, s.fields with
  | some [dc], some m, some fs =>
    let chk (name : String) (b : Bool) : List String := if b then [] else [name]
    chk "SchemaValid" (decide (validate s = .ok true)) ++
    chk "HeaderOK.delim" (dc != '\n' && dc != '\r' && dc != '"') ++
    chk "HeaderOK.delimYaml" (yamlSafeB [dc]) ++
    chk "HeaderOK.missingStrip" (decide (strip m = m)) ++
    chk "HeaderOK.missingYaml" (yamlSafeB m) ++
    chk "HeaderOK.names" (namedtupleOK (fs.map (fun f => f.name.getD []))) ++
    chk "HeaderOK.units" (fs.all (fun f => match f.unit with | some u => yamlSafeB u | none => true)) ++
    chk "HeaderOK.fills" (fs.all (fun f => match f.fill with | some v => yamlSafeB (pyStrP E v) | none => true)) ++
    chk "Representable.rows" (match data with | [] => false | c :: cs => decide (0 < c.length) && cs.all (fun x => x.length == c.length)) ++
    chk "Representable.columns" (data.length == fs.length) ++
    chk "Representable.fill" (fs.all (fillOKB E)) ++
    chk "Representable.cells" ((fs.zip data).all (fun (f, col) => col.all (cellOKB E m f.tyB (fillValueB E f)))) ++
    chk "Representable.blank" (dc != ' ' || (!m.isEmpty && data.all (fun col => col.all (fun d => !(pyStr E d).isEmpty))))
  | _, _, _ => ["SchemaShape"]

end Scsv
