/-! # Text primitives used by the SCSV model (C16)

Python `str` methods as they are used by `pydrex.io` (`strip`, `isidentifier`, `lower`,
`str(int)`, `int(str)`), over `List Char`. No Mathlib (linked into the driver).

Scope notes (validated by the differential check in `harness/props/c16.py`):
* `isSpacePy` is the complete `str.isspace` set of CPython 3.12 (25 code points).
* `isIdStart`/`isIdContinue` are exact for code points < 0x100; larger code points are
  treated as non-identifier characters (the generators stay below 0x100 for names).
* `pyIntOfStr` is `int(s)` for base 10: surrounding whitespace (as `int()` defines it), optional sign, ASCII digits
  with single underscores between digits. -/
namespace Scsv

abbrev Str := List Char

/-- `str.isspace` for a single character (CPython `_PyUnicode_IsWhitespace`). -/
def isSpacePy (c : Char) : Bool :=
  let n := c.toNat
  (0x09 ≤ n && n ≤ 0x0D) || (0x1C ≤ n && n ≤ 0x20) || n == 0x85 || n == 0xA0 || n == 0x1680 ||
  (0x2000 ≤ n && n ≤ 0x200A) || n == 0x2028 || n == 0x2029 || n == 0x202F || n == 0x205F ||
  n == 0x3000

def lstrip (s : Str) : Str := s.dropWhile isSpacePy
def rstrip (s : Str) : Str := (s.reverse.dropWhile isSpacePy).reverse
/-- `str.strip()` -/
def strip (s : Str) : Str := rstrip (lstrip s)

def isAsciiLetter (c : Char) : Bool :=
  let n := c.toNat
  (0x41 ≤ n && n ≤ 0x5A) || (0x61 ≤ n && n ≤ 0x7A)

def isAsciiDigit (c : Char) : Bool :=
  let n := c.toNat
  0x30 ≤ n && n ≤ 0x39

/-- XID_Start or `_` (exact below 0x100) -/
def isIdStart (c : Char) : Bool :=
  let n := c.toNat
  isAsciiLetter c || n == 0x5F || n == 0xAA || n == 0xB5 || n == 0xBA ||
  (0xC0 ≤ n && n ≤ 0xD6) || (0xD8 ≤ n && n ≤ 0xF6) || (0xF8 ≤ n && n ≤ 0xFF)

/-- XID_Continue (exact below 0x100) -/
def isIdContinue (c : Char) : Bool :=
  isIdStart c || isAsciiDigit c || c.toNat == 0xB7

/-- `str.isidentifier()` -/
def isIdentifier : Str → Bool
  | [] => false
  | c :: cs => isIdStart c && cs.all isIdContinue

/-- ASCII part of `str.lower()`; sufficient for membership tests against ASCII tables
(no non-ASCII character lower-cases to an ASCII letter of `yes/true/t/1`). -/
def lowerAscii (c : Char) : Char :=
  if 0x41 ≤ c.toNat ∧ c.toNat ≤ 0x5A then Char.ofNat (c.toNat + 32) else c

def lower (s : Str) : Str := s.map lowerAscii

/-- `keyword.iskeyword` (CPython 3.12 `keyword.kwlist`) -/
def pyKeywords : List Str := [
  "False", "None", "True", "and", "as", "assert", "async", "await", "break", "class",
  "continue", "def", "del", "elif", "else", "except", "finally", "for", "from", "global",
  "if", "import", "in", "is", "lambda", "nonlocal", "not", "or", "pass", "raise", "return",
  "try", "while", "with", "yield"].map String.toList

/-! ## `str(int)` and `int(str)` -/

def digitChar (d : Nat) : Char := Char.ofNat (0x30 + d)

/-- decimal digits, most significant first; `fuel` bounds the number of digits (structural
recursion, so that the definition also evaluates inside the kernel) -/
def natDigitsFuel : Nat → Nat → Str
  | 0, _ => []
  | fuel + 1, n => if n < 10 then [digitChar n] else natDigitsFuel fuel (n / 10) ++ [digitChar (n % 10)]

/-- decimal digits of a natural number, most significant first (`str(n)`) -/
def natDigits (n : Nat) : Str := natDigitsFuel (n + 1) n

/-- `str(i)` for a Python `int` -/
def pyStrInt (i : Int) : Str :=
  if i < 0 then '-' :: natDigits i.natAbs else natDigits i.natAbs

def digitVal (c : Char) : Nat := c.toNat - 0x30

/-- digits with single underscores between digits; `acc` is the value so far and the previous
character was a digit (`true`) or an underscore (`false`). -/
def parseDigitsAux : Str → Nat → Bool → Option Nat
  | [], acc, prevDigit => if prevDigit then some acc else none
  | c :: cs, acc, prevDigit =>
    if isAsciiDigit c then parseDigitsAux cs (acc * 10 + digitVal c) true
    else if c = '_' ∧ prevDigit then parseDigitsAux cs acc false
    else none

/-- a non-empty digit string with optional single underscores between digits -/
def parseDigits : Str → Option Nat
  | [] => none
  | c :: cs => if isAsciiDigit c then parseDigitsAux cs (digitVal c) true else none

/-- the whitespace `int()` skips around the number: `str.isspace` without U+001C..U+001F
(ASCII characters are handed to `PyLong_FromString` unchanged, which skips C `isspace` only) -/
def isSpaceInt (c : Char) : Bool := isSpacePy c && !(0x1C ≤ c.toNat && c.toNat ≤ 0x1F)

def stripInt (s : Str) : Str := ((s.dropWhile isSpaceInt).reverse.dropWhile isSpaceInt).reverse

/-- `int(s)` (base 10); `none` is `ValueError` -/
def pyIntOfStr (s : Str) : Option Int :=
  match stripInt s with
  | '-' :: ds => (parseDigits ds).map (fun n => - (n : Int))
  | '+' :: ds => (parseDigits ds).map (fun n => (n : Int))
  | ds => (parseDigits ds).map (fun n => (n : Int))

/-! ## lines -/

/-- text-mode reading with universal newlines: `\r\n` and `\r` become `\n` -/
def universalNewlines : Str → Str
  | [] => []
  | '\r' :: '\n' :: cs => '\n' :: universalNewlines cs
  | '\r' :: cs => '\n' :: universalNewlines cs
  | c :: cs => c :: universalNewlines cs

/-- iterate a text file: lines keep their terminating `\n`; a last line without one is kept. -/
def splitLinesAux : Str → Str → List Str
  | [], cur => if cur.isEmpty then [] else [cur.reverse]
  | c :: cs, cur => if c = '\n' then (('\n' :: cur).reverse) :: splitLinesAux cs [] else splitLinesAux cs (c :: cur)

def splitLines (s : Str) : List Str := splitLinesAux s []

/-- `needle in hay` for strings -/
def isInfix (needle hay : Str) : Bool :=
  match hay with
  | [] => needle.isEmpty
  | _ :: t => needle.isPrefixOf hay || isInfix needle t

end Scsv
