import ModelD.ScsvText
/-! # `csv.writer` / `csv.reader` as used by `pydrex.io` (C16)

Model of CPython 3.12 `_csv.c` for the dialect that `save_scsv`/`read_scsv` use:
`quotechar='"'`, `doublequote=True`, `escapechar=None`, `quoting=QUOTE_MINIMAL`,
`strict=False`, `lineterminator=os.linesep` (`"\n"`), writer without and reader with
`skipinitialspace=True`. Validated against the `csv` module by the harness. -/
namespace Scsv.Csv

/-- QUOTE_MINIMAL: a field is quoted iff it contains the delimiter, the quote character or a
character of the line terminator -/
def needsQuote (d : Char) (f : Str) : Bool := f.any (fun c => c == d || c == '"' || c == '\n')

def escapeQuotes : Str → Str
  | [] => []
  | c :: cs => if c = '"' then '"' :: '"' :: escapeQuotes cs else c :: escapeQuotes cs

def quoteField (f : Str) : Str := '"' :: (escapeQuotes f ++ ['"'])

def writeField (d : Char) (f : Str) : Str := if needsQuote d f then quoteField f else f

def joinFields (d : Char) : List Str → Str
  | [] => []
  | [f] => f
  | f :: fs => f ++ d :: joinFields d fs

/-- `writer.writerow(fields)` without the line terminator. A record consisting of a single
empty field is written as `""`. -/
def writeRow (d : Char) (fs : List Str) : Str :=
  match fs with
  | [[]] => ['"', '"']
  | _ => joinFields d (fs.map (writeField d))

/-! ## reader -/

inductive St | startRecord | startField | inField | inQuoted | quoteInQuoted | eatCRNL
  deriving DecidableEq, Repr

/-- parser state: automaton state, current field (reversed), fields so far (reversed) -/
structure PS where
  st : St
  cur : Str
  fields : List Str
  deriving Repr

def PS.init : PS := ⟨.startRecord, [], []⟩

def PS.saveField (p : PS) (st : St) : PS := ⟨st, [], p.cur.reverse :: p.fields⟩
def PS.addChar (p : PS) (c : Char) (st : St) : PS := ⟨st, c :: p.cur, p.fields⟩

def isNL (c : Char) : Bool := c == '\n' || c == '\r'

/-- `parse_process_char` for an ordinary character; `none` is `_csv.Error`
("new-line character seen in unquoted field") -/
def step (d : Char) (p : PS) (c : Char) : Option PS :=
  match p.st with
  | .startRecord =>
    if isNL c then some { p with st := .eatCRNL }
    else stepStartField p c
  | .startField => stepStartField p c
  | .inField =>
    if isNL c then some (p.saveField .eatCRNL)
    else if c = d then some (p.saveField .startField)
    else some (p.addChar c .inField)
  | .inQuoted =>
    if c = '"' then some { p with st := .quoteInQuoted }
    else some (p.addChar c .inQuoted)
  | .quoteInQuoted =>
    if c = '"' then some (p.addChar c .inQuoted)
    else if c = d then some (p.saveField .startField)
    else if isNL c then some (p.saveField .eatCRNL)
    else some (p.addChar c .inField)
  | .eatCRNL => if isNL c then some p else none
where
  stepStartField (p : PS) (c : Char) : Option PS :=
    if isNL c then some (p.saveField .eatCRNL)
    else if c = '"' then some { p with st := .inQuoted }
    else if c = ' ' then some { p with st := .startField }   -- skipinitialspace
    else if c = d then some (p.saveField .startField)
    else some (p.addChar c .inField)

/-- `parse_process_char(EOL)` at the end of every input line -/
def stepEOL (p : PS) : PS :=
  match p.st with
  | .startRecord => p
  | .startField => p.saveField .startRecord
  | .inField => p.saveField .startRecord
  | .inQuoted => p
  | .quoteInQuoted => p.saveField .startRecord
  | .eatCRNL => { p with st := .startRecord }

/-- feed the characters of (part of) a line -/
def stepChars (d : Char) : PS → Str → Option PS
  | p, [] => some p
  | p, c :: cs => (step d p c).bind (fun p' => stepChars d p' cs)

/-- one input line: its characters, then the end-of-line sentinel -/
def stepLine (d : Char) (p : PS) (l : Str) : Option PS := (stepChars d p l).map stepEOL

/-- `list(csv.reader(lines, delimiter=d, skipinitialspace=True))`; `none` is `_csv.Error`.
`p` is the state carried over from the previous line (a quoted field may span lines). -/
def readRowsAux (d : Char) : List Str → PS → Option (List (List Str))
  | [], p =>
    -- input exhausted in the middle of a record
    if p.st = .startRecord then some []
    else if !p.cur.isEmpty || p.st = .inQuoted then some [(p.saveField .startRecord).fields.reverse]
    else some []
  | l :: ls, p =>
    match stepLine d p l with
    | none => none
    | some p' =>
      if p'.st = .startRecord then
        (readRowsAux d ls PS.init).map (p'.fields.reverse :: ·)
      else readRowsAux d ls p'

def readRows (d : Char) (lines : List Str) : Option (List (List Str)) := readRowsAux d lines PS.init

end Scsv.Csv
