import ModelD.ScsvText
/-! # The YAML scalar sub-language needed by the SCSV header (C16)

* `yamlQuoted` — the single-quoted scalar that `pydrex.io._yaml_quoted` writes;
* `scanSingleQuoted` — PyYAML's `scan_flow_scalar` for a single-quoted scalar on one line;
* `isYamlPrintable` — PyYAML's `Reader.NON_PRINTABLE` check;
* `resolvePlain` — PyYAML's implicit resolvers for plain scalars (YAML 1.1 as implemented by
  PyYAML 6: bool, float, int, merge, null, timestamp, value, in this order) and the value the
  safe constructor builds for bool / null / int scalars. The regular expressions of
  `yaml/resolver.py` are transcribed as `Re` terms and matched with Brzozowski derivatives.

Validated against `yaml.safe_load` by the harness. -/
namespace Scsv.Yaml

/-! ## regular expressions -/

inductive Re
  | empty | eps
  | cls (p : Char → Bool)
  | seq (a b : Re) | alt (a b : Re) | star (a : Re)

namespace Re

def nullable : Re → Bool
  | empty => false | eps => true | cls _ => false
  | seq a b => a.nullable && b.nullable
  | alt a b => a.nullable || b.nullable
  | star _ => true

def isEmpty : Re → Bool | empty => true | _ => false
def isEps : Re → Bool | eps => true | _ => false

def mkSeq (a b : Re) : Re :=
  if a.isEmpty || b.isEmpty then empty else if a.isEps then b else if b.isEps then a else seq a b
def mkAlt (a b : Re) : Re := if a.isEmpty then b else if b.isEmpty then a else alt a b

def deriv (c : Char) : Re → Re
  | empty => empty | eps => empty
  | cls p => if p c then eps else empty
  | seq a b => if a.nullable then mkAlt (mkSeq (deriv c a) b) (deriv c b) else mkSeq (deriv c a) b
  | alt a b => mkAlt (deriv c a) (deriv c b)
  | star a => mkSeq (deriv c a) (star a)

/-- full match (`^(?:r)$`) -/
def matchesStr (r : Re) (s : Str) : Bool := (s.foldl (fun r c => r.deriv c) r).nullable

def chr (c : Char) : Re := cls (· == c)
def oneOf (s : String) : Re := cls (fun c => s.toList.contains c)
def range (lo hi : Char) : Re := cls (fun c => lo.toNat ≤ c.toNat && c.toNat ≤ hi.toNat)
def opt (a : Re) : Re := alt eps a
def plus (a : Re) : Re := seq a (star a)
def lit (s : String) : Re := s.toList.foldr (fun c r => seq (chr c) r) eps
def alts : List Re → Re | [] => empty | [a] => a | a :: as => alt a (alts as)
def seqs : List Re → Re | [] => eps | [a] => a | a :: as => seq a (seqs as)
def words (ws : List String) : Re := alts (ws.map lit)

end Re

open Re

def digit : Re := range '0' '9'
def digitU : Re := cls (fun c => ('0'.toNat ≤ c.toNat && c.toNat ≤ '9'.toNat) || c == '_')
def sign : Re := opt (oneOf "-+")
def expo : Re := opt (seqs [oneOf "eE", oneOf "-+", plus digit])
/-- `(?::[0-5]?[0-9])+` -/
def sexa : Re := plus (seqs [chr ':', opt (range '0' '5'), digit])

def reBool : Re := words ["yes", "Yes", "YES", "no", "No", "NO", "true", "True", "TRUE",
  "false", "False", "FALSE", "on", "On", "ON", "off", "Off", "OFF"]

def reFloat : Re := alts [
  seqs [sign, digit, star digitU, chr '.', star digitU, expo],
  seqs [chr '.', digit, star digitU, expo],
  seqs [sign, digit, star digitU, sexa, chr '.', star digitU],
  seqs [sign, chr '.', words ["inf", "Inf", "INF"]],
  seqs [chr '.', words ["nan", "NaN", "NAN"]]]

def reInt : Re := alts [
  seqs [sign, lit "0b", plus (oneOf "01_")],
  seqs [sign, chr '0', plus (cls (fun c => ('0'.toNat ≤ c.toNat && c.toNat ≤ '7'.toNat) || c == '_'))],
  seqs [sign, alt (chr '0') (seq (range '1' '9') (star digitU))],
  seqs [sign, lit "0x", plus (cls (fun c => ('0'.toNat ≤ c.toNat && c.toNat ≤ '9'.toNat) ||
      ('a'.toNat ≤ c.toNat && c.toNat ≤ 'f'.toNat) || ('A'.toNat ≤ c.toNat && c.toNat ≤ 'F'.toNat) || c == '_'))],
  seqs [sign, range '1' '9', star digitU, sexa]]

def reMerge : Re := lit "<<"
def reNull : Re := alts [chr '~', lit "null", lit "Null", lit "NULL", eps]
def d2 : Re := seq digit (opt digit)
def ws1 : Re := oneOf " \t"
def reTimestamp : Re := alts [
  seqs [digit, digit, digit, digit, chr '-', digit, digit, chr '-', digit, digit],
  seqs [digit, digit, digit, digit, chr '-', d2, chr '-', d2,
        alt (oneOf "Tt") (plus ws1), d2, chr ':', digit, digit, chr ':', digit, digit,
        opt (seq (chr '.') (star digit)),
        opt (seqs [star ws1, alt (chr 'Z') (seqs [oneOf "-+", d2, opt (seqs [chr ':', digit, digit])])])]]
def reValue : Re := lit "="

inductive Tag | bool | float | int | merge | null | timestamp | value | str
  deriving DecidableEq, Repr

/-- `Resolver.resolve(ScalarNode, value, (True, False))` for a plain scalar -/
def resolveTag (s : Str) : Tag :=
  if reBool.matchesStr s then .bool
  else if reFloat.matchesStr s then .float
  else if reInt.matchesStr s then .int
  else if reMerge.matchesStr s then .merge
  else if reNull.matchesStr s then .null
  else if reTimestamp.matchesStr s then .timestamp
  else if reValue.matchesStr s then .value
  else .str

/-- what `yaml.safe_load` returns for a plain scalar (as far as the SCSV model needs it) -/
inductive YVal
  | str (s : Str) | bool (b : Bool) | null | int (i : Int)
  | float (text : Str)       -- value not evaluated: `float()` is an external
  | other (t : Tag)          -- timestamp / merge / value
  | error                    -- the constructor raises (e.g. `0b_`)
  deriving DecidableEq, Repr

def digitOfBase (base : Nat) (c : Char) : Option Nat :=
  let n := c.toNat
  let v := if 0x30 ≤ n ∧ n ≤ 0x39 then some (n - 0x30)
    else if 0x61 ≤ n ∧ n ≤ 0x66 then some (n - 0x61 + 10)
    else if 0x41 ≤ n ∧ n ≤ 0x46 then some (n - 0x41 + 10) else none
  v.bind (fun v => if v < base then some v else none)

/-- `int(s, base)` for a digit string without prefix, sign, underscores or whitespace -/
def natOfBase (base : Nat) (s : Str) : Option Nat :=
  if s.isEmpty then none else s.foldl (fun acc c => acc.bind (fun a => (digitOfBase base c).map (a * base + ·))) (some 0)

def splitOn (sep : Char) (s : Str) : List Str :=
  let (cur, acc) := s.foldr (fun c (cur, acc) => if c = sep then ([], cur :: acc) else (c :: cur, acc)) ([], [])
  cur :: acc

/-- `SafeConstructor.construct_yaml_int` -/
def constructInt (s : Str) : Option Int :=
  let v := s.filter (· ≠ '_')
  let neg := v.head? = some '-'
  let v := if v.head? = some '-' ∨ v.head? = some '+' then v.drop 1 else v
  let mag : Option Nat :=
    if v = ['0'] then some 0
    else if ['0', 'b'].isPrefixOf v then natOfBase 2 (v.drop 2)
    else if ['0', 'x'].isPrefixOf v then natOfBase 16 (v.drop 2)
    else if v.head? = some '0' then natOfBase 8 v
    else if v.contains ':' then
      (splitOn ':' v).foldl (fun acc part => acc.bind (fun a => (natOfBase 10 part).map (a * 60 + ·))) (some 0)
    else natOfBase 10 v
  mag.map (fun m => if neg then - (m : Int) else (m : Int))

def resolvePlain (s : Str) : YVal :=
  match resolveTag s with
  | .str => .str s
  | .bool => .bool (["yes", "true", "on"].map String.toList |>.contains (lower s))
  | .null => .null
  | .int => match constructInt s with | some i => .int i | none => .error
  | .float => .float s
  | t => .other t

/-! ## single-quoted scalars -/

def escapeSQ : Str → Str
  | [] => []
  | c :: cs => if c = '\'' then '\'' :: '\'' :: escapeSQ cs else c :: escapeSQ cs

/-- `pydrex.io._yaml_quoted(str)` -/
def yamlQuoted (s : Str) : Str := '\'' :: (escapeSQ s ++ ['\''])

/-- YAML line breaks -/
def isYamlBreak (c : Char) : Bool :=
  c == '\n' || c == '\r' || c.toNat == 0x85 || c.toNat == 0x2028 || c.toNat == 0x2029

/-- complement of PyYAML's `Reader.NON_PRINTABLE` -/
def isYamlPrintable (c : Char) : Bool :=
  let n := c.toNat
  n == 0x09 || n == 0x0A || n == 0x0D || (0x20 ≤ n && n ≤ 0x7E) || n == 0x85 ||
  (0xA0 ≤ n && n ≤ 0xD7FF) || (0xE000 ≤ n && n ≤ 0xFFFD) || (0x10000 ≤ n && n ≤ 0x10FFFF)

/-- scan the body of a single-quoted scalar (the text after the opening quote) that ends on the
same line: returns the content and the text after the closing quote. `none`: no closing quote
before the end of the text, or a line break inside the scalar (line folding, not modelled). -/
def scanSingleQuoted : Str → Option (Str × Str)
  | [] => none
  | '\'' :: '\'' :: cs => (scanSingleQuoted cs).map (fun (v, r) => ('\'' :: v, r))
  | '\'' :: cs => some ([], cs)
  | c :: cs => if isYamlBreak c then none else (scanSingleQuoted cs).map (fun (v, r) => (c :: v, r))

end Scsv.Yaml
