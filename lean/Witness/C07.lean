import Properties.C07
/-! Witnesses for C07: the rejection theorems are not vacuous and the accepted ordinals are exactly
0, 1, 4, 6, 7. -/
namespace ModelR

example (A : List Mat3) (f : List ℝ) (D L s : Mat3) (q : DParams) :
    derivatives 8 0 0 A f D L s q = .error .badRegime ∧ derivatives (-1) 0 0 A f D L s q = .error .badRegime
    ∧ derivatives 5 0 0 A f D L s q = .error .unsupportedRegime :=
  ⟨out_of_range_rejected 8 0 0 (by omega) A f D L s q, out_of_range_rejected (-1) 0 0 (by omega) A f D L s q,
   unsupported_rejected 5 0 0 (by omega) A f D L s q⟩

/-- a mismatched pair (olivine with the enstatite fabric) is rejected for a non-empty aggregate -/
example (D L s : Mat3) (q : DParams) :
    ∃ e, derivatives 4 0 5 [one3] [1] D L s q = .error e :=
  let ⟨e, h, _⟩ := bad_phase_fabric_rejected 4 0 5 (Or.inl rfl) (by omega) [one3] (by simp) [1] D L s q
  ⟨e, h⟩

/-- a valid texture with no grain below the floor exists (hypotheses of `null_run_constant`) -/
example : ValidTex ⟨[one3, one3], [1 / 2, 1 / 2]⟩ ∧ ∀ x ∈ ([1 / 2, 1 / 2] : List ℝ), ¬ x < (0.3 : ℝ) / (2 : ℕ) := by
  refine ⟨⟨?_, ?_, by norm_num⟩, ?_⟩
  · intro a ha i j
    simp only [List.mem_cons, List.mem_nil_iff, or_false, or_self] at ha; subst ha
    fin_cases i <;> fin_cases j <;> simp [one3]
  · intro x hx; simp at hx; subst hx; norm_num
  · intro x hx; simp at hx; subst hx; norm_num

end ModelR
