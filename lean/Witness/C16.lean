import Proofs.ScsvFaults
import Proofs.ScsvTerse
/-! # C16 — witnesses

* `E₀` / `floatSpec_E₀`: the assumed spec of the CPython externals (`FloatSpec`) is satisfiable
  (a toy instance: floats printed as the decimal of their bit pattern).
* `roundtrip_hypotheses_satisfiable`: all hypotheses of `save_read_roundtrip` hold together for a
  concrete schema and data set, and the conclusion evaluates as stated.
* negation witnesses: for every hypothesis the proof forced beyond the property's stated domain,
  a concrete input on which the FAITHFUL model does not round-trip. Each one was replayed on the
  real code (see `known_findings/C16.json`; the harness regenerates them on every run).
* the repaired defects: what the header writer emitted before commit 78c9fb7 and how YAML reads it. -/
namespace Scsv
open Csv Yaml

/-! ## a model of the externals -/

deriving instance DecidableEq for Except

def splitJ : Str → Str × Str
  | [] => ([], [])
  | c :: cs => if c = 'j' then ([], cs) else ((splitJ cs).1.cons c, (splitJ cs).2)

def parseBits (s : Str) : Option FBits :=
  match parseDigits s with
  | some n => if n < 2 ^ 64 then some (UInt64.ofNat n) else none
  | none => none

def E₀ : FloatExt where
  frepr x := natDigits x.toNat
  fparse := parseBits
  crepr a b := natDigits a.toNat ++ 'j' :: natDigits b.toNat
  cparse s := match parseBits (splitJ s).1, parseBits (splitJ s).2 with
    | some a, some b => some (a, b)
    | _, _ => none

theorem parseBits_natDigits (x : FBits) : parseBits (natDigits x.toNat) = some x := by
  have h := x.toNat_lt
  simp only [parseBits, parseDigits_natDigits]
  rw [if_pos (by simpa using h)]
  simp

theorem digit_ne_j (c : Char) (h : isAsciiDigit c = true) : c ≠ 'j' := by
  intro e; subst e; simp [isAsciiDigit] at h

theorem splitJ_digits (a b : Str) (ha : ∀ c ∈ a, isAsciiDigit c = true) : splitJ (a ++ 'j' :: b) = (a, b) := by
  induction a with
  | nil => simp [splitJ]
  | cons c t ih =>
    have hc := digit_ne_j c (ha c (by simp))
    have iht := ih (fun c' hc' => ha c' (by simp [hc']))
    simp [splitJ, hc, iht]

theorem natDigits_numText (n : Nat) : NumText (natDigits n) := by
  obtain ⟨h1, h2, _⟩ := natDigits_spec n
  refine ⟨h2, ?_⟩
  intro c hc
  have h := h1 c hc
  simp [isAsciiDigit] at h
  have : c = Char.ofNat c.toNat := by simp
  have hr : c.toNat = 48 ∨ c.toNat = 49 ∨ c.toNat = 50 ∨ c.toNat = 51 ∨ c.toNat = 52 ∨ c.toNat = 53 ∨
      c.toNat = 54 ∨ c.toNat = 55 ∨ c.toNat = 56 ∨ c.toNat = 57 := by omega
  rw [this]
  rcases hr with h | h | h | h | h | h | h | h | h | h <;> rw [h] <;> decide

/-- **the assumed spec of the externals is satisfiable** -/
theorem floatSpec_E₀ : FloatSpec E₀ where
  fparse_frepr x _ := parseBits_natDigits x
  cparse_crepr a b _ _ := by
    simp only [E₀]
    rw [splitJ_digits _ _ (natDigits_spec a.toNat).1]
    simp [parseBits_natDigits]
  frepr_text x := natDigits_numText x.toNat
  crepr_text a b := by
    refine ⟨by simp [E₀], ?_⟩
    intro c hc
    simp only [E₀, List.mem_append, List.mem_cons] at hc
    rcases hc with hc | hc | hc
    · exact (natDigits_numText a.toNat).2 c hc
    · subst hc; decide
    · exact (natDigits_numText b.toNat).2 c hc

/-! ## the hypotheses of the round-trip theorem are satisfiable -/

def fA : Field := ⟨some "a".toList, some "string".toList, some "m/s".toList, some (.str "z".toList)⟩
def fB : Field := ⟨some "b".toList, some "integer".toList, none, some (.str "0".toList)⟩
def fC : Field := ⟨some "yes".toList, some "boolean".toList, none, none⟩
def exSchema : Schema := ⟨some [','], some "-".toList, some [fA, fB, fC]⟩
def exData : List (List Val) :=
  [[.str "x y".toList, .str "z".toList], [.int 0, .int (-5)], [.bool true, .bool false]]

theorem exSchema_valid : SchemaValid exSchema :=
  (validate_iff _).1 (by decide)

theorem exHeaderOK : HeaderOK E₀ ',' "-".toList [fA, fB, fC] where
  delim := by decide
  delimYaml := by decide
  missingStrip := by decide
  missingYaml := by decide
  names := by decide
  units := by
    intro f hf u hu
    simp only [List.mem_cons, List.not_mem_nil, or_false] at hf
    rcases hf with rfl | rfl | rfl
    · simp [fA] at hu; subst hu; decide
    · simp [fB] at hu
    · simp [fC] at hu
  fills := by
    intro f hf v hv
    simp only [List.mem_cons, List.not_mem_nil, or_false] at hf
    rcases hf with rfl | rfl | rfl
    · simp [fA] at hv; subst hv; decide
    · simp [fB] at hv; subst hv; decide
    · simp [fC] at hv

theorem exCols : Forall₂ (ColOK E₀ "-".toList) [fA, fB, fC] exData := by
  refine .cons ⟨?_, ?_⟩ (.cons ⟨?_, ?_⟩ (.cons ⟨?_, ?_⟩ .nil))
  · intro _; exact ⟨by decide, by decide⟩
  · intro d hd
    simp only [List.mem_cons, List.not_mem_nil, or_false] at hd
    rcases hd with rfl | rfl <;> exact ⟨by decide, by decide, by decide, by decide⟩
  · intro _; exact ⟨by decide, by decide⟩
  · intro d hd
    simp only [List.mem_cons, List.not_mem_nil, or_false] at hd
    rcases hd with rfl | rfl <;> exact ⟨by decide, trivial⟩
  · intro h; exact absurd (by decide) h
  · intro d hd
    simp only [List.mem_cons, List.not_mem_nil, or_false] at hd
    rcases hd with rfl | rfl <;> exact ⟨by decide, trivial⟩

/-- all hypotheses of `read_save` hold for `exSchema`/`exData`, so the theorem is not vacuous -/
theorem roundtrip_hypotheses_satisfiable :
    ∃ txt, save E₀ exSchema exData = .ok txt ∧
      read E₀ txt = .ok (fieldNames [fA, fB, fC], expectedTable E₀ [fA, fB, fC] exData) :=
  read_save E₀ floatSpec_E₀ ',' "-".toList [fA, fB, fC] exData 2 exSchema_valid exHeaderOK (by decide)
    (by intro c hc; simp only [exData, List.mem_cons, List.not_mem_nil, or_false] at hc
        rcases hc with rfl | rfl | rfl <;> rfl) exCols (by intro h; exact absurd h (by decide))

/-! ## negation witnesses: the extra hypotheses are needed (faithful model, concrete inputs)

Every `example` below is a concrete input INSIDE the property's stated domain on which the model –
and, replayed by the harness, the real code – does not round-trip. -/

def roundTrip (s : Schema) (data : List (List Val)) : Except Err (List Str × List (List Val)) :=
  (save E₀ s data).bind (read E₀)

def fStr (n fill : String) : Field := ⟨some n.toList, some "string".toList, none, some (.str fill.toList)⟩
def fInt (n fill : String) : Field := ⟨some n.toList, some "integer".toList, none, some (.str fill.toList)⟩
def fBool (n : String) : Field := ⟨some n.toList, some "boolean".toList, none, none⟩
def sv (s : String) : Val := .str s.toList

/-- sanity: the same evaluation on an in-domain input gives the data back (with the fill) -/
example : roundTrip ⟨some [','], some "-".toList, some [fStr "a" "z", fInt "b" "0"]⟩ [[sv "x", sv "z"], [.int 0, .int 7]]
    = .ok (["a".toList, "b".toList], [[sv "x", sv "z"], [.int 0, .int 7]]) := by decide

/-- `HeaderOK.missingStrip`: a missing marker with surrounding whitespace never matches on read:
the cell equal to the fill `z` comes back as `-` -/
example : roundTrip ⟨some [','], some " -".toList, some [fStr "a" "z"]⟩ [[sv "x", sv "z"]]
    = .ok (["a".toList], [[sv "x", sv "-"]]) := by decide

/-- `CellOK` (text ≠ missing marker, integer): the cell 5 comes back as the fill 0 -/
example : roundTrip ⟨some [','], some "5".toList, some [fInt "a" "0"]⟩ [[.int 5, .int 1]]
    = .ok (["a".toList], [[.int 0, .int 1]]) := by decide

/-- `CellOK` (text ≠ missing marker, boolean): `True` comes back as `bool("") = False` -/
example : roundTrip ⟨some [','], some "True".toList, some [fBool "a"]⟩ [[.bool true, .bool false]]
    = .ok (["a".toList], [[.bool false, .bool false]]) := by decide

/-- `HeaderOK.names`: an identifier that `namedtuple` rejects is written, then `ValueError` on read -/
example : roundTrip ⟨some [','], some "-".toList, some [fStr "_a" "z"]⟩ [[sv "x"]] = .error .value := by decide
example : roundTrip ⟨some [','], some "-".toList, some [fStr "class" "z"]⟩ [[sv "x"]] = .error .value := by decide
example : roundTrip ⟨some [','], some "-".toList, some [fStr "a" "z", fStr "a" "z"]⟩ [[sv "x"], [sv "y"]]
    = .error .value := by decide

/-- blank delimiter with an empty written field (`Representable`): the empty middle cell is swallowed by
`skipinitialspace` (with non-empty cells the blank delimiter round-trips, and the theorem covers it) -/
example : roundTrip ⟨some [' '], some "-".toList, some [fStr "a" "z", fStr "b" "z", fStr "c" "z"]⟩
    [[sv "x"], [sv ""], [sv "y"]] = .error .scsv := by decide

example : roundTrip ⟨some [' '], some "-".toList, some [fStr "a" "z", fStr "b" "z", fStr "c" "z"]⟩
    [[sv "x"], [sv "u v"], [sv "z"]] = .ok (["a".toList, "b".toList, "c".toList], [[sv "x"], [sv "u v"], [sv "z"]]) := by decide

/-- `HeaderOK.delimYaml`: a CSV-legal delimiter that YAML cannot carry (`ReaderError`) -/
example : roundTrip ⟨some [Char.ofNat 1], some "-".toList, some [fStr "a" "z", fInt "b" "0"]⟩
    [[sv "x", sv "z"], [.int 0, .int 1]] = .error .yaml := by decide

/-- `CellOK` (complex NaN pattern): for EVERY real part, a complex cell with a NaN imaginary part under a
fill with a NaN component is written as the missing marker (and therefore read back as the fill) -/
theorem complex_nan_cell_written_as_missing (E : FloatExt) (m : Str) (fill : PyVal) (a b c e : FBits) (v : Val)
    (hp : parseCell E .complex (E.crepr a b) m fill = .ok v)
    (hf : construct E .complex fill = .ok (.complex c e)) (hb : fIsNaN b = true) (hc : fIsNaN c = true) :
    saveCell E m .complex fill (.complex a b) = .ok m := by
  simp [saveCell, trialParse, substitute, pyStr, hp, hf, hb, hc, Except.bind]

/-- faults that ended in IndexError / KeyError before commits cc8cd84 / c90071b -/
example : roundTrip ⟨some [','], some "-".toList, some [fStr "a" "z"]⟩ [] = .error .scsv := by decide
example : roundTrip ⟨some [','], some "-".toList, some [⟨none, some "string".toList, none, none⟩]⟩ [[sv "x"]]
    = .error .scsv := by decide

/-! ## the repaired defects (before commit 78c9fb7 the header scalars were written as plain scalars)

`fill: ` + `""`, `name: yes`, `fill: 010` … are plain scalars; this is what YAML makes of them. -/

example : resolvePlain "".toList = .null := by decide                 -- string fill '' → None → 'None'
example : resolvePlain "yes".toList = .bool true := by decide         -- field name → bool → AttributeError
example : resolvePlain "off".toList = .bool false := by decide
example : resolvePlain "null".toList = .null := by decide
example : resolvePlain "~".toList = .null := by decide
example : resolvePlain "010".toList = .int 8 := by decide             -- integer fill '010' written, 8 read
example : resolvePlain "0x10".toList = .int 16 := by decide
example : resolvePlain "1_0".toList = .int 10 := by decide
example : resolvePlain "true".toList = .bool true := by decide
example : resolvePlain "NaN".toList = .str "NaN".toList := by decide  -- not a YAML float (needs the dot)
example : resolvePlain "y".toList = .str "y".toList := by decide      -- PyYAML does not resolve y/n
/-- after the fix every scalar is single-quoted and read back verbatim -/
example : parseQuotedValue (yamlQuoted "it's: #1 ''".toList) = .ok "it's: #1 ''".toList := by decide

/-! ## the terse notation -/

/-- the docstring example of `parse_scsv_schema` (its unit `%` made the written file unreadable before 78c9fb7) -/
example : parseTerse "d,m-:colA(s)colB(s:N/A:...)colC()colD(i:999999)colE(f:NaN:%)".toList
    = .ok ⟨some ",".toList, some "-".toList, some [
        ⟨some "colA".toList, some "string".toList, none, some (.str [])⟩,
        ⟨some "colB".toList, some "string".toList, some "...".toList, some (.str "N/A".toList)⟩,
        ⟨some "colC".toList, some "string".toList, none, some (.str [])⟩,
        ⟨some "colD".toList, some "integer".toList, none, some (.str "999999".toList)⟩,
        ⟨some "colE".toList, some "float".toList, some "%".toList, some (.str "NaN".toList)⟩]⟩ := by decide

/-- hypotheses of `terse_denotation` are satisfiable -/
example : (⟨"colB".toList, "s".toList, some "N/A".toList, some "...".toList⟩ : TCol).OK :=
  ⟨Or.inr (by decide), by decide, by decide,
   fun f hf => by cases hf; exact ⟨by decide, by decide⟩,
   fun u hu => by cases hu; exact ⟨by decide, by decide⟩, fun _ => rfl⟩

example : parseTerse "x,m-:a()".toList = .error .scsv := by decide
example : parseTerse "d,m:a()".toList = .error .scsv := by decide       -- empty missing marker: colon too early
example : parseTerse "dmm-:a()".toList = .error .scsv := by decide      -- delimiter `m`
example : parseTerse "d,m-:a(x)".toList = .error .scsv := by decide     -- unknown type code
example : parseTerse "d,m-:a(s)b".toList = .ok ⟨some ",".toList, some "-".toList,
    some [⟨some "a".toList, some "string".toList, none, some (.str [])⟩]⟩ := by decide  -- trailing text is dropped

end Scsv
