import Properties.C04Rhs
import Mathlib.Tactic.NormNum
/-! Non-vacuity witnesses for C04: orthogonal frames, two-fold sign vectors, unclipped textures exist. -/
namespace ModelR

/-- a proper rotation (90° about z) that is not the identity -/
noncomputable def rotZ90 : Mat3 := fun i j =>
  match i, j with
  | 0, 1 => -1 | 1, 0 => 1 | 2, 2 => 1 | _, _ => 0

example : IsOrth rotZ90 ∧ rotZ90 ≠ one3 := by
  constructor
  · funext i j; fin_cases i <;> fin_cases j <;> simp [mmul, tr, sum3, rotZ90, one3]
  · intro h
    have := congrFun (congrFun h 0) 0
    simp [rotZ90, one3] at this

/-- the three two-folds as sign vectors -/
example : IsSign (fun i => if i = 0 then 1 else -1) ∧ IsSign (fun i => if i = 1 then 1 else -1)
    ∧ IsSign (fun i => if i = 2 then 1 else -1) := by
  refine ⟨?_, ?_, ?_⟩ <;> intro i <;> fin_cases i <;> simp

/-- an orthonormal texture is not clipped, in the original and in the rotated frame -/
example : NoClip [one3] ∧ NoClip (rotA rotZ90 [one3]) := by
  constructor
  · intro a ha i j
    simp only [List.mem_singleton] at ha; subst ha
    fin_cases i <;> fin_cases j <;> simp [one3]
  · intro a ha i j
    simp only [rotA, List.map_cons, List.map_nil, List.mem_singleton] at ha; subst ha
    fin_cases i <;> fin_cases j <;> simp [mmul, tr, sum3, rotZ90, one3]

end ModelR
