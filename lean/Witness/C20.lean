import Properties.C20
/-! Non-vacuity examples and negation witnesses for C20. -/
namespace ModelR.C20
open ModelR.Diag ModelR.Geom ModelR.Density

/-! ## the defect repaired by `fix:` c4cf356 (derived before the repair) -/

/-- `np.sign` on a finite float -/
noncomputable def sgn (x : ℝ) : ℝ := if x < 0 then -1 else if 0 < x then 1 else 0

/-- the faithful model of `geometry.to_spherical` BEFORE the repair: the third value is
`sign(y) * arccos(x / sqrt(x² + y²))`, a second azimuth -/
noncomputable def toSphericalPreFix (x y z : ℝ) : ℝ × ℝ × ℝ :=
  let r := Rsqrt (x * x + y * y + z * z)
  (r, Ratan2 y x, sgn y * Racos (x / Rsqrt (x * x + y * y)))

/-- **negation witness**: for the pre-fix model the round trip is false at `p = (1, 0, 1)`
(first component comes back as 0) — replayed on the real code by the harness before the repair:
`to_cartesian(*to_spherical(1,0,0)[[1,2,0]]) = (0,0,1)`, `to_spherical(0,0,1)[2] = nan` -/
theorem prefix_roundtrip_fails :
    ¬ (∀ x y z : ℝ, (x, y, z) ≠ (0, 0, 0) →
        toCartesian (toSphericalPreFix x y z).2.1 (toSphericalPreFix x y z).2.2 (toSphericalPreFix x y z).1 = (x, y, z)) := by
  intro h
  have := h 1 0 1 (by simp)
  have h1 := congrArg Prod.fst this
  simp [toSphericalPreFix, toCartesian, sgn, Rsin] at h1

/-- ... and at `p = (0, 1, 1)` the third value is `π/2`, not the colatitude `π/4` (`z` comes back as 0) -/
example : (toCartesian (toSphericalPreFix 0 1 1).2.1 (toSphericalPreFix 0 1 1).2.2 (toSphericalPreFix 0 1 1).1).2.2 = 0 := by
  norm_num [toSphericalPreFix, toCartesian, sgn, Rcos, Racos]

/-! ## non-vacuity -/

/-- hypotheses of `lambert_radius`/`lambert_azimuth`: a unit vector that is not masked -/
example : (1 : ℝ) * 1 + 0 * 0 + 0 * 0 = 1 ∧ ¬ Masked 1 0 := by
  refine ⟨by norm_num, ?_⟩
  rintro ⟨h, _⟩
  norm_num at h

/-- hypotheses of `lambert_masked`: the pole -/
example : (0 : ℝ) * 0 + 0 * 0 + 1 * 1 = 1 ∧ Masked 0 0 := ⟨by norm_num, by norm_num [Masked]⟩

/-- hypothesis of `density_normalised_mean_one` -/
example : ([1, 2] : List ℝ).sum / ([1, 2] : List ℝ).length ≠ 0 := by norm_num

/-- hypotheses of `Density.schmidt_total_zero`: one datum on the x axis, a counter at the pole -/
example : let data : List Vec3 := [fun i => if i = 0 then 1 else 0]
    let counter : Vec3 := fun i => if i = 2 then 1 else 0
    data ≠ [] ∧ ∀ p ∈ products data counter true, ¬ (1 - p ≤ 0.01) := by
  refine ⟨by simp, ?_⟩
  intro p hp
  simp [products, Rabs] at hp
  subst hp; norm_num

/-- hypotheses of `poles_crystal_direction` / `poles_basis_is_row`: the identity orientation -/
example : mmul one3 (tr one3) = one3 := by simp

/-! ## negation witnesses for the density clauses -/

/-- when every raw total is 0 (Schmidt kernel, no datum in any cell, unit weight — theorem
`Density.schmidt_total_zero`) the "normalised" grid does NOT have mean 1: the real code computes 0/0
(NaN; replayed by the harness: known finding `density:nonfinite:schmidt_count:no_datum_in_any_cell`) -/
example : (divMean [0, 0, 0]).sum / (divMean [0, 0, 0]).length ≠ 1 := by
  norm_num [divMean, listSum, RofNat]

/-- non-axial counting with `n = 7 ≤ σ² = 100`: the argument of the square root in `_kamb_units` is
negative (real code: NaN; known finding `density:nonfinite:non_axial_n_le_sigma2:*`) -/
example : (7 : ℝ) * kambRadius 7 10 false * (1 - kambRadius 7 10 false) < 0 := by
  norm_num [kambRadius]

end ModelR.C20
