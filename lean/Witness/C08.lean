import Properties.C08
import Mathlib.Tactic.NormNum
/-! Non-vacuity witnesses for C08. -/
namespace ModelR

/-- the two-phase assemblage has no repeated phase, and the lookup returns each phase's own fraction
in either listing order -/
example : ([0, 1] : List Int).Nodup := by decide

example : lookupFraction [0, 1] [0.7, 0.3] 1 = .ok 0.3 ∧ lookupFraction [1, 0] [0.3, 0.7] 1 = .ok 0.3
    ∧ lookupFraction [0, 1] [0.7, 0.3] 0 = .ok 0.7 ∧ lookupFraction [1, 0] [0.3, 0.7] 0 = .ok 0.7 := by
  simp [lookupFraction, indexOf?]

/-- a phase that is not in the assemblage is reported, not defaulted -/
example : lookupFraction [0] [1] 1 = .error .phaseNotInAssemblage := by
  simp [lookupFraction, indexOf?]

end ModelR
