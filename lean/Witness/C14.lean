import Properties.C14
/-! Non-vacuity examples and negation witnesses for C14 (replayed on the real code by
`harness/props/c14.py`). -/
namespace ModelR
open Real

/-- NEGATION WITNESS `quatProduct_eq_hamilton`: for `q1 = (1,0,0,0)` (half turn about x) and
`q2 = (0,1,0,0)` (half turn about y) the coded product is `(0,0,0,0)` — not even a rotation —
while the Hamilton product is `(0,0,1,0)` (half turn about z). -/
example : quatProductCoded (mkQuat 1 0 0 0) (mkQuat 0 1 0 0) = mkQuat 0 0 0 0 := by
  apply quat_ext <;> simp [quatProductCoded]

example : hamilton (mkQuat 1 0 0 0) (mkQuat 0 1 0 0) = mkQuat 0 0 1 0 := by
  apply quat_ext <;> simp [hamilton]

example : quatProductCoded (mkQuat 1 0 0 0) (mkQuat 0 1 0 0) ≠ hamilton (mkQuat 1 0 0 0) (mkQuat 0 1 0 0) := by
  rw [Ne, quatProductCoded_eq_hamilton_iff]; simp

/-- a generic pair of unit quaternions (both code paths non-degenerate) -/
example : quatProductCoded (mkQuat (1/2) (1/2) (1/2) (1/2)) (mkQuat (3/5) 0 (4/5) 0)
    ≠ hamilton (mkQuat (1/2) (1/2) (1/2) (1/2)) (mkQuat (3/5) 0 (4/5) 0) := by
  rw [Ne, quatProductCoded_eq_hamilton_iff]; norm_num

/-- the hypotheses of `mindex_range` are satisfiable (two bins, θ = 2, δ = 0; M = 1/2) -/
example : mIndexSum 2 [1, 0] [1/2, 1/2] = 1/2 := by
  simp [mIndexSum, listSum, RofNat, Rabs]; norm_num [abs_of_pos, abs_of_neg]

example : (2 : ℝ) / ([1/2, 1/2] : List ℝ).length * ([1/2, 1/2] : List ℝ).sum = 1 ∧
    (2 : ℝ) / ([1/2, 1/2] : List ℝ).length * ([1, 0] : List ℝ).sum = 1 + 0 := by
  constructor <;> norm_num

/-- the closure hypotheses of `misorientation_relabel_invariant` are satisfiable
(`orthorhombic_rotations_closed`), and its equivariance hypothesis is satisfiable
(`left_hamilton_equivariant`); the hypothesis of `batched_is_map` holds for the in-order and for
the reversed completion order -/
example : ∀ i < [10, 20, 30].length, i ∈ [2, 1, 0] := by decide

example : ModelD.MIndex.batched (· + 1) [10, 20, 30] [2, 0, 1] = [some 11, some 21, some 31] := by
  decide

/-- a pool that loses a task leaves an entry of the `np.empty` array unwritten (the hypothesis of
`batched_is_map` is needed) -/
example : ModelD.MIndex.batched (· + 1) [10, 20, 30] [2, 0] = [some 11, some 31, none] := by
  decide

/-- `itertools.combinations([a,b,c], 2)` -/
example : ModelD.MIndex.pairs [1, 2, 3] = [(1, 2), (1, 3), (2, 3)] := by decide

end ModelR
