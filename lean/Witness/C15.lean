import Properties.C15
import Mathlib.Tactic.NormNum
/-! Witnesses for C15: satisfiable hypotheses, the excluded point `u = 0`, and the shapes the
pinned (pre-repair) validation accepted although they are not well-formed. -/
namespace ModelR
open ModelD.Resample

/-- hypotheses of the C15 theorems are satisfiable: three grains, one of zero volume -/
example : ∃ (perm : List ℕ) (f : List ℝ), perm.Perm (List.range f.length) ∧ (∀ x ∈ f, 0 ≤ x) ∧
    f.sum = 1 ∧ f ≠ [] := by
  refine ⟨[1, 0, 2], [1/2, 0, 1/2], by decide, ?_, by norm_num, by simp⟩
  intro x hx; simp at hx; rcases hx with rfl | rfl | rfl <;> norm_num

/-- the excluded point of `zero_volume_never_drawn`: the variate `u = 0` selects position 0 of
the ascending order, whose volume is 0 -/
example : searchsortedLeft (cumfrac [0, 1]) 0 = 0 ∧ ([0, 1] : List ℝ)[0] = 0 := by
  simp [searchsortedLeft, cumfrac, cumsum, cumsumFrom, setLast1]

/-- and any positive variate skips it -/
example (u : ℝ) (h : 0 < u) (h1 : u ≤ 1) : searchsortedLeft (cumfrac [0, 1]) u = 1 := by
  simp [searchsortedLeft, cumfrac, cumsum, cumsumFrom, setLast1, h, not_lt.mpr h1]

/-- DEFECT (pinned source): `(N, M, 1, 3)` passes the coded test although it is not well-formed … -/
example : rejectCoded [2, 3, 1, 3] [2, 3] = false ∧ ¬ WellFormed [2, 3, 1, 3] [2, 3] := by
  refine ⟨by decide, ?_⟩
  rintro ⟨N, M, h, _⟩; simp at h

/-- … and is then broadcast silently: the call returns arrays instead of raising `ValueError` -/
example : outcome rejectCoded [2, 3, 1, 3] [2, 3] none = .ok ([2, 3, 3, 3], [2, 3]) := by decide
example : outcome rejectCoded [2, 3, 1, 1] [2, 3] none = .ok ([2, 3, 3, 3], [2, 3]) := by decide

/-- `(N, M, 4, 4)` also passes the coded test but then fails in numpy's broadcasting, which
happens to raise `ValueError` too -/
example : rejectCoded [2, 3, 4, 4] [2, 3] = false ∧
    outcome rejectCoded [2, 3, 4, 4] [2, 3] none = .error .valueError := by decide

/-- the repaired test rejects all of them -/
example : outcome rejectFixed [2, 3, 1, 3] [2, 3] none = .error .valueError ∧
    outcome rejectFixed [2, 3, 1, 1] [2, 3] none = .error .valueError ∧
    outcome rejectFixed [2, 3, 4, 4] [2, 3] none = .error .valueError := by decide

end ModelR
