import Properties.C18
/-! Non-vacuity examples and negation witnesses for C18 (replayed on the real code by
`harness/props/c18.py`). -/
namespace ModelR
open Real

/-- the domain hypothesis of `corner_grad_is_jacobian` is satisfiable (a point below the plate,
and a point on the surface `v = 0` away from the corner) -/
example : OffCut 1 (-1) := Or.inl (by norm_num)
example : OffCut 1 0 := Or.inr (by norm_num)

/-- the `eigvalsh` spec is satisfiable for the simple-shear gradient: `(-sr, 0, sr)` -/
example (sr : ℝ) (x : Vec3) :
    IsEigvals (symm (simpleShearGrad 0 2 sr x)) (fun i => if i = 0 then -sr else if i = 1 then 0 else sr) := by
  intro t
  simp [charPoly3, det3, symm, simpleShearGrad]
  ring

/-- NEGATION WITNESS (simple shear): with `strain_rate = 1` the gradient callable is not the
Jacobian of the velocity callable (it returns 2 where the derivative is 1). -/
example (x : Vec3) : ¬ IsJacobianAt (simpleShearVel 0 2 1) (simpleShearGrad 0 2 1 x) x := by
  rw [simpleShear_grad_is_jacobian_iff 0 2 (by decide)]; norm_num

/-- NEGATION WITNESS (Stokes cell): `U = 1`, `d = 2`, at the origin the gradient callable is
not the Jacobian of the velocity callable … -/
example : ¬ IsJacobianAt (cellVel 0 2 1 2) (cellGrad 0 2 1 2 (fun _ => 0)) (fun _ => 0) := by
  rw [cell_grad_is_jacobian_iff 0 2 (by decide) 1 2 (by norm_num) (by norm_num)]; simp

/-- … and its trace is `-π/2 ≠ 0`. -/
example : trace3 (cellGrad 0 2 1 2 (fun _ => 0)) = -(π / 2) := by
  rw [cell_grad_trace 0 2 (by decide)]; simp

example : trace3 (cellGrad 0 2 1 2 (fun _ => 0)) ≠ 0 := by
  rw [cell_grad_trace 0 2 (by decide)]; simp [pi_ne_zero]

/-- WITNESS (stateful terminal event): the integrator steps to `t = -1` (strain rate 1/2 there)
and `t = -2` (strain rate 2 there) and sees a sign change `1/2 → -3/2`; the root finder then
re-evaluates the SAME two points and gets `-1` and `-3`: no sign change in its bracket
(`ValueError: f(a) and f(b) must have different signs` in `scipy.optimize.brentq`). -/
example : (runCalls (evInit 1) [(-1, true, 1/2), (-2, true, 2), (-1, true, 1/2), (-2, true, 2)]).1
    = [1/2, -3/2, -1, -3] := by
  simp only [runCalls, evInit, terminateCall_inside]
  norm_num

end ModelR
