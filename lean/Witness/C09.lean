import Properties.C09
import Mathlib.Tactic.NormNum
/-! Non-vacuity witness for C09: four grains, chi = 0.4, n = 4 (floor 0.1): two grains below the
floor, one exactly on it (a tie, not masked), one above. -/
namespace ModelR

noncomputable def wf : List ℝ := [0.05, 0.02, 0.1, 0.83]

example : wf.sum = 1 ∧ (∀ x ∈ wf, 0 ≤ x) ∧ wf.length = 4 := by
  refine ⟨by simp [wf]; norm_num, ?_, rfl⟩
  intro x hx
  simp [wf] at hx
  rcases hx with rfl | rfl | rfl | rfl <;> norm_num

/-- grain 0 is masked, grain 2 is exactly on the floor and is NOT masked, grain 3 is above -/
example : wf[0] < (0.4 : ℝ) / (4 : ℕ) ∧ wf[2] = (0.4 : ℝ) / (4 : ℕ) ∧ ¬ wf[3] < (0.4 : ℝ) / (4 : ℕ) := by
  simp [wf]; norm_num

end ModelR
