import Properties.C03
import Mathlib.Tactic.NormNum
/-! Non-vacuity and regression witnesses for C03. -/
namespace ModelR

/-- the hypotheses of the C03 theorems are satisfiable: a supported (phase, fabric) pair … -/
example : ∃ crss, getCrss 0 2 = .ok crss :=
  ⟨mkCrss (tauFin 3) (tauFin 2) tauInf (tauFin 1), by simp [getCrss]⟩
/-- … and a two-grain volume vector on the simplex with one dead grain -/
example : ([1, 0] : List ℝ).sum = 1 ∧ ([1, 0] : List ℝ).length = ([one3, one3] : List Mat3).length := by
  constructor <;> norm_num

/-- velocity gradient `2 e_y ⊗ e_z` and its strain rate -/
noncomputable def Lyz : Mat3 := fun i j => if i = 1 ∧ j = 2 then 2 else 0
noncomputable def Dyz : Mat3 := fun i j => (Lyz i j + Lyz j i) / 2
noncomputable def crssC : Crss := mkCrss (tauFin 3) (tauFin 2) tauInf (tauFin 1)

/-- slip invariants of the frame-aligned grain: only system 2 (the infinite-CRSS one for C-type
olivine) is resolved -/
theorem witness_invariants : slipInvariants Dyz one3 = fun s => if s = 2 then 1 else 0 := by
  funext s
  fin_cases s <;> simp [slipInvariants, sum3, Dyz, Lyz, one3, slipL, slipN]

/-- **regression witness of the repaired defect** (the input on which the unrepaired code raised
ZeroDivisionError / returned NaN): every slip key is zero, the model of the repaired code takes the
no-slip branch: zero strain energy, and the grain only follows the rigid-body rotation of the flow. -/
theorem witness_no_slip (p n lam : ℝ) :
    rotationAndStrainCore 0 crssC one3 Dyz Lyz p n lam = (noSlipRotation one3 Lyz, 0) := by
  have hk : (fun s => Rabs (divByTau (slipInvariants Dyz one3 s) (crssC s))) = fun _ => 0 := by
    funext s
    rw [witness_invariants]
    fin_cases s <;> simp [crssC, mkCrss, divByTau, tauFin, tauInf, Rabs]
  have hσ : argsort4 (fun _ => (0:ℝ)) 3 = 3 := by
    simp [argsort4, rank4, List.finRange, Req]
  unfold rotationAndStrainCore
  simp only [vec4memo_eq, perm4memo_eq, hk, hσ]
  have h3 : divByTau (slipInvariants Dyz one3 3) (crssC 3) = 0 := by
    rw [witness_invariants]; simp [divByTau, crssC, mkCrss, tauFin]
  have hnz : allZero4 (slipInvariants Dyz one3) = false := by
    rw [witness_invariants]; simp [allZero4, Req]
  simp [hnz, h3, Req]

end ModelR
