import Properties.C13
/-! Non-vacuity examples and negation witnesses for C13. -/
namespace ModelR.Diag

/-- a rotation that is not the identity: cyclic permutation of the axes -/
def cyc : Mat3 := fun i j => if (i = 0 ∧ j = 1) ∨ (i = 1 ∧ j = 2) ∨ (i = 2 ∧ j = 0) then 1 else 0

/-- `Orth` is satisfiable by a non-trivial rotation -/
example : Orth cyc := by
  funext i j; fin_cases i <;> fin_cases j <;> simp [Orth, mmul, tr, sum3, one3, cyc]

/-- the LAPACK spec is satisfiable at a scatter matrix: one grain `A = [I]`, a-axis:
`S = diag(1,0,0)`, eigenvalues `(0,0,1)`, eigenvectors `e_y, e_z, e_x` -/
def Vx : Mat3 := fun i j => if (i = 1 ∧ j = 0) ∨ (i = 2 ∧ j = 1) ∨ (i = 0 ∧ j = 2) then 1 else 0
def wx : Vec3 := fun k => if k = 2 then 1 else 0

theorem isEigen_single : IsEigen (symLower (scatterLower [one3] 0)) wx Vx where
  orth := by funext i j; fin_cases i <;> fin_cases j <;> simp [mmul, tr, sum3, one3, Vx]
  eig := by
    intro k; funext i
    fin_cases k <;> fin_cases i <;>
      simp [mulVec, col, sum3, symLower, scatterLower, listSum, one3, Vx, wx]
  asc := by simp [wx]

/-- hypotheses of `symmetry_pgr_valid`, `bingham_*`, `coaxial_index_valid` hold for the one-grain texture
(unit rows, non-empty, spec, simple top eigenvalue, not isotropic) -/
example : ([one3] : List Mat3) ≠ [] ∧ (∀ a ∈ [one3], ∀ row, dot3 (a row) (a row) = 1)
    ∧ IsEigvals (symLower (scatterLower [one3] 0)) wx ∧ wx 1 < wx 2 ∧ wx 0 < wx 2 := by
  refine ⟨by simp, ?_, ⟨Vx, isEigen_single⟩, by simp [wx], by simp [wx]⟩
  intro a ha row
  simp only [List.mem_singleton] at ha
  subst ha
  fin_cases row <;> simp [dot3, sum3, one3]

/-- hypotheses of `pgr_range` / `coaxial_range` are satisfiable with all of P, G, R positive -/
example : let w : Vec3 := fun k => if k = 0 then 1 else if k = 1 then 2 else 4
    0 ≤ w 0 ∧ w 0 ≤ w 1 ∧ w 1 ≤ w 2 ∧ 0 < w 2 + w 1 + w 0
    ∧ 0 < (pgrOfEigvals w).2.1 + (pgrOfEigvals w).1 := by
  simp [pgrOfEigvals]; norm_num

/-- the spec is satisfiable at the simple-shear tensor used by `fse_axis_simple_shear`:
`γ = 3/2` (`ε = 3/4`, `t = 2`): eigenvalues `(1/4, 1, 4)`, eigenvectors `(2,-1,0)/√5`, `e_z`, `(1,2,0)/√5` -/
example : ∃ (w : Vec3) (V : Mat3), IsEigen (symLower (leftCG (shearF (3 / 2)))) w V ∧ w 1 < w 2 := by
  set c := Real.sqrt (1 / 5) with hc
  have hcc : c * c = 1 / 5 := Real.mul_self_sqrt (by norm_num)
  refine ⟨fun k => if k = 0 then 1 / 4 else if k = 1 then 1 else 4,
    fun i j => if j = 0 then (if i = 0 then 2 * c else if i = 1 then -c else 0)
      else if j = 1 then (if i = 2 then 1 else 0)
      else (if i = 0 then c else if i = 1 then 2 * c else 0), ?_, by simp <;> norm_num⟩
  rw [leftCG_symm]
  refine ⟨?_, ?_, by simp <;> norm_num⟩
  · funext i j
    fin_cases i <;> fin_cases j <;> simp [mmul, tr, sum3, one3] <;>
      first | linear_combination 5 * hcc | linear_combination (-5) * hcc | ring1
  · intro k; funext i
    fin_cases k <;> fin_cases i <;>
      simp [mulVec, col, sum3, leftCG, shearF, mmul, tr] <;> ring

/-! ## negation witnesses: why the hypotheses are there -/

/-- without a simple largest eigenvalue the principal axis is NOT determined: for `S = I` both the
identity and the cyclic permutation are valid LAPACK outputs, with top eigenvectors `e_z` and `e_y`
(not equal up to sign) — the gap rule of the correspondence check excludes exactly these cases -/
theorem bingham_not_unique_without_gap :
    IsEigen one3 (fun _ => 1) one3 ∧ IsEigen one3 (fun _ => 1) cyc
    ∧ col cyc 2 ≠ col one3 2 ∧ col cyc 2 ≠ fun i => - one3 i 2 := by
  refine ⟨⟨by simp, ?_, by simp⟩, ⟨?_, ?_, by simp⟩, ?_, ?_⟩
  · intro k; funext i; simp [col, one3]
  · funext i j; fin_cases i <;> fin_cases j <;> simp [mmul, tr, sum3, one3, cyc]
  · intro k; funext i; simp [col]
  · intro h; have := congrFun h 1; simp [col, cyc, one3] at this
  · intro h; have := congrFun h 1; simp [col, cyc, one3] at this

/-- exactly isotropic scatter (`P = G = 0`): the totalised real-number model returns 1 (since `0/0 = 0`
in Lean) whereas the real code returns NaN — this is the property's own exclusion, and the reason
`coaxial_range` carries `0 < G + P` -/
example : coaxialOfPgr (0, 0, 1) (0, 0, 1) = 1 := by norm_num [coaxialOfPgr]

/-- with eigenvalue sum 0 (no grains) `P + G + R = 0 ≠ 1`: `pgr_sum_one` needs `Σ w ≠ 0` -/
example : (pgrOfEigvals fun _ => 0).1 + (pgrOfEigvals fun _ => 0).2.1 + (pgrOfEigvals fun _ => 0).2.2 ≠ 1 := by
  norm_num [pgrOfEigvals]

/-- negative strain is outside the helper's domain: for `γ = -3/2` the direction `(2, 1, 0)` whose
angle the helper returns (`tan = ε + √(ε²+1) = 1/2` at `ε = -3/4`) is the eigenvector of `F Fᵀ` for the
SMALLEST eigenvalue `1/4` (replayed on the real code by the harness: counted, documented exclusion) -/
example : mulVec (leftCG (shearF (-3 / 2))) (fun i => if i = 0 then 2 else if i = 1 then 1 else 0)
      = (fun i => (1 / 4) * (if i = 0 then 2 else if i = 1 then 1 else 0))
    ∧ (-3 / 4 : ℝ) + Real.sqrt ((-3 / 4) * (-3 / 4) + 1) = 1 / 2 := by
  constructor
  · funext i; fin_cases i <;> simp [mulVec, sum3, leftCG, shearF, mmul, tr] <;> norm_num
  · have : ((-3 / 4 : ℝ) * (-3 / 4) + 1) = (5 / 4) ^ 2 := by norm_num
    rw [this, Real.sqrt_sq (by norm_num)]; norm_num

end ModelR.Diag
