import Properties.C19
/-! Witnesses for C19: the defects of the pinned source derived from the faithful model
(`presetsPinned`, `Config.pinned`), each replayed on the real code by the harness before the
repairs, and satisfiability of the hypotheses of the C19 theorems. -/
namespace ModelD.Config
open ModelD.Params

/-- `P()` for a pinned preset -/
def pinnedInstance (c : ClassDef) : Option Instance :=
  match instantiate [c, defaultParams] [] with
  | .ok i => some i
  | .error _ => none

/-- DEFECT (pinned `mock.py`): `preset_declares` is false of the faithful model — the `M* = 0`
preset reports 125 by attribute and through `as_dict()` … -/
example : ∃ c ∈ presetsPinned, c.name = "ParamsKaminski2001_Fig5Solid" ∧
    (declared c).lookup "gbm_mobility" = some (nat 0) ∧
    (pinnedInstance c).bind (getattr · "gbm_mobility") = some (nat 125) ∧
    (pinnedInstance c).bind (fun i => (asDict i).lookup "gbm_mobility") = some (some (nat 125)) := by
  refine ⟨_, List.mem_cons_of_mem _ (List.mem_cons_self), ?_⟩
  decide

/-- … and in fact every pinned preset is indistinguishable from `DefaultParams()` on every field -/
example : ∀ c ∈ presetsPinned, ∀ f ∈ fieldsOf [defaultParams],
    (pinnedInstance c).bind (getattr · f.name) = some f.default := by decide

/-- every pinned preset declares at least one value that differs from what it returns -/
example : ∀ c ∈ presetsPinned, ∃ nv ∈ declared c, (pinnedInstance c).bind (getattr · nv.1) ≠ some nv.2 := by
  decide

/-- annotating alone (no decorator) would not have helped … -/
example : (pinnedInstance ⟨"P", false, [⟨"gbm_mobility", "int", nat 0⟩], []⟩).bind (getattr · "gbm_mobility")
    = some (nat 125) := by decide
/-- … nor the decorator alone … -/
example : (pinnedInstance ⟨"P", true, [], [("gbm_mobility", nat 0)]⟩).bind (getattr · "gbm_mobility")
    = some (nat 125) := by decide
/-- … and with both, the literals of the pinned source (`nucleation_efficiency = 5`) are refused by
`__post_init__`, hence `5.0` in the repair -/
example : instantiate [⟨"P", true, [⟨"nucleation_efficiency", "float", nat 5⟩], []⟩, defaultParams] []
    = .error .valueError := by decide
example : (pinnedInstance ⟨"P", true, [⟨"gbm_mobility", "int", nat 0⟩], []⟩).bind (getattr · "gbm_mobility")
    = some (nat 0) := by decide

/-- an undecorated subclass instance is not even immutable for new names (the generated
`__setattr__` only refuses field names when `type(self)` is a subclass) -/
example : ∃ i, pinnedInstance ⟨"P", false, [], []⟩ = some i ∧
    (setattr i "extra" (nat 1)).toOption.isSome = true ∧
    setattr i "gbm_mobility" (nat 1) = .error .frozenInstanceError := by
  refine ⟨_, rfl, by decide, by decide⟩

/-! ### configuration files, pinned behaviour -/
def okInput : InputIn := ⟨some (.num "1e9"), none, false, true, false, true, false⟩
def minimalOutput : OutputIn := ⟨none, some ["olivine"], some ["olivine"], none, none, none⟩
def cfg (p : Option (ParamsIn Unit)) (i : Option InputIn) (o : Option OutputIn) : ConfigIn Unit := ⟨none, p, i, o⟩
def run (q : Quirks) (attrs : List String) (c : ConfigIn Unit) : Option Err :=
  match parseConfig q attrs (fun _ => false) c with
  | .ok _ => none
  | .error e => some e

/-- DEFECT: `initial_olivine_fabric` omitted ⇒ TypeError (`"olivine_" + <enum>`), also when the
whole `[parameters]` table is omitted -/
example : run pinned [] (cfg (some ⟨none, none, none, none, []⟩) (some okInput) (some minimalOutput)) = some .typeError ∧
    run pinned [] (cfg none (some okInput) (some minimalOutput)) = some .typeError := by decide
/-- DEFECT: `raw_output` / `diagnostics` / the `[output]` table omitted ⇒ KeyError -/
example : run pinned [] (cfg (some ⟨none, none, some (.str "A"), none, []⟩) (some okInput)
      (some { minimalOutput with rawOutput := none })) = some .keyError ∧
    run pinned [] (cfg (some ⟨none, none, some (.str "A"), none, []⟩) (some okInput)
      (some { minimalOutput with diagnostics := none })) = some .keyError ∧
    run pinned [] (cfg (some ⟨none, none, some (.str "A"), none, []⟩) (some okInput) none) = some .keyError := by
  decide
/-- DEFECT: phase ordinal out of range ⇒ ValueError, not ConfigError -/
example : run pinned [] (cfg (some ⟨some [.int 5], none, some (.str "A"), none, []⟩) (some okInput)
    (some { minimalOutput with rawOutput := some [], diagnostics := some [] })) = some .valueError := by decide
/-- DEFECT: a phase name that is another attribute of the IntEnum class is accepted and stored -/
example : (parseConfig pinned ["real"] (fun (_ : List Unit) => false)
      (cfg (some ⟨some [.str "real"], none, some (.str "A"), none, []⟩) (some okInput)
        (some { minimalOutput with rawOutput := some [], diagnostics := some [] }))).toOption.map
        (·.parameters.assemblage) = some [.classAttr "real"] := by decide
/-- DEFECT: non-numeric `timestep` ⇒ TypeError (the message subscripts the builtin `input`) -/
example : run pinned [] (cfg (some ⟨none, none, some (.str "A"), none, []⟩)
    (some { okInput with timestep := some .other }) (some minimalOutput)) = some .typeError := by decide

/-- the repaired parser on the same files -/
example : run repaired [] (cfg none (some okInput) none) = none ∧
    run repaired ["real"] (cfg (some ⟨some [.str "real"], none, none, none, []⟩) (some okInput) none) = some .configError ∧
    run repaired [] (cfg (some ⟨some [.int 5], none, none, none, []⟩) (some okInput) none) = some .configError ∧
    run repaired [] (cfg none (some { okInput with timestep := some .other }) none) = some .configError := by decide

/-- hypotheses of `optional_keys_default` are satisfiable (the minimal file: only `[input]`) -/
example : RequiredInput okInput ∧ ValidParams (fun (_ : List Unit) => false) emptyParams :=
  ⟨⟨by decide, by decide, by decide, by decide, by decide⟩,
   { sum := by intro l h; simp [emptyParams] at h
     len := by decide
     phases := by intro ts h; simp [emptyParams] at h
     fabric := by intro t h; simp [emptyParams] at h
     coeff := by intro n h; simp [emptyParams] at h }⟩

/-- modelled behaviour outside the property: an `[output].paths` entry is always discarded,
because every input mode stores a `paths` entry in the `[input]` table -/
example : (parseConfig repaired [] (fun (_ : List Unit) => false)
    (cfg none (some okInput) (some { minimalOutput with paths := some "['p.scsv']" }))).toOption.map (·.output.paths)
    = some none := by decide

end ModelD.Config
