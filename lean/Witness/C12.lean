import Properties.C12
/-! Non-vacuity of the hypotheses used in `Properties/C12.lean`. -/
set_option linter.unusedSimpArgs false
set_option linter.unusedVariables false
namespace ModelR.Tensors

/-- an orthorhombic stiffness matrix in Voigt form (the pattern of the built-in olivine tensor) -/
def orthoM (a b c d e f g h i : ℝ) : Mat6 := fun p q =>
  match p, q with
  | 0, 0 => a | 1, 1 => b | 2, 2 => c
  | 0, 1 => d | 1, 0 => d | 0, 2 => e | 2, 0 => e | 1, 2 => f | 2, 1 => f
  | 3, 3 => g | 4, 4 => h | 5, 5 => i
  | _, _ => 0

/-- the hypothesis of `ortho_in_frame_vanish` holds for the vector of every orthorhombic matrix -/
example (a b c d e f g h i : ℝ) :
    ∀ k : Fin 21, 9 ≤ k.val → matrixToVector (orthoM a b c d e f g h i) k = 0 := by
  intro k hk
  fin_cases k <;> simp at hk <;> simp [matrixToVector, orthoM, mod3, lo3, up3, nxt, nxt2]

/-- and such a matrix is symmetric and has a non-zero norm (hypotheses of `anisotropy_range`) -/
example : IsSymm6 (orthoM 320 197 234 70 71 75 64 78 79) ∧
    norm21 (matrixToVector (orthoM 320 197 234 70 71 75 64 78 79)) ≠ 0 := by
  constructor
  · intro p q; fin_cases p <;> fin_cases q <;> rfl
  · intro h0
    have hsq := norm21_sq (matrixToVector (orthoM 320 197 234 70 71 75 64 78 79))
    rw [h0] at hsq
    have hpos : 0 < dot21 (matrixToVector (orthoM 320 197 234 70 71 75 64 78 79))
        (matrixToVector (orthoM 320 197 234 70 71 75 64 78 79)) := by
      have h2 := sqrt2_sq
      simp [dot21, matrixToVector, orthoM, mod3, lo3, up3, nxt, nxt2]
      nlinarith [h2]
    linarith

/-- the aligned-eigenbases hypothesis of `sccs_of_aligned_eigenbases` is satisfiable with a
non-trivial signed permutation: `eigV = 1`, `eigD` = columns `(−e₂, e₀, −e₁)` -/
def signedPerm : Mat3 := fun k i =>
  match k, i with
  | 2, 0 => -1 | 0, 1 => 1 | 1, 2 => -1 | _, _ => 0

example : IsOrtho one3 ∧
    ∀ i, ∃ (js : Fin 3) (σ : ℝ), (σ = 1 ∨ σ = -1) ∧ col3 signedPerm i = fun k => σ * one3 k js := by
  refine ⟨by show mmul (tr one3) one3 = one3; rw [tr_one, one_mmul], ?_⟩
  intro i
  fin_cases i
  · exact ⟨2, -1, Or.inr rfl, by funext k; fin_cases k <;> simp [col3, signedPerm, one3]⟩
  · exact ⟨0, 1, Or.inl rfl, by funext k; fin_cases k <;> simp [col3, signedPerm, one3]⟩
  · exact ⟨1, -1, Or.inr rfl, by funext k; fin_cases k <;> simp [col3, signedPerm, one3]⟩

/-- so the SCCS found for these eigenvector matrices is `signedPerm` itself -/
example : sccs signedPerm one3 = signedPerm := by
  apply sccs_of_aligned_eigenbases
  · show mmul (tr one3) one3 = one3; rw [tr_one, one_mmul]
  · intro i
    fin_cases i
    · exact ⟨2, -1, Or.inr rfl, by funext k; fin_cases k <;> simp [col3, signedPerm, one3]⟩
    · exact ⟨0, 1, Or.inl rfl, by funext k; fin_cases k <;> simp [col3, signedPerm, one3]⟩
    · exact ⟨1, -1, Or.inr rfl, by funext k; fin_cases k <;> simp [col3, signedPerm, one3]⟩

/-- the orthorhombic Voigt pattern is satisfiable by a matrix with nine non-zero entries -/
example (a b c d e f g h i : ℝ) : OrthoPat (orthoM a b c d e f g h i) := by
  intro p q hpq
  fin_cases p <;> fin_cases q <;> simp at hpq <;> simp [orthoM]

/-- a candidate frame as in `orthorhombic_mono_tric_vanish` exists for every `R` and every signed
permutation: `P = R Sᵀ` -/
example (R : Mat3) (π : Fin 3 → Fin 3) (ε : Fin 3 → ℝ) :
    tr (mmul R (tr (sperm π ε))) = mmul (sperm π ε) (tr R) := by
  rw [tr_mmul, tr_tr]

example : Function.Injective (fun i : Fin 3 => nxt i) := by
  intro a b; fin_cases a <;> fin_cases b <;> simp [nxt]

end ModelR.Tensors
