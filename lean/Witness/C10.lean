import Properties.C10
/-! Non-vacuity of `WellFormed`, and the negation witnesses for `voigt_averages` BEFORE the repair
commit (`phase_tensors[phase_assemblage.index(mineral.phase)]`): `single_aligned_grain` and
`order_independent_phases` are FALSE of `voigtAveragesOld`.  Replayed on the real code by
`harness/props/c10.py` (cases `single_aligned/en`, `single_aligned/en+ol`): before the repair the
implementation returned the olivine matrix (C11 = 320.71) for one aligned enstatite grain. -/
set_option linter.unusedVariables false
set_option linter.unusedSimpArgs false
namespace ModelR.Tensors

/-- a two-phase, two-snapshot, two-grain aggregate is well-formed -/
example (S0 S1 : Mat6) :
    WellFormed [⟨0, 2, [[one3, one3], [one3, one3]], [[1/2, 1/2], [1/4, 3/4]]⟩,
                ⟨1, 2, [[one3, one3], [one3, one3]], [[1/2, 1/2], [1, 0]]⟩]
      [1, 0] [3/10, 7/10] [S0, S1] 2 2 where
  nonempty := by simp
  grains := by simp
  osteps := by simp
  fsteps := by simp
  rows := by
    intro m hm i hi
    have hi' : i = 0 ∨ i = 1 := by omega
    simp only [List.mem_cons, List.mem_nil_iff, or_false] at hm
    rcases hm with rfl | rfl <;> rcases hi' with rfl | rfl <;>
      exact ⟨by simp, by simp, by simp [List.idxOf_cons], by simp, by simp⟩

/-- the hypotheses of `KG_texture_independent` on orientations are satisfiable by the identity -/
example : IsOrtho (tr one3) := by
  show mmul (tr (tr one3)) (tr one3) = one3
  rw [tr_tr, tr_one, one_mmul]

/-- **the code before the repair**: one aligned ENSTATITE grain (phase 1), assemblage `[enstatite]`,
fraction 1, returns the OLIVINE matrix `S0` (position 0 of the ordinal-ordered list) -/
theorem old_single_enstatite_returns_olivine (S0 S1 : Mat6) (h0 : IsSymm6 S0) :
    voigtAveragesOld [⟨1, 1, [[one3]], [[1]]⟩] [1] [1] [S0, S1] = .ok [S0] := by
  have e : add6 zero6 (grainTerm (voigtToTensor S0) one3 1 1) = S0 := by
    funext i j
    simp [add6, zero6, grainTerm_eq, tr_one, rotate_one, voigt_roundtrip S0 h0]
  simp [voigtAveragesOld, voigtAveragesWith, snapshotsFrom, snapshotTerms, mineralTermsOld, indexOf, optTo,
    grainTerms, sum6, e]

/-- so `single_aligned_grain` is false of the old code whenever the two stiffness matrices differ -/
theorem old_single_aligned_grain_false (S0 S1 : Mat6) (h0 : IsSymm6 S0) (hne : S0 ≠ S1) :
    voigtAveragesOld [⟨1, 1, [[one3]], [[1]]⟩] [1] [1] [S0, S1]
      ≠ .ok [[S0, S1].getD 1 zero6] := by
  rw [old_single_enstatite_returns_olivine S0 S1 h0]
  intro h
  injection h with h
  injection h with h
  exact hne h

/-- and the order of the phase list matters for the old code: with `[olivine, enstatite]` the same
grain gets the enstatite matrix -/
theorem old_order_dependent (S0 S1 : Mat6) (h1 : IsSymm6 S1) :
    voigtAveragesOld [⟨1, 1, [[one3]], [[1]]⟩] [0, 1] [0, 1] [S0, S1] = .ok [S1] := by
  have e : add6 zero6 (grainTerm (voigtToTensor S1) one3 1 1) = S1 := by
    funext i j
    simp [add6, zero6, grainTerm_eq, tr_one, rotate_one, voigt_roundtrip S1 h1]
  simp [voigtAveragesOld, voigtAveragesWith, snapshotsFrom, snapshotTerms, mineralTermsOld, indexOf, optTo,
    grainTerms, sum6, List.idxOf_cons, e]

/-- the repaired model on the same two inputs returns the enstatite matrix both times -/
example (S0 S1 : Mat6) (h1 : IsSymm6 S1) :
    voigtAverages [⟨1, 1, [[one3]], [[1]]⟩] [1] [1] [S0, S1] = .ok [S1] ∧
    voigtAverages [⟨1, 1, [[one3]], [[1]]⟩] [0, 1] [0, 1] [S0, S1] = .ok [S1] := by
  constructor
  · exact single_aligned_grain 1 [1] [1] [S0, S1] (by simp) (by simpa using h1) (by simp) (by simp)
  · exact single_aligned_grain 1 [0, 1] [0, 1] [S0, S1] (by simp) (by simpa using h1) (by simp)
      (by simp [List.idxOf_cons])

end ModelR.Tensors
