import Properties.C01
import Mathlib.Tactic.NormNum
/-! Witnesses for C01. -/
namespace ModelR

/-- **the hypothesis "clipped block has positive sum" of `fractions_simplex` is forced**: for an
all-non-positive fraction block the renormalisation is 0/0. In the real-number model `x/0 = 0`, so
the stored fractions sum to 0, not 1; on the real code the same input gives NaN (replayed by the
harness: `extract_vars 0/0 witness reproduces NaN`). Solver output of that kind is outside the
property's domain (LSODA starts from a simplex and the rates sum to zero), so this is an excluded
point, not a finding. -/
example : (extractTex ⟨[], [-1, 0]⟩).f.sum ≠ 1 := by
  simp [extractTex, clip0, listSum]

/-- the hypothesis is satisfiable -/
example : 0 < (([(1:ℝ) / 2, 1 / 2] : List ℝ).map clip0).sum := by
  simp [clip0]; norm_num

/-- a skew matrix exists with non-zero entries (`skew_conserves` is not vacuous) -/
example : IsSkew (fun i j => if i = 0 ∧ j = 1 then (1:ℝ) else if i = 1 ∧ j = 0 then -1 else 0) := by
  intro i j; fin_cases i <;> fin_cases j <;> simp

end ModelR

namespace ModelR

/-- the hypotheses of `history_valid` are satisfiable: a one-grain mineral with a valid initial snapshot -/
example : GoodSnap 1 ⟨[one3], [1]⟩ := by
  refine ⟨rfl, rfl, by simp, by simp, ?_⟩
  intro a ha i j
  simp only [List.mem_singleton] at ha
  subst ha
  fin_cases i <;> fin_cases j <;> simp [one3]

/-- a failed update satisfies `SolverOutputOk` trivially; so does any solver output of the right shape -/
example : SolverOutputOk 1 none := by
  intro l raw h; cases h

end ModelR
