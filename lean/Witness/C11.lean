import Properties.C11
/-! Non-vacuity of the hypotheses used in `Properties/C11.lean`, a fully triclinic example, and the
negation witness for the code BEFORE the repair commit of `polar_decompose(..., left=False)`. -/
set_option linter.unusedSimpArgs false
namespace ModelR.Tensors

/-- a fully triclinic symmetric matrix: the 21 independent entries are distinct primes -/
def primes6 : Mat6 := fun i j =>
  match (if i ≤ j then (i, j) else (j, i)) with
  | (0, 0) => 2 | (0, 1) => 3 | (0, 2) => 5 | (0, 3) => 7 | (0, 4) => 11 | (0, 5) => 13
  | (1, 1) => 17 | (1, 2) => 19 | (1, 3) => 23 | (1, 4) => 29 | (1, 5) => 31
  | (2, 2) => 37 | (2, 3) => 41 | (2, 4) => 43 | (2, 5) => 47
  | (3, 3) => 53 | (3, 4) => 59 | (3, 5) => 61
  | (4, 4) => 67 | (4, 5) => 71
  | (5, 5) => 73
  | _ => 0

/-- `IsSymm6` is satisfiable by a matrix with no vanishing entry -/
example : IsSymm6 primes6 := by
  intro i j; fin_cases i <;> fin_cases j <;> rfl

/-- an elastic tensor with all symmetries exists and is non-trivial -/
example : IsElastic (voigtToTensor primes6) ∧ voigtToTensor primes6 0 1 1 2 = 61 := by
  refine ⟨voigtToTensor_elastic _ (by intro i j; fin_cases i <;> fin_cases j <;> rfl), ?_⟩
  simp [voigtToTensor, primes6]

/-- `IsOrtho` is satisfiable by a non-identity rotation (quarter turn about z) -/
def rotZ : Mat3 := fun i j =>
  match i, j with
  | 0, 1 => -1 | 1, 0 => 1 | 2, 2 => 1 | _, _ => 0
example : IsOrtho rotZ ∧ rotZ ≠ one3 := by
  constructor
  · funext i j; fin_cases i <;> fin_cases j <;> simp [mmul, tr, rotZ, one3, sum3]
  · intro h; have := congrFun (congrFun h 0) 0; simp [rotZ, one3] at this

/-- the SVD specification is satisfiable, also for a singular matrix -/
def svdSing : SVD := ⟨one3, fun i => if i = 2 then 0 else 1, one3⟩
example : SVDSpec (diag3 svdSing.S) svdSing where
  factor := by simp [svdSing, one_mmul, mmul_one]
  UtU := by simp [svdSing, tr_one, one_mmul]
  UUt := by simp [svdSing, tr_one, one_mmul]
  VVt := by simp [svdSing, tr_one, one_mmul]
  VtV := by simp [svdSing, tr_one, one_mmul]
  nonneg := by intro i; simp only [svdSing]; split_ifs <;> norm_num

/-- similarity hypotheses of `invariants_eq_esymm` are satisfiable by a non-orthogonal `P` -/
def shearP : Mat3 := fun i j => if i = j then 1 else if i = 0 ∧ j = 1 then 2 else 0
def shearPi : Mat3 := fun i j => if i = j then 1 else if i = 0 ∧ j = 1 then -2 else 0
example : mmul shearPi shearP = one3 ∧ mmul shearP shearPi = one3 := by
  constructor <;> funext i j <;> fin_cases i <;> fin_cases j <;> simp [mmul, shearP, shearPi, one3, sum3]

/-! ### the code before the repair: `matrix @ np.linalg.inv(U_matrix)`

Real-number model of the old right branch (cofactor inverse; in ℝ `x / 0 = 0`, where NumPy raises
`LinAlgError: Singular matrix`).  `polar_right` is FALSE for it at singular input: for the zero
matrix (and for `diag(1,1,0)`) the returned "rotation" is not orthogonal.  Replayed on the real code
by `harness/props/c11.py` (kinds `zero`, `diag_singular`, `rank1`, `rank2`): before the repair the
implementation raised `LinAlgError` or returned a non-orthogonal factor; see known_findings/C11.json. -/

noncomputable def inv3 (A : Mat3) : Mat3 := fun i j =>
  (A (nxt j) (nxt i) * A (nxt2 j) (nxt2 i) - A (nxt j) (nxt2 i) * A (nxt2 j) (nxt i)) / det3 A

noncomputable def polarRightOld (M : Mat3) (d : SVD) : Mat3 × Mat3 :=
  let Um := mmul (tr d.Vh) (mmul (diag3 d.S) d.Vh)
  (mmul M (inv3 Um), Um)

def svdZero : SVD := ⟨one3, fun _ => 0, one3⟩

theorem polar_right_old_false :
    ∃ (M : Mat3) (d : SVD), SVDSpec M d ∧
      mmul (tr (polarRightOld M d).1) (polarRightOld M d).1 ≠ one3 := by
  refine ⟨zero3, svdZero, ?_, ?_⟩
  · exact {
      factor := by funext i j; simp [svdZero, zero3, mmul, diag3, sum3]
      UtU := by simp [svdZero, tr_one, one_mmul]
      UUt := by simp [svdZero, tr_one, one_mmul]
      VVt := by simp [svdZero, tr_one, one_mmul]
      VtV := by simp [svdZero, tr_one, one_mmul]
      nonneg := by intro i; simp [svdZero] }
  · intro h
    have := congrFun (congrFun h 0) 0
    simp [polarRightOld, mmul, tr, zero3, one3, sum3] at this

/-- where the inverse exists the old and the repaired rotation factor coincide (so the repair does
not change any result the old code could produce correctly): `M U⁻¹ = U Vh` whenever `U⁻¹` is a
two-sided inverse of the right stretch -/
theorem polar_right_old_eq_new (M : Mat3) (d : SVD) (h : SVDSpec M d) (Ui : Mat3)
    (hUi : mmul (polarRight d).2 Ui = one3) : mmul M Ui = (polarRight d).1 := by
  have hp := polarRight_product h
  calc mmul M Ui = mmul (mmul (polarRight d).1 (polarRight d).2) Ui := by rw [hp]
    _ = (polarRight d).1 := by rw [mmul_assoc, hUi, mmul_one]

end ModelR.Tensors
