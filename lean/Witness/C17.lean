import Properties.C17
/-! Witnesses for C17: satisfiable hypotheses (a two-mineral archive), the pinned `load`
leaving `n_grains` stale, the pinned `save` writing under a non-NPZ name, NUL truncation of
postfixes, and `np.savez` replacing earlier postfix members. -/
namespace ModelD.Npz

def arr1 (n : Nat) (x : UInt64) : Arr := ⟨[n], List.replicate n x⟩
def arr3 (n : Nat) (x : UInt64) : Arr := ⟨[n, 3, 3], List.replicate (n * 9) x⟩

/-- two grains, two snapshots, olivine A-type in dislocation creep -/
def mA : Mineral := ⟨0, 0, 4, 2, [arr1 2 1, arr1 2 2], [arr3 2 3, arr3 2 4]⟩
/-- three grains, one snapshot, enstatite -/
def mB : Mineral := ⟨1, 5, 2, 3, [arr1 3 7], [arr3 3 8]⟩

def fileX : Str := "x.npz".toList
def pfA : Str := "a".toList
def pfB : Str := "b".toList

theorem mA_valid : Valid mA := by
  refine ⟨by decide, by decide, ?_, ?_, by decide⟩ <;>
    (intro a ha; simp [mA, arr1, arr3] at ha; rcases ha with rfl | rfl <;> simp [Arr.WF, mA])
theorem mB_valid : Valid mB := by
  refine ⟨by decide, by decide, ?_, ?_, by decide⟩ <;>
    (intro a ha; simp [mB, arr1, arr3] at ha; subst ha; simp [Arr.WF, mB])

/-- hypotheses of `save_all_then_load` are satisfiable, and the round trip computes -/
example : (saveAll [] fileX [(some pfA, mA), (some pfB, mB)]).2 = .ok () ∧
    fromFile (saveAll [] fileX [(some pfA, mA), (some pfB, mB)]).1 fileX (some pfA) = .ok mA ∧
    fromFile (saveAll [] fileX [(some pfA, mA), (some pfB, mB)]).1 fileX (some pfB) = .ok mB := by decide

/-- DEFECT (pinned source): `Mineral.load` into a mineral built with another grain count keeps
the stale count (2 instead of 3) … -/
example : (loadPinned (saveAll [] fileX [(some pfB, mB)]).1 mA fileX (some pfB)).map (·.nGrains) = .ok 2 := by
  decide
/-- … so the loaded object differs from the saved one; the repaired `load` restores it. -/
example : loadPinned (saveAll [] fileX [(some pfB, mB)]).1 mA fileX (some pfB) ≠ .ok mB ∧
    load (saveAll [] fileX [(some pfB, mB)]).1 mA fileX (some pfB) = .ok mB := by decide

/-- DEFECT (pinned source): `save` under a non-NPZ name with a postfix writes a file that both
loaders refuse; without postfix numpy writes to a different name. -/
example : (savePinned [] mA "z.dat".toList (some pfA)).2 = .ok () ∧
    (fsGet (savePinned [] mA "z.dat".toList (some pfA)).1 "z.dat".toList).isSome = true ∧
    fromFile (savePinned [] mA "z.dat".toList (some pfA)).1 "z.dat".toList (some pfA) = .error .valueError ∧
    (fsGet (savePinned [] mA "y".toList none).1 "y.npz".toList).isSome = true := by decide

/-- KNOWN FINDING (`postfix:nul_truncated`): the hypothesis `NoNul` is forced — `zipfile` cuts
member names at the first NUL, so the saved mineral cannot be found again (`KeyError`) and two
such postfixes collide. -/
example : fromFile (save [] mA fileX (some ['p', Char.ofNat 0, 'q'])).1 fileX (some ['p', Char.ofNat 0, 'q'])
    = .error .keyError := by decide
example : zipName (keyOf kMeta (some ['p', Char.ofNat 0, 'q'])) = zipName (keyOf kMeta (some ['p', Char.ofNat 0, 'r'])) := by
  decide

/-- modelled behaviour outside the property's quantifier: a whole-file save *after* postfix
saves replaces the archive, the postfix members are gone -/
example : fromFile (saveAll [] fileX [(some pfA, mA), (none, mB)]).1 fileX (some pfA) = .error .keyError ∧
    fromFile (saveAll [] fileX [(some pfA, mA), (none, mB)]).1 fileX none = .ok mB := by decide

/-- saving twice under the same postfix: the loader sees the later one -/
example : fromFile (saveAll [] fileX [(some pfA, mA), (some pfA, mB)]).1 fileX (some pfA) = .ok mB := by decide

/-- numpy's `.npy` fallback: only `a.npy` saved, key `a` requested ⇒ the `a.npy` members are
returned (not part of the property: `a` was never saved) -/
example : fromFile (saveAll [] fileX [(some "a.npy".toList, mA)]).1 fileX (some pfA) = .ok mA := by decide

end ModelD.Npz
