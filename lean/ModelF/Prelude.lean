/-! Scalar prelude, Float elaboration (executable, Mathlib-free). -/
namespace ModelF

abbrev R := Float

@[inline] def Rabs (x : R) : R := Float.abs x
@[inline] def Rsqrt (x : R) : R := Float.sqrt x
@[inline] def Rpow (x y : R) : R := Float.pow x y
@[inline] def Rexp (x : R) : R := Float.exp x
@[inline] def Rsin (x : R) : R := Float.sin x
@[inline] def Rcos (x : R) : R := Float.cos x
@[inline] def Racos (x : R) : R := Float.acos x
@[inline] def Ratan (x : R) : R := Float.atan x
@[inline] def Ratan2 (y x : R) : R := Float.atan2 y x
@[inline] def RofNat (n : Nat) : R := n.toFloat
def Rpi : R := 3.141592653589793
/-- `==` on scalars (IEEE: NaN ≠ NaN) -/
@[inline] def Req (a b : R) : Bool := a == b

end ModelF
