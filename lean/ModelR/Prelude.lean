import Mathlib.Data.Real.Basic
import Mathlib.Analysis.Real.Sqrt
import Mathlib.Analysis.SpecialFunctions.Pow.Real
import Mathlib.Analysis.SpecialFunctions.Trigonometric.Inverse
import Mathlib.Analysis.SpecialFunctions.Trigonometric.Arctan
import Mathlib.Analysis.SpecialFunctions.Complex.Arg
/-! Scalar prelude, Real elaboration (noncomputable; what the theorems are about). -/
noncomputable section
namespace ModelR

abbrev R := ℝ

def Rabs (x : R) : R := |x|
def Rsqrt (x : R) : R := Real.sqrt x
def Rpow (x y : R) : R := x ^ y
def Rexp (x : R) : R := Real.exp x
def Rsin (x : R) : R := Real.sin x
def Rcos (x : R) : R := Real.cos x
def Racos (x : R) : R := Real.arccos x
def Ratan (x : R) : R := Real.arctan x
def Ratan2 (y x : R) : R := Complex.arg ⟨x, y⟩
def RofNat (n : Nat) : R := (n : ℝ)
def Rpi : R := Real.pi
/-- `==` on scalars -/
def Req (a b : R) : Bool := decide (a = b)
@[simp] theorem Req_iff (a b : R) : Req a b = true ↔ a = b := by simp [Req]

end ModelR
