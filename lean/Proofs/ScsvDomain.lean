import ModelD.ScsvDomain
import Proofs.ScsvMain
/-! Soundness of the executable domain check (C16): an empty list of failures implies the hypotheses of
the round-trip theorem, hence the round trip itself. -/
namespace Scsv
open Csv

theorem yamlSafe_of_B (s : Str) (h : yamlSafeB s = true) : YamlSafe s := by
  intro c hc
  have := (List.all_eq_true.mp h) c hc
  simpa using this

theorem tyB_eq (f : Field) : f.tyB = f.ty := rfl
theorem fillValueB_eq (E : FloatExt) (f : Field) : fillValueB E f = fillValue E f := rfl

theorem canon_of_B (x : FBits) (h : canonB x = true) : Canon x := by
  intro hn
  simp [canonB, hn] at h
  exact h

theorem fieldFillOK_of_B (E : FloatExt) (f : Field) (h : fillOKB E f = true) : FieldFillOK E f := by
  intro hne
  simp only [fillOKB, Bool.or_eq_true, Bool.and_eq_true, decide_eq_true_eq, beq_iff_eq] at h
  rcases h with h | ⟨h1, h2⟩
  · exact absurd h hne
  · exact ⟨h1, h2⟩

theorem cellOK_of_B (E : FloatExt) (m : Str) (t : Ty) (fv : Val) (d : Val) (h : cellOKB E m t fv d = true) :
    CellOK E m t fv d := by
  simp only [cellOKB, Bool.and_eq_true, decide_eq_true_eq] at h
  obtain ⟨hne, hshape⟩ := h
  refine ⟨hne, ?_⟩
  cases t <;> cases d <;> simp only [] at hshape ⊢ <;> (try (exact absurd hshape Bool.false_ne_true)) <;> (try trivial)
  · simp only [Bool.and_eq_true, decide_eq_true_eq, Bool.not_eq_true', List.contains_eq_mem, decide_eq_false_iff_not] at hshape
    exact ⟨hshape.1.1, hshape.1.2, hshape.2⟩
  · exact canon_of_B _ hshape
  · simp only [Bool.and_eq_true] at hshape
    refine ⟨canon_of_B _ hshape.1.1, canon_of_B _ hshape.1.2, ?_⟩
    cases fv <;> simp only [] at hshape ⊢
    intro hcond
    have := hshape.2
    simp only [Bool.or_eq_true, Bool.not_eq_true'] at this
    rcases this with h0 | h0
    · rw [hcond] at h0; cases h0
    · simpa [partEqB, partEq] using h0

theorem forall₂_of_zip_all {α β} (P : α → β → Prop) (p : α → β → Bool) (hp : ∀ a b, p a b = true → P a b)
    (l₁ : List α) (l₂ : List β) (hlen : l₁.length = l₂.length)
    (h : (l₁.zip l₂).all (fun (a, b) => p a b) = true) : Forall₂ P l₁ l₂ := by
  induction l₁ generalizing l₂ with
  | nil => cases l₂ with
    | nil => exact .nil
    | cons _ _ => simp at hlen
  | cons a t ih =>
    cases l₂ with
    | nil => simp at hlen
    | cons b t' =>
      simp only [List.zip_cons_cons, List.all_cons, Bool.and_eq_true] at h
      exact .cons (hp a b h.1) (ih t' (by simpa using hlen) h.2)

theorem forall₂_colOK_of (E : FloatExt) (m : Str) (fs : List Field) (data : List (List Val))
    (hfill : ∀ f ∈ fs, FieldFillOK E f)
    (hcells : Forall₂ (fun f col => ∀ d ∈ col, CellOK E m f.ty (fillValue E f) d) fs data) :
    Forall₂ (ColOK E m) fs data := by
  induction hcells with
  | nil => exact .nil
  | @cons f col fs' data' hc _ ih =>
    exact .cons ⟨hfill f (by simp), hc⟩ (ih (fun f' hf' => hfill f' (by simp [hf'])))

theorem chk_nil (name : String) (b : Bool) (h : (if b then ([] : List String) else [name]) = []) : b = true := by
  cases b
  · simp at h
  · rfl

/-- **soundness of the domain check**: no reported failure ⇒ all hypotheses of the round-trip theorem -/
theorem domainFailures_sound (E : FloatExt) (s : Schema) (data : List (List Val))
    (h : domainFailures E s data = []) :
    ∃ dc m fs n, s = ⟨some [dc], some m, some fs⟩ ∧ SchemaValid s ∧ HeaderOK E dc m fs ∧ 0 < n ∧ Rect n data ∧
      Forall₂ (ColOK E m) fs data ∧ (dc = ' ' → m ≠ [] ∧ ∀ col ∈ data, ∀ d ∈ col, pyStr E d ≠ []) := by
  unfold domainFailures at h
  split at h
  · rename_i dc m fs hd hm hf
    simp only [List.append_eq_nil_iff, and_assoc] at h
    obtain ⟨h1, h2, h3, h4, h5, h6, h7, h8, h9, h10, h11, h12, h13⟩ := h
    have b1 := chk_nil _ _ h1; have b2 := chk_nil _ _ h2; have b3 := chk_nil _ _ h3; have b4 := chk_nil _ _ h4
    have b5 := chk_nil _ _ h5; have b6 := chk_nil _ _ h6; have b7 := chk_nil _ _ h7; have b8 := chk_nil _ _ h8
    have b9 := chk_nil _ _ h9; have b10 := chk_nil _ _ h10; have b11 := chk_nil _ _ h11; have b12 := chk_nil _ _ h12
    have b13 := chk_nil _ _ h13
    have hs : s = ⟨some [dc], some m, some fs⟩ := by cases s; simp_all
    simp only [decide_eq_true_eq] at b1 b4
    have hlen : fs.length = data.length := by simpa using (beq_iff_eq.mp b10).symm
    -- rows
    obtain ⟨n, hn, hrect⟩ : ∃ n, 0 < n ∧ Rect n data := by
      cases data with
      | nil => simp at b9
      | cons c cs =>
        simp only [Bool.and_eq_true, decide_eq_true_eq, List.all_eq_true, beq_iff_eq] at b9
        refine ⟨c.length, b9.1, ?_⟩
        intro x hx
        simp only [List.mem_cons] at hx
        rcases hx with rfl | hx
        · rfl
        · exact b9.2 x hx
    refine ⟨dc, m, fs, n, hs, (validate_iff s).1 b1, ?_, hn, hrect, ?_, ?_⟩
    · refine ⟨?_, yamlSafe_of_B _ b3, b4, yamlSafe_of_B _ b5, by simpa [fieldNames] using b6, ?_, ?_⟩
      · simp only [Bool.and_eq_true, bne_iff_ne, ne_eq] at b2
        exact ⟨b2.1.1, b2.1.2, b2.2⟩
      · intro f hf' u hu
        have := (List.all_eq_true.mp b7) f hf'
        simp only [hu] at this
        exact yamlSafe_of_B u this
      · intro f hf' v hv
        have := (List.all_eq_true.mp b8) f hf'
        simp only [hv] at this
        exact yamlSafe_of_B _ this
    · -- columns
      have hfill : ∀ f ∈ fs, FieldFillOK E f := fun f hf' => fieldFillOK_of_B E f ((List.all_eq_true.mp b11) f hf')
      have hcells : Forall₂ (fun f col => ∀ d ∈ col, CellOK E m f.ty (fillValue E f) d) fs data := by
        apply forall₂_of_zip_all _ (fun f col => col.all (cellOKB E m f.tyB (fillValueB E f))) _ fs data hlen b12
        intro f col hall d hd
        exact cellOK_of_B E m f.ty (fillValue E f) d ((List.all_eq_true.mp hall) d hd)
      exact forall₂_colOK_of E m fs data hfill hcells
    · intro hsp
      simp only [Bool.or_eq_true, bne_iff_ne, ne_eq, Bool.and_eq_true, Bool.not_eq_true', List.all_eq_true] at b13
      rcases b13 with b13 | b13
      · exact absurd hsp b13
      · refine ⟨by intro e; simp [e] at b13, ?_⟩
        intro col hcol d hd e
        have := b13.2 col hcol d hd
        simp [e] at this
  · cases h

/-- **checked round trip**: whenever the executable domain check reports no failure (and the externals
satisfy their spec), reading back the saved file returns the names and the table with fill substitution. -/
theorem domain_checked_roundtrip (E : FloatExt) (hE : FloatSpec E) (s : Schema) (data : List (List Val))
    (h : domainFailures E s data = []) :
    ∃ txt fs, s.fields = some fs ∧ save E s data = .ok txt ∧
      read E txt = .ok (fieldNames fs, expectedTable E fs data) := by
  obtain ⟨dc, m, fs, n, rfl, hv, hh, hn, hrect, hcols, hblank⟩ := domainFailures_sound E s data h
  obtain ⟨txt, h1, h2⟩ := read_save E hE dc m fs data n hv hh hn hrect hcols hblank
  exact ⟨txt, fs, rfl, h1, h2⟩

end Scsv
