import ModelR.Tensors
import Mathlib.Tactic.Ring
import Mathlib.Tactic.Linarith
import Mathlib.Tactic.FieldSimp
import Mathlib.Tactic.FinCases
import Mathlib.Tactic.LinearCombination
import Mathlib.Tactic.NormNum
/-! Helper lemmas for `tensors.py` (C10, C11, C12). -/
set_option linter.unusedSimpArgs false
set_option linter.unusedTactic false
set_option linter.unreachableTactic false
set_option linter.unusedVariables false
namespace ModelR.Tensors

/-! ### scalars -/
theorem sqrt2_sq : sqrt2 * sqrt2 = 2 := by
  unfold sqrt2 Rsqrt; exact Real.mul_self_sqrt (by norm_num)
theorem sqrt2_pos : 0 < sqrt2 := by
  unfold sqrt2 Rsqrt; exact Real.sqrt_pos.mpr (by norm_num)
theorem sqrt2_ne : sqrt2 ≠ 0 := sqrt2_pos.ne'
theorem half_eq : (0.5 : ℝ) = 1 / 2 := by norm_num

/-! ### index map -/
@[simp] theorem vidx00 : vidx 0 0 = 0 := by decide
@[simp] theorem vidx11 : vidx 1 1 = 1 := by decide
@[simp] theorem vidx22 : vidx 2 2 = 2 := by decide
@[simp] theorem vidx12 : vidx 1 2 = 3 := by decide
@[simp] theorem vidx21 : vidx 2 1 = 3 := by decide
@[simp] theorem vidx02 : vidx 0 2 = 4 := by decide
@[simp] theorem vidx20 : vidx 2 0 = 4 := by decide
@[simp] theorem vidx01 : vidx 0 1 = 5 := by decide
@[simp] theorem vidx10 : vidx 1 0 = 5 := by decide
theorem vidx_symm (p q : Fin 3) : vidx p q = vidx q p := by revert p q; decide

/-! ### `upper_tri_to_symmetric` -/
theorem upperTri_apply {n : ℕ} (a : Fin n → Fin n → ℝ) (i j : Fin n) :
    upperTriToSymmetric a i j = if i ≤ j then a i j else a j i := by
  unfold upperTriToSymmetric triu
  by_cases hij : i ≤ j
  · by_cases hji : j ≤ i
    · have : i = j := le_antisymm hij hji
      subst this; simp
    · simp only [hij, hji, if_true, if_false]
      split_ifs with h
      · exact (le_antisymm h.1 h.2).symm
      · rfl
  · have hji : j ≤ i := le_of_not_ge hij
    simp [hij, hji]

theorem upperTri_symm {n : ℕ} (a : Fin n → Fin n → ℝ) (i j : Fin n) :
    upperTriToSymmetric a i j = upperTriToSymmetric a j i := by
  rw [upperTri_apply, upperTri_apply]
  by_cases hij : i ≤ j <;> by_cases hji : j ≤ i
  · have : i = j := le_antisymm hij hji
    subst this; rfl
  · simp [hij, hji]
  · simp [hij, hji]
  · exact absurd (le_of_not_ge hij) hji

theorem upperTri_of_symm {n : ℕ} (a : Fin n → Fin n → ℝ) (h : ∀ i j, a i j = a j i) :
    upperTriToSymmetric a = a := by
  funext i j; rw [upperTri_apply]; split_ifs
  · rfl
  · exact h j i

/-! ### 6x6 <-> 3x3x3x3 -/
/-- the three elastic symmetries of a 4th-order tensor -/
structure IsElastic (T : Ten4) : Prop where
  minorL : ∀ p q r s, T p q r s = T q p r s
  minorR : ∀ p q r s, T p q r s = T p q s r
  major : ∀ p q r s, T p q r s = T r s p q

def IsSymm6 (M : Mat6) : Prop := ∀ i j, M i j = M j i

theorem voigtToTensor_elastic (M : Mat6) (hM : IsSymm6 M) : IsElastic (voigtToTensor M) where
  minorL p q r s := by simp only [voigtToTensor, vidx_symm p q]
  minorR p q r s := by simp only [voigtToTensor, vidx_symm r s]
  major p q r s := by simp only [voigtToTensor]; exact hM _ _

set_option maxHeartbeats 400000 in
theorem tensorToVoigt_voigtToTensor (M : Mat6) :
    tensorToVoigt (voigtToTensor M) = fun i j => (M i j + M j i) / 2 := by
  funext i j
  fin_cases i <;> fin_cases j <;>
    simp [tensorToVoigt, accum, accumCount, voigtToTensor, sum81, sum3] <;> ring

theorem voigt_roundtrip (M : Mat6) (hM : IsSymm6 M) : tensorToVoigt (voigtToTensor M) = M := by
  rw [tensorToVoigt_voigtToTensor]; funext i j; rw [← hM i j]; ring

/-- inverse of the index map: a representative pair for each Voigt index -/
def unv : Fin 6 → Fin 3 × Fin 3
  | 0 => (0, 0) | 1 => (1, 1) | 2 => (2, 2) | 3 => (1, 2) | 4 => (0, 2) | 5 => (0, 1)

theorem vidx_unv (i : Fin 6) : vidx (unv i).1 (unv i).2 = i := by revert i; decide

def canon (T : Ten4) : Mat6 := fun i j => T (unv i).1 (unv i).2 (unv j).1 (unv j).2

theorem elastic_eq_voigtToTensor (T : Ten4) (h : IsElastic T) : T = voigtToTensor (canon T) := by
  funext p q r s
  fin_cases p <;> fin_cases q <;> fin_cases r <;> fin_cases s <;>
    simp [voigtToTensor, canon, unv] <;>
    first
      | exact h.minorL _ _ _ _
      | exact h.minorR _ _ _ _
      | exact (h.minorL _ _ _ _).trans (h.minorR _ _ _ _)

theorem canon_symm (T : Ten4) (h : IsElastic T) : IsSymm6 (canon T) := fun _ _ => h.major _ _ _ _

theorem tensor_roundtrip (T : Ten4) (h : IsElastic T) : voigtToTensor (tensorToVoigt T) = T := by
  conv_lhs => rw [elastic_eq_voigtToTensor T h, voigt_roundtrip _ (canon_symm T h)]
  exact (elastic_eq_voigtToTensor T h).symm

/-! ### 21-vector -/

theorem matrixToVector_vectorToMatrix (v : Vec21) : matrixToVector (vectorToMatrix v) = v := by
  have hs := sqrt2_ne
  funext k
  fin_cases k <;>
    simp [matrixToVector, vectorToMatrix, upperTri_apply, vectorToUpper, nxt, nxt2, half_eq, mod3, lo3, up3] <;>
    field_simp

/-- `voigt_matrix_to_vector` reads the entries `[2,0]` and `[5,3]` from the LOWER triangle (the
`(i+1)%3, (i+2)%3` pattern at `i = 1`), all others from the upper triangle or the diagonal. -/
theorem vectorToMatrix_matrixToVector (M : Mat6) (h20 : M 2 0 = M 0 2) (h53 : M 5 3 = M 3 5) :
    vectorToMatrix (matrixToVector M) = upperTriToSymmetric M := by
  have hs := sqrt2_ne
  funext i j
  fin_cases i <;> fin_cases j <;>
    simp [matrixToVector, vectorToMatrix, upperTri_apply, vectorToUpper, nxt, nxt2, half_eq, mod3, lo3, up3, h20, h53] <;>
    field_simp

theorem vector_roundtrip (M : Mat6) (hM : IsSymm6 M) : vectorToMatrix (matrixToVector M) = M := by
  rw [vectorToMatrix_matrixToVector M (hM _ _) (hM _ _), upperTri_of_symm M hM]

def dot21 (x y : Vec21) : ℝ :=
  x 0 * y 0 + x 1 * y 1 + x 2 * y 2 + x 3 * y 3 + x 4 * y 4 + x 5 * y 5 + x 6 * y 6 + x 7 * y 7
  + x 8 * y 8 + x 9 * y 9 + x 10 * y 10 + x 11 * y 11 + x 12 * y 12 + x 13 * y 13 + x 14 * y 14
  + x 15 * y 15 + x 16 * y 16 + x 17 * y 17 + x 18 * y 18 + x 19 * y 19 + x 20 * y 20

/-- squared Frobenius norm of a 4th-order tensor -/
def frob4 (T : Ten4) : ℝ := sum81 fun p q r s => T p q r s * T p q r s

/-- weighted squared norm of the 6x6 matrix that equals the Frobenius norm of its tensor -/
def mult6 : Fin 6 → ℝ | 0 => 1 | 1 => 1 | 2 => 1 | _ => 2

theorem frob4_voigtToTensor (M : Mat6) :
    frob4 (voigtToTensor M) =
      (M 0 0 * M 0 0 + M 0 1 * M 0 1 + M 0 2 * M 0 2 + M 1 0 * M 1 0 + M 1 1 * M 1 1 + M 1 2 * M 1 2
        + M 2 0 * M 2 0 + M 2 1 * M 2 1 + M 2 2 * M 2 2)
      + 2 * (M 0 3 * M 0 3 + M 0 4 * M 0 4 + M 0 5 * M 0 5 + M 1 3 * M 1 3 + M 1 4 * M 1 4 + M 1 5 * M 1 5
        + M 2 3 * M 2 3 + M 2 4 * M 2 4 + M 2 5 * M 2 5)
      + 2 * (M 3 0 * M 3 0 + M 4 0 * M 4 0 + M 5 0 * M 5 0 + M 3 1 * M 3 1 + M 4 1 * M 4 1 + M 5 1 * M 5 1
        + M 3 2 * M 3 2 + M 4 2 * M 4 2 + M 5 2 * M 5 2)
      + 4 * (M 3 3 * M 3 3 + M 3 4 * M 3 4 + M 3 5 * M 3 5 + M 4 3 * M 4 3 + M 4 4 * M 4 4 + M 4 5 * M 4 5
        + M 5 3 * M 5 3 + M 5 4 * M 5 4 + M 5 5 * M 5 5) := by
  simp [frob4, sum81, sum3, voigtToTensor]; ring

theorem vector_isometry (M : Mat6) (hM : IsSymm6 M) :
    dot21 (matrixToVector M) (matrixToVector M) = frob4 (voigtToTensor M) := by
  rw [frob4_voigtToTensor]
  simp [dot21, matrixToVector, mod3, lo3, up3, nxt, nxt2]
  rw [hM 1 0, hM 2 0, hM 2 1, hM 3 0, hM 3 1, hM 3 2, hM 4 0, hM 4 1, hM 4 2, hM 4 3,
    hM 5 0, hM 5 1, hM 5 2, hM 5 3, hM 5 4]
  linear_combination (M 1 2 * M 1 2 + M 0 2 * M 0 2 + M 0 1 * M 0 1
    + 4 * (M 4 5 * M 4 5 + M 3 5 * M 3 5 + M 3 4 * M 3 4)) * sqrt2_sq


/-! ### rotation as four one-slot contractions -/
def con1 (Q : Mat3) (T : Ten4) : Ten4 := fun i b c d => sum3 fun a => Q i a * T a b c d
def con2 (Q : Mat3) (T : Ten4) : Ten4 := fun a j c d => sum3 fun b => Q j b * T a b c d
def con3 (Q : Mat3) (T : Ten4) : Ten4 := fun a b k d => sum3 fun c => Q k c * T a b c d
def con4 (Q : Mat3) (T : Ten4) : Ten4 := fun a b c l => sum3 fun d => Q l d * T a b c d

theorem rotate_eq_con (T : Ten4) (Q : Mat3) : rotate T Q = con1 Q (con2 Q (con3 Q (con4 Q T))) := by
  funext i j k l
  simp only [rotate, con1, con2, con3, con4, sum81, sum3]; ring

theorem con1_con1 (P Q : Mat3) (T : Ten4) : con1 P (con1 Q T) = con1 (mmul P Q) T := by
  funext i j k l; simp only [con1, mmul, sum3]; ring
theorem con2_con2 (P Q : Mat3) (T : Ten4) : con2 P (con2 Q T) = con2 (mmul P Q) T := by
  funext i j k l; simp only [con2, mmul, sum3]; ring
theorem con3_con3 (P Q : Mat3) (T : Ten4) : con3 P (con3 Q T) = con3 (mmul P Q) T := by
  funext i j k l; simp only [con3, mmul, sum3]; ring
theorem con4_con4 (P Q : Mat3) (T : Ten4) : con4 P (con4 Q T) = con4 (mmul P Q) T := by
  funext i j k l; simp only [con4, mmul, sum3]; ring

theorem con2_con1 (P Q : Mat3) (T : Ten4) : con2 P (con1 Q T) = con1 Q (con2 P T) := by
  funext i j k l; simp only [con1, con2, sum3]; ring
theorem con3_con1 (P Q : Mat3) (T : Ten4) : con3 P (con1 Q T) = con1 Q (con3 P T) := by
  funext i j k l; simp only [con1, con3, sum3]; ring
theorem con4_con1 (P Q : Mat3) (T : Ten4) : con4 P (con1 Q T) = con1 Q (con4 P T) := by
  funext i j k l; simp only [con1, con4, sum3]; ring
theorem con3_con2 (P Q : Mat3) (T : Ten4) : con3 P (con2 Q T) = con2 Q (con3 P T) := by
  funext i j k l; simp only [con2, con3, sum3]; ring
theorem con4_con2 (P Q : Mat3) (T : Ten4) : con4 P (con2 Q T) = con2 Q (con4 P T) := by
  funext i j k l; simp only [con2, con4, sum3]; ring
theorem con4_con3 (P Q : Mat3) (T : Ten4) : con4 P (con3 Q T) = con3 Q (con4 P T) := by
  funext i j k l; simp only [con3, con4, sum3]; ring

theorem con1_one (T : Ten4) : con1 one3 T = T := by
  funext i j k l; fin_cases i <;> simp [con1, one3, sum3]
theorem con2_one (T : Ten4) : con2 one3 T = T := by
  funext i j k l; fin_cases j <;> simp [con2, one3, sum3]
theorem con3_one (T : Ten4) : con3 one3 T = T := by
  funext i j k l; fin_cases k <;> simp [con3, one3, sum3]
theorem con4_one (T : Ten4) : con4 one3 T = T := by
  funext i j k l; fin_cases l <;> simp [con4, one3, sum3]

theorem rotate_one (T : Ten4) : rotate T one3 = T := by
  rw [rotate_eq_con, con4_one, con3_one, con2_one, con1_one]

/-- **group action**: rotating by `Q₁` then by `Q₂` is rotating by `Q₂ Q₁` (any matrices) -/
theorem rotate_comp (T : Ten4) (Q₁ Q₂ : Mat3) :
    rotate (rotate T Q₁) Q₂ = rotate T (mmul Q₂ Q₁) := by
  simp only [rotate_eq_con]
  rw [con4_con1, con4_con2, con4_con3, con4_con4]
  rw [con3_con1, con3_con2, con3_con3]
  rw [con2_con1, con2_con2, con1_con1]

/-- `QᵀQ = 1` -/
def IsOrtho (Q : Mat3) : Prop := mmul (tr Q) Q = one3

theorem IsOrtho.col (Q : Mat3) (h : IsOrtho Q) (a b : Fin 3) :
    Q 0 a * Q 0 b + Q 1 a * Q 1 b + Q 2 a * Q 2 b = if a = b then 1 else 0 := by
  have := congrFun (congrFun h a) b
  simpa [mmul, tr, one3, sum3] using this


theorem IsOrtho.c00 {Q : Mat3} (h : IsOrtho Q) : Q 0 0 * Q 0 0 + Q 1 0 * Q 1 0 + Q 2 0 * Q 2 0 = 1 := by
  simpa using h.col Q 0 0
theorem IsOrtho.c11 {Q : Mat3} (h : IsOrtho Q) : Q 0 1 * Q 0 1 + Q 1 1 * Q 1 1 + Q 2 1 * Q 2 1 = 1 := by
  simpa using h.col Q 1 1
theorem IsOrtho.c22 {Q : Mat3} (h : IsOrtho Q) : Q 0 2 * Q 0 2 + Q 1 2 * Q 1 2 + Q 2 2 * Q 2 2 = 1 := by
  simpa using h.col Q 2 2
theorem IsOrtho.c01 {Q : Mat3} (h : IsOrtho Q) : Q 0 0 * Q 0 1 + Q 1 0 * Q 1 1 + Q 2 0 * Q 2 1 = 0 := by
  simpa using h.col Q 0 1
theorem IsOrtho.c02 {Q : Mat3} (h : IsOrtho Q) : Q 0 0 * Q 0 2 + Q 1 0 * Q 1 2 + Q 2 0 * Q 2 2 = 0 := by
  simpa using h.col Q 0 2
theorem IsOrtho.c12 {Q : Mat3} (h : IsOrtho Q) : Q 0 1 * Q 0 2 + Q 1 1 * Q 1 2 + Q 2 1 * Q 2 2 = 0 := by
  simpa using h.col Q 1 2

/-- `(Q s) · (Q t) = s · t` for `QᵀQ = 1` -/
theorem ortho_dot {Q : Mat3} (h : IsOrtho Q) (s t : Fin 3 → ℝ) :
    (sum3 fun i => (sum3 fun a => Q i a * s a) * (sum3 fun a => Q i a * t a)) = sum3 fun a => s a * t a := by
  simp only [sum3]
  linear_combination (s 0 * t 0) * h.c00 + (s 1 * t 1) * h.c11 + (s 2 * t 2) * h.c22
    + (s 0 * t 1 + s 1 * t 0) * h.c01 + (s 0 * t 2 + s 2 * t 0) * h.c02 + (s 1 * t 2 + s 2 * t 1) * h.c12

/-- `Σ_k (Q s)_k ... ` with two different contracted slots: `Σ_k Σ_c Σ_d Q k c Q k d X c d = Σ_c X c c` -/
theorem ortho_trace {Q : Mat3} (h : IsOrtho Q) (X : Fin 3 → Fin 3 → ℝ) :
    (sum3 fun k => sum3 fun c => Q k c * sum3 fun d => Q k d * X c d) = sum3 fun c => X c c := by
  simp only [sum3]
  linear_combination (X 0 0) * h.c00 + (X 1 1) * h.c11 + (X 2 2) * h.c22
    + (X 0 1 + X 1 0) * h.c01 + (X 0 2 + X 2 0) * h.c02 + (X 1 2 + X 2 1) * h.c12

/-- inner product of 4th-order tensors -/
def inner4 (S T : Ten4) : ℝ := sum81 fun p q r s => S p q r s * T p q r s

theorem frob4_eq_inner4 (T : Ten4) : frob4 T = inner4 T T := rfl

theorem inner4_con1 {Q : Mat3} (h : IsOrtho Q) (S T : Ten4) : inner4 (con1 Q S) (con1 Q T) = inner4 S T := by
  have e : ∀ S T : Ten4, inner4 S T
      = sum3 fun q => sum3 fun r => sum3 fun s => sum3 fun p => S p q r s * T p q r s := by
    intro S T; simp only [inner4, sum81, sum3]; ring
  rw [e, e]
  congr 1; funext q; congr 1; funext r; congr 1; funext s
  exact ortho_dot h (fun a => S a q r s) (fun a => T a q r s)

theorem inner4_con2 {Q : Mat3} (h : IsOrtho Q) (S T : Ten4) : inner4 (con2 Q S) (con2 Q T) = inner4 S T := by
  have e : ∀ S T : Ten4, inner4 S T
      = sum3 fun p => sum3 fun r => sum3 fun s => sum3 fun q => S p q r s * T p q r s := by
    intro S T; simp only [inner4, sum81, sum3]; ring
  rw [e, e]
  congr 1; funext p; congr 1; funext r; congr 1; funext s
  exact ortho_dot h (fun a => S p a r s) (fun a => T p a r s)

theorem inner4_con3 {Q : Mat3} (h : IsOrtho Q) (S T : Ten4) : inner4 (con3 Q S) (con3 Q T) = inner4 S T := by
  have e : ∀ S T : Ten4, inner4 S T
      = sum3 fun p => sum3 fun q => sum3 fun s => sum3 fun r => S p q r s * T p q r s := by
    intro S T; simp only [inner4, sum81, sum3]; ring
  rw [e, e]
  congr 1; funext p; congr 1; funext q; congr 1; funext s
  exact ortho_dot h (fun a => S p q a s) (fun a => T p q a s)

theorem inner4_con4 {Q : Mat3} (h : IsOrtho Q) (S T : Ten4) : inner4 (con4 Q S) (con4 Q T) = inner4 S T := by
  simp only [inner4, sum81]
  congr 1; funext p; congr 1; funext q; congr 1; funext r
  exact ortho_dot h (fun a => S p q r a) (fun a => T p q r a)

/-- rotation by an orthogonal matrix preserves the inner product of 4th-order tensors -/
theorem inner4_rotate {Q : Mat3} (h : IsOrtho Q) (S T : Ten4) :
    inner4 (rotate S Q) (rotate T Q) = inner4 S T := by
  rw [rotate_eq_con, rotate_eq_con, inner4_con1 h, inner4_con2 h, inner4_con3 h, inner4_con4 h]

theorem frob4_rotate {Q : Mat3} (h : IsOrtho Q) (T : Ten4) : frob4 (rotate T Q) = frob4 T :=
  inner4_rotate h T T

/-! ### the two contractions of a 4th-order tensor -/
/-- `d_ij = C_ijkk` -/
def dilat4 (T : Ten4) : Mat3 := fun i j => sum3 fun k => T i j k k
/-- `v_ij = C_ikjk` -/
def deviat4 (T : Ten4) : Mat3 := fun i j => sum3 fun k => T i k j k

theorem dilat4_con1 (Q : Mat3) (T : Ten4) : dilat4 (con1 Q T) = mmul Q (dilat4 T) := by
  funext i j; simp only [dilat4, con1, mmul, sum3]; ring
theorem dilat4_con2 (Q : Mat3) (T : Ten4) : dilat4 (con2 Q T) = mmul (dilat4 T) (tr Q) := by
  funext i j; simp only [dilat4, con2, mmul, tr, sum3]; ring
theorem dilat4_con34 {Q : Mat3} (h : IsOrtho Q) (T : Ten4) : dilat4 (con3 Q (con4 Q T)) = dilat4 T := by
  funext i j; exact ortho_trace h (fun c d => T i j c d)

theorem deviat4_con1 (Q : Mat3) (T : Ten4) : deviat4 (con1 Q T) = mmul Q (deviat4 T) := by
  funext i j; simp only [deviat4, con1, mmul, sum3]; ring
theorem deviat4_con3 (Q : Mat3) (T : Ten4) : deviat4 (con3 Q T) = mmul (deviat4 T) (tr Q) := by
  funext i j; simp only [deviat4, con3, mmul, tr, sum3]; ring
theorem deviat4_con24 {Q : Mat3} (h : IsOrtho Q) (T : Ten4) : deviat4 (con2 Q (con4 Q T)) = deviat4 T := by
  funext i j; exact ortho_trace h (fun c d => T i c j d)

/-- the dilatational stiffness tensor co-rotates as a 2nd-order tensor -/
theorem dilat4_rotate {Q : Mat3} (h : IsOrtho Q) (T : Ten4) :
    dilat4 (rotate T Q) = mmul Q (mmul (dilat4 T) (tr Q)) := by
  rw [rotate_eq_con, dilat4_con1, dilat4_con2, dilat4_con34 h]

/-- the deviatoric stiffness tensor co-rotates as a 2nd-order tensor -/
theorem deviat4_rotate {Q : Mat3} (h : IsOrtho Q) (T : Ten4) :
    deviat4 (rotate T Q) = mmul Q (mmul (deviat4 T) (tr Q)) := by
  rw [rotate_eq_con, ← con3_con2, deviat4_con1, deviat4_con3, deviat4_con24 h]

theorem trace3_conj {Q : Mat3} (h : IsOrtho Q) (X : Mat3) :
    trace3 (mmul Q (mmul X (tr Q))) = trace3 X := by
  simp only [trace3, mmul, tr, sum3]
  linear_combination (X 0 0) * h.c00 + (X 1 1) * h.c11 + (X 2 2) * h.c22
    + (X 0 1 + X 1 0) * h.c01 + (X 0 2 + X 2 0) * h.c02 + (X 1 2 + X 2 1) * h.c12


/-! ### rotation preserves the elastic symmetries -/
theorem rotate_voigt_minorL (M : Mat6) (Q : Mat3) (i j k l : Fin 3) :
    rotate (voigtToTensor M) Q i j k l = rotate (voigtToTensor M) Q j i k l := by
  simp [rotate, sum81, sum3, voigtToTensor]; ring
theorem rotate_voigt_minorR (M : Mat6) (Q : Mat3) (i j k l : Fin 3) :
    rotate (voigtToTensor M) Q i j k l = rotate (voigtToTensor M) Q i j l k := by
  simp [rotate, sum81, sum3, voigtToTensor]; ring
theorem rotate_voigt_major (M : Mat6) (hM : IsSymm6 M) (Q : Mat3) (i j k l : Fin 3) :
    rotate (voigtToTensor M) Q i j k l = rotate (voigtToTensor M) Q k l i j := by
  simp [rotate, sum81, sum3, voigtToTensor]
  rw [hM 1 0, hM 2 0, hM 2 1, hM 3 0, hM 3 1, hM 3 2, hM 4 0, hM 4 1, hM 4 2, hM 4 3,
    hM 5 0, hM 5 1, hM 5 2, hM 5 3, hM 5 4]
  ring

theorem rotate_elastic (T : Ten4) (h : IsElastic T) (Q : Mat3) : IsElastic (rotate T Q) := by
  rw [elastic_eq_voigtToTensor T h]
  exact ⟨rotate_voigt_minorL _ Q, rotate_voigt_minorR _ Q, rotate_voigt_major _ (canon_symm T h) Q⟩

/-- rotating a rank-one tensor rotates its four factors (the tensor transformation law) -/
theorem rotate_dyad (u v w x : Fin 3 → ℝ) (Q : Mat3) :
    rotate (fun a b c d => u a * v b * w c * x d) Q
      = fun i j k l => mulVec Q u i * mulVec Q v j * mulVec Q w k * mulVec Q x l := by
  funext i j k l; simp only [rotate, sum81, sum3, mulVec]; ring

theorem rotate_inv {Q : Mat3} (h : IsOrtho Q) (T : Ten4) : rotate (rotate T Q) (tr Q) = T := by
  rw [rotate_comp, h, rotate_one]

/-! ### `voigt_decompose` computes the two contractions -/
theorem voigtDilat_eq (M : Mat6) (hM : IsSymm6 M) : voigtDilat M = dilat4 (voigtToTensor M) := by
  funext i j
  fin_cases i <;> fin_cases j <;> simp [voigtDilat, col3sum, dilat4, voigtToTensor, sum3] <;>
    (try simp only [hM 1 0, hM 2 0, hM 2 1, hM 3 0, hM 3 1, hM 3 2, hM 4 0, hM 4 1, hM 4 2, hM 4 3,
      hM 5 0, hM 5 1, hM 5 2, hM 5 3, hM 5 4]) <;> ring
theorem voigtDeviat_eq (M : Mat6) (hM : IsSymm6 M) : voigtDeviat M = deviat4 (voigtToTensor M) := by
  funext i j
  fin_cases i <;> fin_cases j <;>
    simp [voigtDeviat, upperTri_apply, voigtDeviatUpper, deviat4, voigtToTensor, sum3] <;>
    (try simp only [hM 1 0, hM 2 0, hM 2 1, hM 3 0, hM 3 1, hM 3 2, hM 4 0, hM 4 1, hM 4 2, hM 4 3,
      hM 5 0, hM 5 1, hM 5 2, hM 5 3, hM 5 4]) <;> ring


/-! ### projectors -/
theorem div_sqrt2 (a : ℝ) : a / sqrt2 = a * sqrt2 / 2 := by
  have := sqrt2_ne; field_simp; linear_combination (-a) * sqrt2_sq

theorem mono_idem (v : Vec21) : monoProject (monoProject v) = monoProject v := by
  funext k; fin_cases k <;> simp [monoProject]
theorem ortho_idem (v : Vec21) : orthoProject (orthoProject v) = orthoProject v := by
  funext k; fin_cases k <;> simp [orthoProject]
theorem tetr_idem (v : Vec21) : tetrProject (tetrProject v) = tetrProject v := by
  funext k; fin_cases k <;> simp [tetrProject, orthoProject, half_eq] <;> ring
theorem hex_idem (v : Vec21) : hexProject (hexProject v) = hexProject v := by
  funext k; fin_cases k <;> simp [hexProject, div_sqrt2] <;>
    (have h := sqrt2_sq; grind)


theorem mono_selfadj (x y : Vec21) : dot21 (monoProject x) y = dot21 x (monoProject y) := by
  simp [dot21, monoProject]
theorem ortho_selfadj (x y : Vec21) : dot21 (orthoProject x) y = dot21 x (orthoProject y) := by
  simp [dot21, orthoProject]
theorem tetr_selfadj (x y : Vec21) : dot21 (tetrProject x) y = dot21 x (tetrProject y) := by
  simp [dot21, tetrProject, orthoProject, half_eq]; ring
theorem hex_selfadj (x y : Vec21) : dot21 (hexProject x) y = dot21 x (hexProject y) := by
  simp [dot21, hexProject, div_sqrt2]; ring

theorem ortho_mono (v : Vec21) : orthoProject (monoProject v) = orthoProject v := by
  funext k; fin_cases k <;> simp [monoProject, orthoProject]
theorem mono_ortho (v : Vec21) : monoProject (orthoProject v) = orthoProject v := by
  funext k; fin_cases k <;> simp [monoProject, orthoProject]
theorem tetr_ortho (v : Vec21) : tetrProject (orthoProject v) = tetrProject v := by
  funext k; fin_cases k <;> simp [tetrProject, orthoProject]
theorem ortho_tetr (v : Vec21) : orthoProject (tetrProject v) = tetrProject v := by
  funext k; fin_cases k <;> simp [tetrProject, orthoProject]
theorem hex_tetr (v : Vec21) : hexProject (tetrProject v) = hexProject v := by
  funext k; fin_cases k <;> simp [hexProject, tetrProject, orthoProject, half_eq] <;> ring
theorem tetr_hex (v : Vec21) : tetrProject (hexProject v) = hexProject v := by
  funext k; fin_cases k <;> simp [hexProject, tetrProject, orthoProject, half_eq] <;> ring



/-! ### a small self-contained 3x3 algebra -/
theorem mmul_assoc (A B C : Mat3) : mmul (mmul A B) C = mmul A (mmul B C) := by
  funext i j; simp only [mmul, sum3]; ring
theorem one_mmul (A : Mat3) : mmul one3 A = A := by
  funext i j; fin_cases i <;> simp [mmul, one3, sum3]
theorem mmul_one (A : Mat3) : mmul A one3 = A := by
  funext i j; fin_cases j <;> simp [mmul, one3, sum3]
theorem tr_mmul (A B : Mat3) : tr (mmul A B) = mmul (tr B) (tr A) := by
  funext i j; simp only [mmul, tr, sum3]; ring
theorem tr_tr (A : Mat3) : tr (tr A) = A := rfl
theorem tr_one : tr one3 = one3 := by
  funext i j; simp only [tr, one3, eq_comm]
theorem tr_diag3 (S : Vec3) : tr (diag3 S) = diag3 S := by
  funext i j; fin_cases i <;> fin_cases j <;> simp [tr, diag3]
theorem trace3_mmul_comm (A B : Mat3) : trace3 (mmul A B) = trace3 (mmul B A) := by
  simp only [trace3, mmul, sum3]; ring
theorem det3_mmul (A B : Mat3) : det3 (mmul A B) = det3 A * det3 B := by
  simp only [det3, mmul, sum3]; ring
theorem det3_one : det3 one3 = 1 := by simp [det3, one3]

/-! ### polar decomposition on top of an SVD triple -/
/-- what is assumed of `np.linalg.svd` (validated on every call the harness sees) -/
structure SVDSpec (M : Mat3) (d : SVD) : Prop where
  factor : M = mmul d.U (mmul (diag3 d.S) d.Vh)
  UtU : mmul (tr d.U) d.U = one3
  UUt : mmul d.U (tr d.U) = one3
  VVt : mmul d.Vh (tr d.Vh) = one3
  VtV : mmul (tr d.Vh) d.Vh = one3
  nonneg : ∀ i, 0 ≤ d.S i

theorem polarLeft_rot_orth {M : Mat3} {d : SVD} (h : SVDSpec M d) :
    mmul (tr (polarLeft d).1) (polarLeft d).1 = one3 ∧ mmul (polarLeft d).1 (tr (polarLeft d).1) = one3 := by
  simp only [polarLeft, tr_mmul]
  constructor
  · rw [mmul_assoc, ← mmul_assoc (tr d.U), h.UtU, one_mmul, h.VtV]
  · rw [mmul_assoc, ← mmul_assoc d.Vh, h.VVt, one_mmul, h.UUt]

theorem polarLeft_stretch_symm (d : SVD) : tr (polarLeft d).2 = (polarLeft d).2 := by
  simp only [polarLeft, tr_mmul, tr_tr, tr_diag3, mmul_assoc]

theorem polarLeft_product {M : Mat3} {d : SVD} (h : SVDSpec M d) :
    mmul (polarLeft d).2 (polarLeft d).1 = M := by
  simp only [polarLeft]
  rw [h.factor, mmul_assoc, mmul_assoc, ← mmul_assoc (tr d.U), h.UtU, one_mmul]

/-- quadratic form of `U diag(S) Uᵀ` -/
theorem quad_UDUt (U : Mat3) (S : Vec3) (x : Vec3) :
    dot3 x (mulVec (mmul U (mmul (diag3 S) (tr U))) x)
      = S 0 * (dot3 (fun i => U i 0) x) ^ 2 + S 1 * (dot3 (fun i => U i 1) x) ^ 2
        + S 2 * (dot3 (fun i => U i 2) x) ^ 2 := by
  simp [dot3, mulVec, mmul, diag3, tr, sum3]; ring

theorem polarLeft_stretch_psd {M : Mat3} {d : SVD} (h : SVDSpec M d) (x : Vec3) :
    0 ≤ dot3 x (mulVec (polarLeft d).2 x) := by
  simp only [polarLeft]; rw [quad_UDUt]
  have := h.nonneg 0; have := h.nonneg 1; have := h.nonneg 2
  positivity

theorem polarRight_rot_orth {M : Mat3} {d : SVD} (h : SVDSpec M d) :
    mmul (tr (polarRight d).1) (polarRight d).1 = one3 ∧ mmul (polarRight d).1 (tr (polarRight d).1) = one3 :=
  polarLeft_rot_orth h

theorem polarRight_stretch_symm (d : SVD) : tr (polarRight d).2 = (polarRight d).2 := by
  simp only [polarRight, tr_mmul, tr_tr, tr_diag3, mmul_assoc]

theorem polarRight_product {M : Mat3} {d : SVD} (h : SVDSpec M d) :
    mmul (polarRight d).1 (polarRight d).2 = M := by
  simp only [polarRight]
  rw [h.factor, mmul_assoc, ← mmul_assoc d.Vh, h.VVt, one_mmul]

theorem polarRight_stretch_psd {M : Mat3} {d : SVD} (h : SVDSpec M d) (x : Vec3) :
    0 ≤ dot3 x (mulVec (polarRight d).2 x) := by
  simp only [polarRight]
  have := quad_UDUt (tr d.Vh) d.S x
  rw [tr_tr] at this; rw [this]
  have := h.nonneg 0; have := h.nonneg 1; have := h.nonneg 2
  positivity

/-! ### invariants -/
theorem invariants_I2 (t : Mat3) :
    (invariants t).2.1 = (trace3 t * trace3 t - trace3 (mmul t t)) / 2 := by
  simp only [invariants, trace3, mmul, sum3]; ring

/-- the invariants are similarity invariants -/
theorem invariants_conj (P Pi t : Mat3) (h1 : mmul Pi P = one3) (h2 : mmul P Pi = one3) :
    invariants (mmul P (mmul t Pi)) = invariants t := by
  have htr : ∀ X : Mat3, trace3 (mmul P (mmul X Pi)) = trace3 X := by
    intro X; rw [trace3_mmul_comm, mmul_assoc, h1, mmul_one]
  have hsq : mmul (mmul P (mmul t Pi)) (mmul P (mmul t Pi)) = mmul P (mmul (mmul t t) Pi) := by
    rw [mmul_assoc, mmul_assoc, ← mmul_assoc Pi, h1, one_mmul, ← mmul_assoc t]
  have hdet : det3 P * det3 Pi = 1 := by rw [← det3_mmul, h2, det3_one]
  have e1 : (invariants (mmul P (mmul t Pi))).1 = (invariants t).1 := htr t
  have e2 : (invariants (mmul P (mmul t Pi))).2.1 = (invariants t).2.1 := by
    rw [invariants_I2, invariants_I2, hsq, htr, htr]
  have e3 : (invariants (mmul P (mmul t Pi))).2.2 = (invariants t).2.2 := by
    show det3 _ = det3 t
    rw [det3_mmul, det3_mmul]; linear_combination (det3 t) * hdet
  exact Prod.ext e1 (Prod.ext e2 e3)

/-- for an upper (or lower) triangular matrix the invariants are the elementary symmetric functions of
the diagonal -/
theorem invariants_triangular (t : Mat3) (h : (t 1 0 = 0 ∧ t 2 0 = 0 ∧ t 2 1 = 0) ∨ (t 0 1 = 0 ∧ t 0 2 = 0 ∧ t 1 2 = 0)) :
    invariants t = (t 0 0 + t 1 1 + t 2 2, t 0 0 * t 1 1 + t 1 1 * t 2 2 + t 2 2 * t 0 0, t 0 0 * t 1 1 * t 2 2) := by
  rcases h with ⟨a, b, c⟩ | ⟨a, b, c⟩ <;> simp [invariants, det3, a, b, c] <;> ring

theorem invariants_diag (l : Vec3) :
    invariants (diag3 l) = (l 0 + l 1 + l 2, l 0 * l 1 + l 1 * l 2 + l 2 * l 0, l 0 * l 1 * l 2) := by
  simp [invariants, det3, diag3]; ring

/-- **invariants = elementary symmetric functions of the eigenvalues** for a diagonalisable matrix -/
theorem invariants_diagonalisable (P Pi : Mat3) (l : Vec3) (h1 : mmul Pi P = one3) (h2 : mmul P Pi = one3) :
    invariants (mmul P (mmul (diag3 l) Pi))
      = (l 0 + l 1 + l 2, l 0 * l 1 + l 1 * l 2 + l 2 * l 0, l 0 * l 1 * l 2) := by
  rw [invariants_conj P Pi _ h1 h2, invariants_diag]


/-! ### the forcing wrappers are identities -/
@[simp] theorem ofA4_memoA4 (T : Ten4) : ofA4 (memoA4 T) = T := by
  funext p q r s
  have h : 27 * p.val + 9 * q.val + 3 * r.val + s.val < 81 := by omega
  simp only [ofA4, memoA4, Array.getD_eq_getD_getElem?, Array.getElem?_ofFn, h, dite_true, Option.getD_some]
  congr 1 <;> (apply Fin.ext; simp [Fin.ofNat]; try omega)

@[simp] theorem ofA6_memoA6 (M : Mat6) : ofA6 (memoA6 M) = M := by
  funext i j
  have h : 6 * i.val + j.val < 36 := by omega
  simp only [ofA6, memoA6, Array.getD_eq_getD_getElem?, Array.getElem?_ofFn, h, dite_true, Option.getD_some]
  congr 1 <;> (apply Fin.ext; simp [Fin.ofNat]; try omega)

@[simp] theorem ofA21_memoA21 (v : Vec21) : ofA21 (memoA21 v) = v := by
  funext k
  simp [ofA21, memoA21, Array.getD_eq_getD_getElem?, Array.getElem?_ofFn]

@[simp] theorem ofA3_memoA3 (A : Mat3) : ofA3 (memoA3 A) = A := by
  funext i j
  have h : 3 * i.val + j.val < 9 := by omega
  simp only [ofA3, memoA3, Array.getD_eq_getD_getElem?, Array.getElem?_ofFn, h, dite_true, Option.getD_some]
  congr 1 <;> (apply Fin.ext; simp [Fin.ofNat]; try omega)

end ModelR.Tensors
