import ModelD.Npz
import Mathlib.Data.List.Basic
import Mathlib.Data.List.TakeWhile
/-! Helper lemmas for C17 (`Mineral.save/load/from_file` over the NPZ archive model). -/
namespace ModelD.Npz
open List

/-! ### stack / unstack -/
theorem chunks_flatMap (l : List Arr) (size : Nat) (h : ∀ a ∈ l, a.data.length = size) :
    chunks l.length size (l.flatMap (·.data)) = l.map (·.data) := by
  induction l with
  | nil => rfl
  | cons a rest ih =>
    have ha := h a (by simp)
    simp only [length_cons, chunks, flatMap_cons, map_cons]
    rw [take_left' ha, drop_left' ha, ih (fun b hb => h b (by simp [hb]))]

theorem unstack_stack (l : List Arr) (s : List Nat) (hne : l ≠ [])
    (h : ∀ a ∈ l, a.shape = s ∧ a.WF) :
    ∃ A, stack l = .ok A ∧ A.shape = l.length :: s ∧ unstack A = .ok l := by
  cases l with
  | nil => exact absurd rfl hne
  | cons a rest =>
    have ha := h a (by simp)
    have hall : rest.all (fun b => b.shape = a.shape) = true := by
      rw [all_eq_true]; intro b hb; simp [(h b (by simp [hb])).1, ha.1]
    refine ⟨⟨(a :: rest).length :: a.shape, (a :: rest).flatMap (·.data)⟩, ?_, by simp [ha.1], ?_⟩
    · simp [stack, hall]
    · simp only [unstack]
      rw [chunks_flatMap (a :: rest) a.shape.prod]
      · simp only [map_map, Except.ok.injEq]
        conv_rhs => rw [← List.map_id (a :: rest)]
        apply map_congr_left
        intro b hb
        have := (h b hb).1
        simp only [Function.comp, id]
        cases b; simp_all
      · intro b hb
        have := h b hb
        rw [this.2, this.1, ha.1]

/-! ### names -/
def NoNul (s : Str) : Prop := ∀ c ∈ s, c ≠ Char.ofNat 0

theorem zipName_eq (s : Str) (h : NoNul s) : zipName s = s := by
  unfold zipName
  rw [takeWhile_eq_self_iff]
  intro c hc; simpa using h c hc

def IsKey (k : Str) : Prop := k = kMeta ∨ k = kFractions ∨ k = kOrientations

theorem noNul_const (k : Str) (hk : IsKey k) : NoNul k := by
  rcases hk with rfl | rfl | rfl <;> (intro c hc; revert c; decide)

theorem noNul_key (k : Str) (hk : IsKey k) (p : Str) (hp : NoNul p) : NoNul (keyOf k (some p)) := by
  intro c hc
  simp only [keyOf, mem_append, mem_cons] at hc
  rcases hc with hc | rfl | hc
  · exact noNul_const k hk c hc
  · decide
  · exact hp c hc
/-- distinct (key, postfix) pairs give distinct member names -/
theorem keyOf_some_inj (k k' : Str) (hk : IsKey k) (hk' : IsKey k') (p p' : Str)
    (h : keyOf k (some p) = keyOf k' (some p')) : k = k' ∧ p = p' := by
  rcases hk with rfl | rfl | rfl <;> rcases hk' with rfl | rfl | rfl <;>
    simp [keyOf, kMeta, kFractions, kOrientations] at h ⊢ <;> try exact h

/-- a suffixed member name is never one of the un-suffixed keys, nor one of them plus ".npy" -/
theorem keyOf_some_ne_plain (k k' : Str) (hk : IsKey k) (hk' : IsKey k') (p : Str) :
    keyOf k (some p) ≠ k' ∧ keyOf k (some p) ≠ k' ++ dotNpy := by
  rcases hk with rfl | rfl | rfl <;> rcases hk' with rfl | rfl | rfl <;>
    simp [keyOf, kMeta, kFractions, kOrientations, dotNpy]

theorem plain_ne (k k' : Str) (hk : IsKey k) (hk' : IsKey k') :
    (k = k' ++ dotNpy → False) ∧ (k ++ dotNpy = k' ++ dotNpy → k = k') := by
  rcases hk with rfl | rfl | rfl <;> rcases hk' with rfl | rfl | rfl <;>
    simp [kMeta, kFractions, kOrientations, dotNpy]

/-! ### archives -/
theorem lastNamed_append (a b : Archive) (n : Str) :
    lastNamed (a ++ b) n = (lastNamed b n).or (lastNamed a n) := by
  induction a with
  | nil => simp [lastNamed]
  | cons e rest ih =>
    obtain ⟨m, x⟩ := e
    simp only [cons_append, lastNamed, ih]
    cases hb : lastNamed b n <;> cases hr : lastNamed rest n <;> simp

theorem lastNamed_none_of_not_mem (a : Archive) (n : Str) (h : ∀ e ∈ a, e.1 ≠ n) :
    lastNamed a n = none := by
  induction a with
  | nil => rfl
  | cons e rest ih =>
    obtain ⟨m, x⟩ := e
    simp only [lastNamed, ih (fun e he => h e (by simp [he]))]
    have : m ≠ n := h (m, x) (by simp)
    simp [this]
/-! ### file system -/
theorem fsGet_fsPut_same (fs : FS) (n : Str) (ar : Archive) : fsGet (fsPut fs n ar) n = some ar := by
  simp [fsPut, fsGet]

theorem fsGet_filter_ne (fs : FS) (n g : Str) (h : g ≠ n) :
    fsGet (fs.filter (fun e => e.1 ≠ n)) g = fsGet fs g := by
  induction fs with
  | nil => rfl
  | cons e rest ih =>
    obtain ⟨m, x⟩ := e
    by_cases hm : m = n
    · subst hm
      simp only [filter_cons, ne_eq, not_true_eq_false, decide_false, Bool.false_eq_true, if_false, ih, fsGet]
      simp [Ne.symm h]
    · simp only [filter_cons, ne_eq, hm, not_false_eq_true, decide_true, if_true, fsGet, ih]

theorem fsGet_fsPut_other (fs : FS) (n g : Str) (ar : Archive) (h : g ≠ n) :
    fsGet (fsPut fs n ar) g = fsGet fs g := by
  simp only [fsPut, fsGet, Ne.symm h, if_false]
  exact fsGet_filter_ne fs n g h

/-! ### what `save` writes -/
/-- the three members appended by a save under postfix `p` -/
def entries (p : Str) (d : Arr × Arr × Arr) : Archive :=
  [(zipName (keyOf kMeta (some p)), d.1), (zipName (keyOf kFractions (some p)), d.2.1),
   (zipName (keyOf kOrientations (some p)), d.2.2)]

theorem writeData_some (fs : FS) (file p : Str) (d : Arr × Arr × Arr) :
    writeData fs file (some p) d = fsPut fs file ((fsGet fs file).getD [] ++ entries p d) := rfl

/-- the `meta` array of a mineral -/
def metaOf (m : Mineral) : Arr := ⟨[3], [UInt64.ofNat m.phase, UInt64.ofNat m.fabric, UInt64.ofNat m.regime]⟩

theorem saveData_valid (m : Mineral) (hv : Valid m) :
    ∃ F O, saveData m = .ok (metaOf m, F, O) ∧ unstack F = .ok m.fractions ∧
      unstack O = .ok m.orientations := by
  obtain ⟨hc, hne, hf, ho, hs⟩ := hv
  obtain ⟨ph, fa, re, n, fr, ors⟩ := m
  simp only at hc hne hf ho hs
  have hne' : ors ≠ [] := by
    intro h; rw [h] at hc; exact hne (length_eq_zero_iff.mp hc)
  obtain ⟨F, hF, _, hF'⟩ := unstack_stack fr [n] hne hf
  obtain ⟨O, hO, _, hO'⟩ := unstack_stack ors [n, 3, 3] hne' ho
  refine ⟨F, O, ?_, hF', hO'⟩
  obtain ⟨f0, frest, rfl⟩ := exists_cons_of_ne_nil hne
  obtain ⟨o0, orest, rfl⟩ := exists_cons_of_ne_nil hne'
  have hf0 := (hf f0 (by simp)).1
  have ho0 := (ho o0 (by simp)).1
  simp only [saveData, hc, ne_eq, not_true_eq_false, if_false, dim0, hf0, ho0, mkMeta, hs, and_self,
    if_true, hF, hO, metaOf, bind, Except.bind, pure, Except.pure]

theorem toNat_ofNat_small (x : Nat) (h : x < 256) : (UInt64.ofNat x).toNat = x := by
  simp [UInt64.toNat_ofNat']; omega

instance : Inhabited Arr := ⟨⟨[], []⟩⟩

/-- the three arrays `save` writes for a mineral (meaningful for `Valid` minerals) -/
def dOf (m : Mineral) : Arr × Arr × Arr :=
  match saveData m with
  | .ok d => d
  | .error _ => default

theorem saveData_eq_dOf (m : Mineral) (hv : Valid m) : saveData m = .ok (dOf m) := by
  obtain ⟨F, O, h, _, _⟩ := saveData_valid m hv
  simp [dOf, h]

theorem dOf_spec (m : Mineral) (hv : Valid m) :
    (dOf m).1 = metaOf m ∧ unstack (dOf m).2.1 = .ok m.fractions ∧
      unstack (dOf m).2.2 = .ok m.orientations := by
  obtain ⟨F, O, h, hF, hO⟩ := saveData_valid m hv
  simp [dOf, h, hF, hO]

/-- which of the three arrays belongs to which key -/
def pick (k : Str) (d : Arr × Arr × Arr) : Arr :=
  if k = kMeta then d.1 else if k = kFractions then d.2.1 else d.2.2

theorem entries_noNul (p : Str) (hp : NoNul p) (d : Arr × Arr × Arr) :
    entries p d = [(keyOf kMeta (some p), d.1), (keyOf kFractions (some p), d.2.1),
                   (keyOf kOrientations (some p), d.2.2)] := by
  simp only [entries]
  rw [zipName_eq _ (noNul_key kMeta (Or.inl rfl) p hp),
      zipName_eq _ (noNul_key kFractions (Or.inr (Or.inl rfl)) p hp),
      zipName_eq _ (noNul_key kOrientations (Or.inr (Or.inr rfl)) p hp)]

theorem lastNamed_entries_same (p : Str) (hp : NoNul p) (d : Arr × Arr × Arr) (k : Str) (hk : IsKey k) :
    lastNamed (entries p d) (keyOf k (some p)) = some (pick k d) := by
  rw [entries_noNul p hp]
  rcases hk with rfl | rfl | rfl <;>
    simp [lastNamed, pick, keyOf, kMeta, kFractions, kOrientations]

theorem lastNamed_entries_other (q : Str) (hq : NoNul q) (d : Arr × Arr × Arr) (n : Str)
    (h : ∀ k', IsKey k' → keyOf k' (some q) ≠ n) : lastNamed (entries q d) n = none := by
  rw [entries_noNul q hq]
  apply lastNamed_none_of_not_mem
  intro e he
  simp only [mem_cons, not_mem_nil, or_false] at he
  rcases he with rfl | rfl | rfl
  · exact h _ (Or.inl rfl)
  · exact h _ (Or.inr (Or.inl rfl))
  · exact h _ (Or.inr (Or.inr rfl))

/-- members appended by a list of saves under postfixes -/
def allEntries (ms : List (Str × Mineral)) : Archive := ms.flatMap (fun e => entries e.1 (dOf e.2))

theorem lastNamed_allEntries_none (ms : List (Str × Mineral)) (hnn : ∀ e ∈ ms, NoNul e.1) (n : Str)
    (h : ∀ e ∈ ms, ∀ k', IsKey k' → keyOf k' (some e.1) ≠ n) : lastNamed (allEntries ms) n = none := by
  induction ms with
  | nil => rfl
  | cons e rest ih =>
    simp only [allEntries, flatMap_cons, lastNamed_append]
    have h1 := lastNamed_entries_other e.1 (hnn e (by simp)) (dOf e.2) n (h e (by simp))
    have h2 := ih (fun x hx => hnn x (by simp [hx])) (fun x hx => h x (by simp [hx]))
    simp only [allEntries] at h2
    simp [h1, h2]

/-- **append_preserves_others**: members appended under postfixes never change the lookup of a
key that is none of the appended names (in particular the un-suffixed keys). -/
theorem lookup_append_allEntries (ar : Archive) (ms : List (Str × Mineral)) (hnn : ∀ e ∈ ms, NoNul e.1)
    (key : Str) (h : ∀ e ∈ ms, ∀ k', IsKey k' → keyOf k' (some e.1) ≠ key ∧ keyOf k' (some e.1) ≠ key ++ dotNpy) :
    lookup (ar ++ allEntries ms) key = lookup ar key := by
  simp only [lookup, lastNamed_append]
  rw [lastNamed_allEntries_none ms hnn key (fun e he k' hk' => (h e he k' hk').1),
      lastNamed_allEntries_none ms hnn (key ++ dotNpy) (fun e he k' hk' => (h e he k' hk').2)]
  simp

/-- the lookup of a saved key finds the arrays of the **last** save under that postfix -/
theorem lookup_saved (ar0 : Archive) (pre post : List (Str × Mineral)) (p : Str) (m : Mineral)
    (hnn : ∀ e ∈ pre ++ (p, m) :: post, NoNul e.1) (hpost : ∀ e ∈ post, e.1 ≠ p) (k : Str) (hk : IsKey k) :
    lookup (ar0 ++ allEntries (pre ++ (p, m) :: post)) (keyOf k (some p)) = some (pick k (dOf m)) := by
  have hp : NoNul p := hnn (p, m) (by simp)
  have hpostn : lastNamed (allEntries post) (keyOf k (some p)) = none := by
    apply lastNamed_allEntries_none post (fun e he => hnn e (by simp [he]))
    intro e he k' hk' heq
    exact hpost e he (keyOf_some_inj k' k hk' hk e.1 p heq).2
  have hsplit : allEntries (pre ++ (p, m) :: post) = allEntries pre ++ (entries p (dOf m) ++ allEntries post) := by
    simp [allEntries]
  simp only [lookup, hsplit, lastNamed_append, hpostn, lastNamed_entries_same p hp (dOf m) k hk]
  simp

/-! ### reading back -/
theorem readData_of_lookups (fs : FS) (file : Str) (pf : Option Str) (ar : Archive) (m : Mineral)
    (F O : Arr) (hfile : isNpzName file = true) (har : fsGet fs file = some ar)
    (hs : m.phase < 256 ∧ m.fabric < 256 ∧ m.regime < 256)
    (h1 : lookup ar (keyOf kMeta pf) = some (metaOf m))
    (h2 : lookup ar (keyOf kFractions pf) = some F) (hF : unstack F = .ok m.fractions)
    (h3 : lookup ar (keyOf kOrientations pf) = some O) (hO : unstack O = .ok m.orientations) :
    readData fs file pf = .ok (m.phase, m.fabric, m.regime, m.fractions, m.orientations) := by
  simp only [readData, hfile, not_true_eq_false, if_false, har, h1, h2, h3, hF, hO, metaOf,
    bind, Except.bind, pure, Except.pure, toNat_ofNat_small _ hs.1, toNat_ofNat_small _ hs.2.1,
    toNat_ofNat_small _ hs.2.2]

theorem len0_valid (m : Mineral) (hv : Valid m) : len0 m.fractions = .ok m.nGrains := by
  obtain ⟨f0, rest, h⟩ := exists_cons_of_ne_nil hv.nonempty
  have := (hv.fshape f0 (by rw [h]; simp)).1
  simp [len0, h, this]

theorem orientations_nonempty (m : Mineral) (hv : Valid m) : m.orientations.isEmpty = false := by
  have := hv.count
  have hne := hv.nonempty
  cases h : m.orientations with
  | nil => rw [h] at this; exact absurd (length_eq_zero_iff.mp this) hne
  | cons _ _ => rfl

end ModelD.Npz
