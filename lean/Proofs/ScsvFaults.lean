import Proofs.ScsvMain
/-! Single-fault rejection (C16): what `save_scsv` does, AS THE CODE IS WRITTEN, on schemas and data
that violate one documented constraint. Python's exception classes are kept, so the faults that
do not end in the SCSV error are visible (`save_no_columns`, `validate_field_without_name`). -/
namespace Scsv
open Csv

/-- the validation result decides the outcome whenever there is at least one data column and the
columns have equal lengths -/
theorem saveLines_of_validate_false (E : FloatExt) (s : Schema) (data : List (List Val)) (hne : data ≠ [])
    (h : validate s = .ok false) : saveLines E s data = .error .scsv := by
  obtain ⟨c0, cs, rfl⟩ := List.exists_cons_of_ne_nil hne
  simp only [saveLines]
  split
  · rfl
  · simp [saveBody, h, valueToScsv, Except.bind]

theorem save_eq (E : FloatExt) (s : Schema) (data : List (List Val)) (e : Err)
    (h : saveLines E s data = .error e) : save E s data = .error e := by
  simp [save, h, Except.map]

/-- the validation cannot raise, so an invalid schema gives `False` -/
theorem validate_false_of_invalid (s : Schema) (hinv : ¬ SchemaValid s) : validate s = .ok false := by
  obtain ⟨b, hb⟩ := validate_total s
  cases b with
  | false => exact hb
  | true => exact absurd ((validate_iff s).1 hb) hinv

/-- **single fault, schema level**: a schema that is not valid (missing key, no fields, field without
name, non-identifier name, unknown type, numeric field without fill, delimiter equal to or contained
in the missing marker) is refused with the SCSV error -/
theorem save_invalid_schema (E : FloatExt) (s : Schema) (data : List (List Val)) (hne : data ≠ [])
    (hinv : ¬ SchemaValid s) : save E s data = .error .scsv :=
  save_eq E s data _ (saveLines_of_validate_false E s data hne (validate_false_of_invalid s hinv))

/-! the individual fault classes are instances of `¬ SchemaValid` -/

theorem invalid_missing_key (s : Schema) (h : s.delimiter = none ∨ s.missing = none ∨ s.fields = none) :
    ¬ SchemaValid s := by
  rintro ⟨d, m, fs, hd, hm, hf, _⟩
  rcases h with h | h | h <;> simp_all

theorem invalid_no_fields (s : Schema) (h : s.fields = some []) : ¬ SchemaValid s := by
  rintro ⟨d, m, fs, hd, hm, hf, hne, _⟩
  rw [h] at hf; cases hf; exact hne rfl

theorem invalid_delimiter_eq_missing (s : Schema) (d : Str) (h1 : s.delimiter = some d) (h2 : s.missing = some d) :
    ¬ SchemaValid s := by
  rintro ⟨d', m, fs, hd, hm, hf, hne, hdm, _⟩
  rw [h1] at hd; rw [h2] at hm; cases hd; cases hm; exact hdm rfl

theorem invalid_delimiter_in_missing (s : Schema) (d m : Str) (h1 : s.delimiter = some d) (h2 : s.missing = some m)
    (h : isInfix d m = true) : ¬ SchemaValid s := by
  rintro ⟨d', m', fs, hd, hm, hf, hne, hdm, hinf, _⟩
  rw [h1] at hd; rw [h2] at hm; cases hd; cases hm; simp [h] at hinf

theorem invalid_field (s : Schema) (fs : List Field) (f : Field) (h1 : s.fields = some fs) (hf : f ∈ fs)
    (h : f.name = none ∨ (∃ n, f.name = some n ∧ isIdentifier n = false) ∨ typeOf f.typeName = none ∨
      (∃ t, typeOf f.typeName = some t ∧ t ≠ .str ∧ t ≠ .bool ∧ f.fill = none)) : ¬ SchemaValid s := by
  rintro ⟨d', m', fs', hd, hm, hfs, hne, hdm, hinf, hall⟩
  rw [h1] at hfs; cases hfs
  obtain ⟨⟨n, hn, hid⟩, t, ht, hfill⟩ := hall f hf
  rcases h with h0 | ⟨n', hn', hid'⟩ | h | ⟨t', ht', h1', h2', h3'⟩
  · rw [hn] at h0; cases h0
  · rw [hn] at hn'; cases hn'; simp [hid] at hid'
  · simp [h] at ht
  · rw [ht] at ht'; cases ht'
    have := hfill ⟨h1', h2'⟩
    simp [h3'] at this

/-- **single fault: unequal column lengths** – refused whatever the schema is -/
theorem save_unequal_columns (E : FloatExt) (s : Schema) (c0 : List Val) (cs : List (List Val))
    (h : ∃ c ∈ cs, c.length ≠ c0.length) : save E s (c0 :: cs) = .error .scsv := by
  apply save_eq
  obtain ⟨c, hc, hlen⟩ := h
  have : cs.any (fun c => decide (c.length ≠ c0.length)) = true := by
    rw [List.any_eq_true]; exact ⟨c, hc, by simp [hlen]⟩
  simp only [saveLines, this, if_true]

/-- no data columns at all: refused (since commit cc8cd84; `IndexError` before) -/
theorem save_no_columns (E : FloatExt) (s : Schema) : save E s [] = .error .scsv := by
  simp [save, saveLines, Except.map]

/-! ### data-level faults -/

/-- **single fault: a cell that cannot be parsed as its declared type** is re-raised as the SCSV error -/
theorem saveCell_unparseable (E : FloatExt) (m : Str) (t : Ty) (fill : PyVal) (d : Val)
    (h : parseCell E t (pyStr E d) m fill = .error .value) : saveCell E m t fill d = .error .scsv := by
  simp [saveCell, trialParse, h, Except.bind]

/-- the row loop: cells before the faulty one are fine, then the fault decides -/
theorem saveRowCells_prefix (E : FloatExt) (hE : FloatSpec E) (m : Str) (fs : List Field) (row : List Val)
    (h : Forall₂ (fun f d => FieldFillOK E f ∧ CellOK E m f.ty (fillValue E f) d) fs row)
    (rowRest : List Val) (tfRest : List (Ty × PyVal)) (e : Err)
    (hrest : saveRowCells E m rowRest tfRest = .error e) :
    saveRowCells E m (row ++ rowRest) (colSpecs fs ++ tfRest) = .error e := by
  induction h with
  | nil => simpa [colSpecs] using hrest
  | @cons f d fs' row' hfd _ ih =>
    simp only [colSpecs, List.map_cons, List.cons_append, saveRowCells]
    have := saveCell_ok E m f.ty f.fillVal (fillValue E f) d hfd.1 hfd.2 hE
    simp only [Field.ty] at this
    rw [this]
    simp only [colSpecs] at ih
    simp [bind, Except.bind, ih]

theorem saveRows_error (E : FloatExt) (dc : Char) (m : Str)
    (good : List (List Val)) (bad : List Val) (rest : List (List Val)) (tfs : List (Ty × PyVal)) (e : Err)
    (hgood : ∀ row ∈ good, ∃ cells, saveRowCells E m row tfs = .ok cells)
    (hbad : saveRowCells E m bad tfs = .error e) :
    saveRows E dc m tfs (good ++ bad :: rest) = .error e := by
  induction good with
  | nil => simp [saveRows, hbad, bind, Except.bind]
  | cons r rs ih =>
    obtain ⟨cells, hc⟩ := hgood r (by simp)
    simp [saveRows, hc, bind, Except.bind, ih (fun row hrow => hgood row (by simp [hrow]))]

/-- **single fault, data level**: the schema is valid, the columns have equal lengths, the rows
before the faulty one are written without error, and the faulty row ends – after representable
cells – in a cell that cannot be parsed as its declared type, or has more or fewer cells than
there are fields (wrong column count): the SCSV error is raised. -/
theorem save_bad_row (E : FloatExt) (hE : FloatSpec E) (dc : Char) (m : Str) (fs : List Field)
    (c0 : List Val) (cs : List (List Val)) (hlen : ∀ c ∈ cs, c.length = c0.length)
    (hvalid : validate ⟨some [dc], some m, some fs⟩ = .ok true)
    (good : List (List Val)) (bad : List Val) (rest : List (List Val))
    (hrows : zipStar (c0 :: cs) = good ++ bad :: rest)
    (hgood : ∀ row ∈ good, ∃ cells, saveRowCells E m row (colSpecs fs) = .ok cells)
    (hbad : saveRowCells E m bad (colSpecs fs) = .error .value ∨ saveRowCells E m bad (colSpecs fs) = .error .scsv) :
    save E ⟨some [dc], some m, some fs⟩ (c0 :: cs) = .error .scsv := by
  apply save_eq
  have hany : cs.any (fun c => decide (c.length ≠ c0.length)) = false := by
    rw [List.any_eq_false]; intro c hc; simp [hlen c hc]
  simp only [saveLines, saveBody, hany, Bool.false_eq_true, if_false, hrows]
  rcases hbad with hbad | hbad
  · have := saveRows_error E dc m good bad rest (colSpecs fs) _ hgood hbad
    simp only [colSpecs] at this
    simp [hvalid, this, valueToScsv, Except.bind, Except.map]
  · have := saveRows_error E dc m good bad rest (colSpecs fs) _ hgood hbad
    simp only [colSpecs] at this
    simp [hvalid, this, valueToScsv, Except.bind, Except.map]

/-- a row with more cells than fields: `zip(strict=True)` raises after the common prefix -/
theorem saveRowCells_too_many (E : FloatExt) (hE : FloatSpec E) (m : Str) (fs : List Field) (row : List Val)
    (h : Forall₂ (fun f d => FieldFillOK E f ∧ CellOK E m f.ty (fillValue E f) d) fs row)
    (extra : List Val) (hx : extra ≠ []) :
    saveRowCells E m (row ++ extra) (colSpecs fs) = .error .value := by
  have := saveRowCells_prefix E hE m fs row h extra [] .value (by
    cases extra with
    | nil => exact absurd rfl hx
    | cons _ _ => simp [saveRowCells])
  simpa using this

/-- a row with fewer cells than fields -/
theorem saveRowCells_too_few (E : FloatExt) (hE : FloatSpec E) (m : Str) (fs : List Field) (row : List Val)
    (h : Forall₂ (fun f d => FieldFillOK E f ∧ CellOK E m f.ty (fillValue E f) d) fs row)
    (more : List Field) (hx : more ≠ []) :
    saveRowCells E m row (colSpecs (fs ++ more)) = .error .value := by
  have := saveRowCells_prefix E hE m fs row h [] (colSpecs more) .value (by
    cases more with
    | nil => exact absurd rfl hx
    | cons _ _ => simp [saveRowCells, colSpecs])
  simpa [colSpecs] using this

/-- a row whose first non-representable cell cannot be parsed as its declared type -/
theorem saveRowCells_unparseable (E : FloatExt) (hE : FloatSpec E) (m : Str) (fs : List Field) (row : List Val)
    (h : Forall₂ (fun f d => FieldFillOK E f ∧ CellOK E m f.ty (fillValue E f) d) fs row)
    (f : Field) (d : Val) (post : List Field) (rowPost : List Val)
    (hd : parseCell E f.ty (pyStr E d) m f.fillVal = .error .value) :
    saveRowCells E m (row ++ d :: rowPost) (colSpecs (fs ++ f :: post)) = .error .scsv := by
  have := saveRowCells_prefix E hE m fs row h (d :: rowPost) (colSpecs (f :: post)) .scsv (by
    simp only [colSpecs, List.map_cons, saveRowCells]
    have := saveCell_unparseable E m f.ty f.fillVal d hd
    simp only [Field.ty] at this
    simp [this, bind, Except.bind])
  simpa [colSpecs] using this

/-- outside the statement, but visible in the model: a string cell in a float column that does
parse (e.g. `"1.5"`) reaches `np.isnan(str)` and raises `TypeError`, not the SCSV error -/
theorem saveCell_string_in_float_column (E : FloatExt) (m : Str) (fill : PyVal) (s : Str) (v : Val)
    (h : parseCell E .float s m fill = .ok v) : saveCell E m .float fill (.str s) = .error .type := by
  simp [saveCell, trialParse, substitute, pyStr, h, Except.bind]

end Scsv
