import Proofs.Linalg3
import Mathlib.Analysis.Normed.Algebra.MatrixExponential
import Mathlib.Analysis.SpecialFunctions.Exponential
import Mathlib.Analysis.SpecialFunctions.ExpDeriv
import Mathlib.Analysis.Calculus.Deriv.Prod
import Mathlib.Analysis.Calculus.Deriv.Comp
import Mathlib.Analysis.Calculus.Deriv.Mul
import Mathlib.Analysis.Calculus.MeanValue
import Mathlib.MeasureTheory.Integral.IntervalIntegral.FundThmCalculus
/-! The matrix exponential on `ModelR.Mat3` (through Mathlib's `NormedSpace.exp` on
`Matrix (Fin 3) (Fin 3) ℝ`), its derivative, and the scalar linear ODE `y' = c y`.

`Mat3 = Fin 3 → Fin 3 → ℝ` unfolds to the same function type as `Matrix (Fin 3) (Fin 3) ℝ`, but the
two carry DIFFERENT multiplications (`*` on the former is entrywise), so every crossing goes through
the explicit `toMx` / `ofMx`; a bare type ascription `(A : Matrix _ _ _)` would silently keep the
entrywise product.

All `HasDerivAt` statements that leave this file are about the product topology on
`Fin 3 → Fin 3 → ℝ` (no matrix norm appears in a statement); the operator norm is only opened
locally to apply the Banach-algebra lemmas. -/
namespace ModelR
open NormedSpace

/-- Mathlib's matrix type -/
abbrev Mx := Matrix (Fin 3) (Fin 3) ℝ

/-- a `Mat3` read as a Mathlib matrix (so that `*` is the matrix product) -/
def toMx (A : Mat3) : Mx := Matrix.of A
/-- a Mathlib matrix read as a `Mat3` -/
def ofMx (A : Mx) : Mat3 := fun i j => A i j

@[simp] theorem toMx_apply (A : Mat3) (i j : Fin 3) : toMx A i j = A i j := rfl
@[simp] theorem ofMx_apply (A : Mx) (i j : Fin 3) : ofMx A i j = A i j := rfl
@[simp] theorem ofMx_toMx (A : Mat3) : ofMx (toMx A) = A := rfl
@[simp] theorem toMx_ofMx (A : Mx) : toMx (ofMx A) = A := rfl

/-- **bridge**: the project's `mmul` is Mathlib's matrix product -/
theorem mmul_eq_mul (A B : Mat3) : mmul A B = ofMx (toMx A * toMx B) := by
  funext i j; simp [mmul, sum3, Matrix.mul_apply, Fin.sum_univ_three]

theorem toMx_mmul (A B : Mat3) : toMx (mmul A B) = toMx A * toMx B := by
  rw [mmul_eq_mul, toMx_ofMx]

theorem ofMx_mul (A B : Mx) : ofMx (A * B) = mmul (ofMx A) (ofMx B) := by
  rw [mmul_eq_mul, toMx_ofMx, toMx_ofMx]

theorem toMx_one3 : toMx one3 = 1 := by
  ext i j; simp [one3, Matrix.one_apply]

theorem ofMx_one : ofMx 1 = one3 := by
  rw [← toMx_one3, ofMx_toMx]

theorem toMx_smul3 (c : ℝ) (A : Mat3) : toMx (smul3 c A) = c • toMx A := by
  ext i j; simp [smul3]

/-! ### determinant of the project: multiplicative, 1 at the identity -/

theorem det3_mmul (A B : Mat3) : det3 (mmul A B) = det3 A * det3 B := by
  simp only [det3, mmul, sum3]; ring

@[simp] theorem det3_one3 : det3 one3 = 1 := by
  simp [det3, one3]

@[simp] theorem trace3_zero3 : trace3 zero3 = 0 := by
  simp [trace3, zero3]

/-! ### the matrix exponential `exp (s L)` on `Mat3` -/

/-- `exp (s • L)` as a `Mat3` (Mathlib's `NormedSpace.exp` on 3×3 real matrices) -/
noncomputable def expm (s : ℝ) (L : Mat3) : Mat3 := ofMx (exp (s • toMx L))

@[simp] theorem expm_zero (L : Mat3) : expm 0 L = one3 := by
  simp [expm, ofMx_one]

/-- scalar multiples of one matrix commute, hence `exp ((s + t) L) = exp (s L) exp (t L)` -/
theorem expm_add (s t : ℝ) (L : Mat3) : expm (s + t) L = mmul (expm s L) (expm t L) := by
  have hc : Commute (s • toMx L) (t • toMx L) :=
    ((Commute.refl (toMx L)).smul_left s).smul_right t
  simp only [expm]
  rw [add_smul, Matrix.exp_add_of_commute _ _ hc, ofMx_mul]

theorem expm_comm (s t : ℝ) (L : Mat3) :
    mmul (expm s L) (expm t L) = mmul (expm t L) (expm s L) := by
  rw [← expm_add, ← expm_add, add_comm]

section Deriv
open scoped Matrix.Norms.Operator

/-- `d/dt [exp ((t - t0) L) F0] = L (exp ((t - t0) L) F0)` for Mathlib matrices; the statement
only mentions the product topology of `Matrix`, the operator norm is used in the proof -/
theorem exp_mul_hasDerivAt_mx (L F0 : Mx) (t0 t : ℝ) :
    HasDerivAt (fun t => exp ((t - t0) • L) * F0) (L * (exp ((t - t0) • L) * F0)) t := by
  have h1 : HasDerivAt (fun u : ℝ => exp (u • L)) (L * exp ((t - t0) • L)) (t - t0) :=
    hasDerivAt_exp_smul_const' L (t - t0)
  have h2 : HasDerivAt (fun t : ℝ => t - t0) 1 t := (hasDerivAt_id t).sub_const t0
  have h3 := HasDerivAt.scomp t h1 h2
  have h4 := h3.mul_const F0
  simp only [Function.comp_def, mul_assoc, one_smul] at h4
  exact h4

theorem exp_back_hasDerivAt_mx (L : Mx) (t0 t : ℝ) :
    HasDerivAt (fun t => exp ((t0 - t) • L)) (-(exp ((t0 - t) • L) * L)) t := by
  have h1 : HasDerivAt (fun u : ℝ => exp (u • L)) (exp ((t0 - t) • L) * L) (t0 - t) :=
    hasDerivAt_exp_smul_const L (t0 - t)
  have h2 : HasDerivAt (fun t : ℝ => t0 - t) (-1) t := (hasDerivAt_id' t).const_sub t0
  have h3 := HasDerivAt.scomp t h1 h2
  simp only [Function.comp_def, neg_smul, one_smul] at h3
  exact h3

end Deriv

/-- `d/dt [exp ((t - t0) L) F0] = L (exp ((t - t0) L) F0)` in `Mat3` (product topology) -/
theorem expm_mmul_hasDerivAt (L F0 : Mat3) (t0 t : ℝ) :
    HasDerivAt (fun t => mmul (expm (t - t0) L) F0) (mmul L (mmul (expm (t - t0) L) F0)) t := by
  have h := exp_mul_hasDerivAt_mx (toMx L) (toMx F0) t0 t
  simp only [mmul_eq_mul, expm, toMx_ofMx]
  exact h

/-- the same, entry by entry (a statement about real functions only) -/
theorem expm_mmul_hasDerivAt_entry (L F0 : Mat3) (t0 t : ℝ) (i j : Fin 3) :
    HasDerivAt (fun t => mmul (expm (t - t0) L) F0 i j)
      (mmul L (mmul (expm (t - t0) L) F0) i j) t :=
  hasDerivAt_pi.1 (hasDerivAt_pi.1 (expm_mmul_hasDerivAt L F0 t0 t) i) j

/-- `d/dt exp ((t0 - t) L) = -(exp ((t0 - t) L) L)`, entry by entry (the backward flow, used for
uniqueness) -/
theorem expm_back_hasDerivAt_entry (L : Mat3) (t0 t : ℝ) (i j : Fin 3) :
    HasDerivAt (fun t => expm (t0 - t) L i j) (-(mmul (expm (t0 - t) L) L i j)) t := by
  have h := exp_back_hasDerivAt_mx (toMx L) t0 t
  have h' : HasDerivAt (fun t => expm (t0 - t) L) (mneg (mmul (expm (t0 - t) L) L)) t := by
    simp only [mmul_eq_mul, expm, toMx_ofMx]
    exact h
  exact hasDerivAt_pi.1 (hasDerivAt_pi.1 h' i) j

/-- a matrix-valued derivative (product topology) from entrywise derivatives -/
theorem hasDerivAt_of_entries (F : ℝ → Mat3) (dF : Mat3) (t : ℝ)
    (h : ∀ i j, HasDerivAt (fun t => F t i j) (dF i j) t) : HasDerivAt F dF t :=
  hasDerivAt_pi.2 fun i => hasDerivAt_pi.2 fun j => h i j

/-- product rule for `mmul`, entry by entry -/
theorem mmul_hasDerivAt_entry (A B : ℝ → Mat3) (dA dB : Mat3) (t : ℝ)
    (hA : ∀ i j, HasDerivAt (fun t => A t i j) (dA i j) t)
    (hB : ∀ i j, HasDerivAt (fun t => B t i j) (dB i j) t) (i j : Fin 3) :
    HasDerivAt (fun t => mmul (A t) (B t) i j) (madd (mmul dA (B t)) (mmul (A t) dB) i j) t := by
  have H := (((hA i 0).fun_mul (hB 0 j)).fun_add ((hA i 1).fun_mul (hB 1 j))).fun_add
    ((hA i 2).fun_mul (hB 2 j))
  refine HasDerivAt.congr_deriv H ?_
  simp only [madd, mmul, sum3]; ring

/-! ### the scalar linear ODE -/

/-- `y' = c y` everywhere ⇒ `y t = exp ((t - t0) c) y t0` -/
theorem scalar_linear_ode (y : ℝ → ℝ) (c : ℝ) (h : ∀ t, HasDerivAt y (c * y t) t) (t0 t : ℝ) :
    y t = Real.exp ((t - t0) * c) * y t0 := by
  have hg : ∀ s, HasDerivAt (fun s => y s * Real.exp (-((s - t0) * c))) 0 s := by
    intro s
    have h1 : HasDerivAt (fun s : ℝ => -((s - t0) * c)) (-(1 * c)) s :=
      (((hasDerivAt_id' s).sub_const t0).mul_const c).fun_neg
    have h2 := (h s).fun_mul h1.exp
    have e : (0 : ℝ) = c * y s * Real.exp (-((s - t0) * c))
        + y s * (Real.exp (-((s - t0) * c)) * -(1 * c)) := by ring
    rw [e]
    exact h2
  have hconst := is_const_of_deriv_eq_zero (fun s => (hg s).differentiableAt)
    (fun s => (hg s).deriv) t t0
  simp only [sub_self, zero_mul, neg_zero, Real.exp_zero, mul_one] at hconst
  rw [← hconst, mul_comm, mul_assoc, ← Real.exp_add]
  simp

/-- `y' = c(t) y` everywhere with `c` continuous ⇒ `y t = exp (∫_{t0}^{t} c) y t0` -/
theorem scalar_linear_ode_timedep (y c : ℝ → ℝ) (hc : Continuous c)
    (h : ∀ t, HasDerivAt y (c t * y t) t) (t0 t : ℝ) :
    y t = Real.exp (∫ s in t0..t, c s) * y t0 := by
  have hg : ∀ s, HasDerivAt (fun s => y s * Real.exp (-(∫ u in t0..s, c u))) 0 s := by
    intro s
    have h1 : HasDerivAt (fun s : ℝ => -(∫ u in t0..s, c u)) (-(c s)) s :=
      (hc.integral_hasStrictDerivAt t0 s).hasDerivAt.fun_neg
    have h2 := (h s).fun_mul h1.exp
    have e : (0 : ℝ) = c s * y s * Real.exp (-(∫ u in t0..s, c u))
        + y s * (Real.exp (-(∫ u in t0..s, c u)) * -(c s)) := by ring
    rw [e]
    exact h2
  have hconst := is_const_of_deriv_eq_zero (fun s => (hg s).differentiableAt)
    (fun s => (hg s).deriv) t t0
  simp only [intervalIntegral.integral_same, neg_zero, Real.exp_zero, mul_one] at hconst
  rw [← hconst, mul_comm, mul_assoc, ← Real.exp_add]
  simp

end ModelR
