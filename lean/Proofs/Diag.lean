import Proofs.Basic
import ModelR.Diag
import Mathlib.LinearAlgebra.Matrix.NonsingularInverse
import Mathlib.Tactic.FinCases
import Mathlib.Tactic.NormNum
import Mathlib.Tactic.Linarith
import Mathlib.Tactic.Ring
import Mathlib.Tactic.FieldSimp
import Mathlib.Tactic.Positivity
/-! Helper lemmas for C13: a small self-contained 3×3 algebra (in the namespace `ModelR.Diag`, so
that it cannot clash with the shared library), the eigen-decomposition spec `IsEigen` assumed of
LAPACK, and its consequences (trace, Rayleigh quotient, characteristic polynomial, uniqueness of the
sorted spectrum, uniqueness up to sign of a simple eigenvector). -/
namespace ModelR
namespace Diag

/-! ### forcing wrappers are identities -/

@[simp] theorem mat3_memo (A : Mat3) : Mat3.memo A = A := by
  funext i j; fin_cases i <;> fin_cases j <;> rfl

@[simp] theorem vec3_memo (v : Vec3) : Vec3.memo v = v := by
  funext i; fin_cases i <;> rfl

/-! ### 3×3 algebra -/

theorem mmul_assoc (A B C : Mat3) : mmul (mmul A B) C = mmul A (mmul B C) := by
  funext i j; simp only [mmul, sum3]; ring

theorem tr_mmul (A B : Mat3) : tr (mmul A B) = mmul (tr B) (tr A) := by
  funext i j; simp only [mmul, sum3, tr]; ring

@[simp] theorem tr_tr (A : Mat3) : tr (tr A) = A := rfl

@[simp] theorem mmul_one (A : Mat3) : mmul A one3 = A := by
  funext i j; fin_cases i <;> fin_cases j <;> simp [mmul, sum3, one3]

@[simp] theorem one_mmul (A : Mat3) : mmul one3 A = A := by
  funext i j; fin_cases i <;> fin_cases j <;> simp [mmul, sum3, one3]

@[simp] theorem tr_one : tr one3 = one3 := by
  funext i j; fin_cases i <;> fin_cases j <;> simp [tr, one3]

theorem det3_mmul (A B : Mat3) : det3 (mmul A B) = det3 A * det3 B := by
  simp only [det3, mmul, sum3]; ring

theorem det3_tr (A : Mat3) : det3 (tr A) = det3 A := by
  simp only [det3, tr]; ring

@[simp] theorem det3_one : det3 one3 = 1 := by
  simp [det3, one3]

theorem mulVec_mmul (A B : Mat3) (x : Vec3) : mulVec (mmul A B) x = mulVec A (mulVec B x) := by
  funext i; simp only [mulVec, mmul, sum3]; ring

@[simp] theorem mulVec_one (x : Vec3) : mulVec one3 x = x := by
  funext i; fin_cases i <;> simp [mulVec, sum3, one3]

theorem dot3_comm (u v : Vec3) : dot3 u v = dot3 v u := by
  simp only [dot3, sum3]; ring

/-- `⟨u, A v⟩ = ⟨Aᵀ u, v⟩` -/
theorem dot3_mulVec (A : Mat3) (u v : Vec3) : dot3 u (mulVec A v) = dot3 (mulVec (tr A) u) v := by
  simp only [dot3, mulVec, tr, sum3]; ring

/-- bridge to Mathlib's matrices (definitionally the same type) -/
def toM (A : Mat3) : Matrix (Fin 3) (Fin 3) ℝ := A

theorem toM_mmul (A B : Mat3) : toM (mmul A B) = toM A * toM B := by
  ext i j; rw [Matrix.mul_apply, Fin.sum_univ_three]; rfl

theorem toM_one : toM one3 = 1 := by
  ext i j; simp [toM, one3, Matrix.one_apply]

/-- a left inverse of a real 3×3 matrix is a right inverse (Mathlib: `mul_eq_one_comm`) -/
theorem mmul_one_comm {A B : Mat3} (h : mmul A B = one3) : mmul B A = one3 := by
  have h1 : toM A * toM B = 1 := by rw [← toM_mmul, h, toM_one]
  have h2 : toM B * toM A = 1 := mul_eq_one_comm.mp h1
  have h3 : toM (mmul B A) = toM one3 := by rw [toM_mmul, h2, toM_one]
  exact h3

/-- `Q` is orthogonal -/
def Orth (Q : Mat3) : Prop := mmul (tr Q) Q = one3

theorem Orth.right {Q : Mat3} (h : Orth Q) : mmul Q (tr Q) = one3 := mmul_one_comm h

theorem Orth.norm_mulVec {Q : Mat3} (h : Orth Q) (x : Vec3) :
    dot3 (mulVec Q x) (mulVec Q x) = dot3 x x := by
  rw [dot3_mulVec, ← mulVec_mmul, h, mulVec_one]

/-- conjugation `Q S Qᵀ` -/
def conj (Q S : Mat3) : Mat3 := mmul Q (mmul S (tr Q))

/-- diagonal matrix -/
def diag3 (w : Vec3) : Mat3 := fun i j => if i = j then w i else 0

theorem wavg_le_max (w0 w1 w2 a b c : ℝ) (h01 : w0 ≤ w1) (h12 : w1 ≤ w2) (ha : 0 ≤ a) (hb : 0 ≤ b)
    (hs : a + b + c = 1) : w0 * a + w1 * b + w2 * c ≤ w2 := by
  have key : w2 - (w0 * a + w1 * b + w2 * c) = (w2 - w0) * a + (w2 - w1) * b := by
    linear_combination (-w2) * hs
  have h1 := mul_nonneg (sub_nonneg.mpr (h01.trans h12)) ha
  have h2 := mul_nonneg (sub_nonneg.mpr h12) hb
  linarith

theorem min_le_wavg (w0 w1 w2 a b c : ℝ) (h01 : w0 ≤ w1) (h12 : w1 ≤ w2) (hb : 0 ≤ b) (hc : 0 ≤ c)
    (hs : a + b + c = 1) : w0 ≤ w0 * a + w1 * b + w2 * c := by
  have key : (w0 * a + w1 * b + w2 * c) - w0 = (w1 - w0) * b + (w2 - w0) * c := by
    linear_combination (w0) * hs
  have h1 := mul_nonneg (sub_nonneg.mpr (h01.trans h12)) hc
  have h2 := mul_nonneg (sub_nonneg.mpr h01) hb
  linarith

/-! ### the spec assumed of LAPACK's symmetric eigensolver -/

/-- `(w, V)` is an eigen-decomposition of `S` as `scipy.linalg.eigh` documents it:
orthonormal columns, `S V[:,k] = w[k] V[:,k]`, eigenvalues in ascending order. -/
structure IsEigen (S : Mat3) (w : Vec3) (V : Mat3) : Prop where
  orth : mmul (tr V) V = one3
  eig : ∀ k : Fin 3, mulVec S (col V k) = fun i => w k * V i k
  asc : w 0 ≤ w 1 ∧ w 1 ≤ w 2

/-- `w` are the ascending eigenvalues of `S` (what `eigvalsh` returns) -/
def IsEigvals (S : Mat3) (w : Vec3) : Prop := ∃ V, IsEigen S w V

namespace IsEigen
variable {S : Mat3} {w : Vec3} {V : Mat3}

theorem orth' (h : IsEigen S w V) : mmul V (tr V) = one3 := mmul_one_comm h.orth

theorem mul_eq (h : IsEigen S w V) : mmul S V = mmul V (diag3 w) := by
  funext i k
  have := congrFun (h.eig k) i
  simp only [mulVec, col, sum3] at this
  fin_cases i <;> fin_cases k <;> simp [mmul, sum3, diag3] at this ⊢ <;> linarith

/-- spectral decomposition `S = V diag(w) Vᵀ` -/
theorem decomp (h : IsEigen S w V) : S = mmul V (mmul (diag3 w) (tr V)) := by
  calc S = mmul S (mmul V (tr V)) := by rw [h.orth', mmul_one]
    _ = mmul (mmul S V) (tr V) := by rw [mmul_assoc]
    _ = mmul V (mmul (diag3 w) (tr V)) := by rw [h.mul_eq, mmul_assoc]

theorem symm (h : IsEigen S w V) : tr S = S := by
  have hd : tr (diag3 w) = diag3 w := by
    funext i j; fin_cases i <;> fin_cases j <;> simp [tr, diag3]
  conv_lhs => rw [h.decomp]
  rw [tr_mmul, tr_mmul, tr_tr, hd, mmul_assoc]
  exact h.decomp.symm

/-- unit columns -/
theorem col_unit (h : IsEigen S w V) (k : Fin 3) : dot3 (col V k) (col V k) = 1 := by
  have := congrFun (congrFun h.orth k) k
  simpa [mmul, tr, sum3, one3, dot3, col] using this

/-- `xᵀ S x = Σ_k w_k (v_k · x)²` -/
theorem rayleigh (h : IsEigen S w V) (x : Vec3) :
    dot3 x (mulVec S x) = w 0 * (dot3 (col V 0) x) ^ 2 + w 1 * (dot3 (col V 1) x) ^ 2
      + w 2 * (dot3 (col V 2) x) ^ 2 := by
  conv_lhs => rw [h.decomp]
  simp only [dot3, mulVec, mmul, tr, diag3, col, sum3]
  simp
  ring

/-- Parseval: `Σ_k (v_k · x)² = x · x` -/
theorem parseval (h : IsEigen S w V) (x : Vec3) :
    (dot3 (col V 0) x) ^ 2 + (dot3 (col V 1) x) ^ 2 + (dot3 (col V 2) x) ^ 2 = dot3 x x := by
  have h1 : dot3 (mulVec (tr V) x) (mulVec (tr V) x) = dot3 x x := by
    rw [dot3_mulVec, tr_tr, ← mulVec_mmul, h.orth', mulVec_one]
  rw [← h1]
  simp only [dot3, mulVec, tr, col, sum3]; ring

/-- every eigenvalue is a Rayleigh quotient of its unit eigenvector -/
theorem val_eq (h : IsEigen S w V) (k : Fin 3) : w k = dot3 (col V k) (mulVec S (col V k)) := by
  rw [h.eig k]
  have := h.col_unit k
  simp only [dot3, sum3, col] at this ⊢
  linear_combination (-(w k)) * this

/-- the Rayleigh quotient of a unit vector is at most the largest eigenvalue -/
theorem rayleigh_le (h : IsEigen S w V) (x : Vec3) (hx : dot3 x x = 1) :
    dot3 x (mulVec S x) ≤ w 2 := by
  rw [h.rayleigh x]
  have hp := h.parseval x
  rw [hx] at hp
  obtain ⟨h01, h12⟩ := h.asc
  exact wavg_le_max _ _ _ _ _ _ h01 h12 (sq_nonneg _) (sq_nonneg _) hp

/-- ... and at least the smallest -/
theorem le_rayleigh (h : IsEigen S w V) (x : Vec3) (hx : dot3 x x = 1) :
    w 0 ≤ dot3 x (mulVec S x) := by
  rw [h.rayleigh x]
  have hp := h.parseval x
  rw [hx] at hp
  obtain ⟨h01, h12⟩ := h.asc
  exact min_le_wavg _ _ _ _ _ _ h01 h12 (sq_nonneg _) (sq_nonneg _) hp

/-- trace = sum of the eigenvalues -/
theorem trace_eq (h : IsEigen S w V) : trace3 S = w 0 + w 1 + w 2 := by
  have e0 := h.col_unit 0
  have e1 := h.col_unit 1
  have e2 := h.col_unit 2
  conv_lhs => rw [h.decomp]
  simp only [dot3, col, sum3] at e0 e1 e2
  simp only [trace3, mmul, tr, diag3, sum3]
  simp
  linear_combination (w 0) * e0 + (w 1) * e1 + (w 2) * e2

/-- eigenvalues of a positive semi-definite matrix are non-negative -/
theorem nonneg_of_psd (h : IsEigen S w V) (hpsd : ∀ x, 0 ≤ dot3 x (mulVec S x)) (k : Fin 3) :
    0 ≤ w k := by
  rw [h.val_eq k]; exact hpsd _

theorem conj_lin (V I D : Mat3) (x : ℝ) :
    mmul V (mmul (msub (smul3 x I) D) (tr V))
      = msub (smul3 x (mmul V (mmul I (tr V)))) (mmul V (mmul D (tr V))) := by
  funext i j; simp only [mmul, msub, smul3, tr, sum3]; ring

/-- characteristic polynomial: `det (x I − S) = Π (x − w_k)` -/
theorem charpoly (h : IsEigen S w V) (x : ℝ) :
    det3 (msub (smul3 x one3) S) = (x - w 0) * (x - w 1) * (x - w 2) := by
  have hx : msub (smul3 x one3) S = mmul V (mmul (msub (smul3 x one3) (diag3 w)) (tr V)) := by
    rw [conj_lin, one_mmul, h.orth', ← h.decomp]
  have hd : det3 V * det3 (tr V) = 1 := by rw [← det3_mmul, h.orth', det3_one]
  rw [hx, det3_mmul, det3_mmul]
  have : det3 (msub (smul3 x one3) (diag3 w)) = (x - w 0) * (x - w 1) * (x - w 2) := by
    simp [det3, msub, smul3, one3, diag3]
    ring
  rw [this]
  linear_combination ((x - w 0) * (x - w 1) * (x - w 2)) * hd

end IsEigen

/-- two ascending triples with the same monic cubic are equal -/
theorem sorted_roots_unique (a b : Vec3) (ha : a 0 ≤ a 1 ∧ a 1 ≤ a 2) (hb : b 0 ≤ b 1 ∧ b 1 ≤ b 2)
    (h : ∀ x : ℝ, (x - a 0) * (x - a 1) * (x - a 2) = (x - b 0) * (x - b 1) * (x - b 2)) : a = b := by
  obtain ⟨a01, a12⟩ := ha
  obtain ⟨b01, b12⟩ := hb
  have root_a : ∀ x, (x - a 0) * (x - a 1) * (x - a 2) = 0 → x = a 0 ∨ x = a 1 ∨ x = a 2 := by
    intro x hx
    rcases mul_eq_zero.mp hx with h1 | h1
    · rcases mul_eq_zero.mp h1 with h2 | h2
      · left; linarith
      · right; left; linarith
    · right; right; linarith
  have root_b : ∀ x, (x - b 0) * (x - b 1) * (x - b 2) = 0 → x = b 0 ∨ x = b 1 ∨ x = b 2 := by
    intro x hx
    rcases mul_eq_zero.mp hx with h1 | h1
    · rcases mul_eq_zero.mp h1 with h2 | h2
      · left; linarith
      · right; left; linarith
    · right; right; linarith
  have e0 : a 0 = b 0 := by
    have h1 := root_a (b 0) (by rw [h]; simp)
    have h2 := root_b (a 0) (by rw [← h]; simp)
    apply le_antisymm
    · rcases h1 with h1 | h1 | h1 <;> linarith
    · rcases h2 with h2 | h2 | h2 <;> linarith
  have e2 : a 2 = b 2 := by
    have h1 := root_a (b 2) (by rw [h]; simp)
    have h2 := root_b (a 2) (by rw [← h]; simp)
    apply le_antisymm
    · rcases h2 with h2 | h2 | h2 <;> linarith
    · rcases h1 with h1 | h1 | h1 <;> linarith
  have e1 : a 1 = b 1 := by
    have h3 := h (a 2 + 1)
    rw [← e0, ← e2] at h3
    have hpos : (0 : ℝ) < a 2 + 1 - a 0 := by linarith
    have : (a 2 + 1 - a 0) * ((a 2 + 1 - a 1) - (a 2 + 1 - b 1)) = 0 := by
      linear_combination h3
    rcases mul_eq_zero.mp this with h4 | h4
    · linarith
    · linarith
  funext i; fin_cases i <;> assumption

namespace IsEigen
variable {S : Mat3} {w : Vec3} {V : Mat3}

/-- the ascending eigenvalues of a matrix are unique (whatever eigenvectors LAPACK picks) -/
theorem vals_unique {w' : Vec3} {V' : Mat3} (h : IsEigen S w V) (h' : IsEigen S w' V') : w' = w :=
  sorted_roots_unique w' w h'.asc h.asc (fun x => by rw [← h'.charpoly x, h.charpoly x])

theorem col_mmul (Q V : Mat3) (k : Fin 3) : col (mmul Q V) k = mulVec Q (col V k) := rfl

/-- an eigen-decomposition of `S` rotates to one of `Q S Qᵀ` -/
theorem conj (h : IsEigen S w V) {Q : Mat3} (hQ : Orth Q) : IsEigen (conj Q S) w (mmul Q V) where
  orth := by
    rw [tr_mmul, mmul_assoc, ← mmul_assoc (tr Q), hQ, one_mmul, h.orth]
  eig := by
    intro k
    rw [col_mmul, Diag.conj, mulVec_mmul, mulVec_mmul, ← mulVec_mmul (tr Q), hQ, mulVec_one, h.eig k]
    funext i; simp only [mulVec, mmul, sum3]; ring
  asc := h.asc

/-- **objectivity of the spectrum**: the ascending eigenvalues of `Q S Qᵀ` are those of `S` -/
theorem vals_conj {w' : Vec3} {V' Q : Mat3} (h : IsEigen S w V) (hQ : Orth Q)
    (h' : IsEigen (Diag.conj Q S) w' V') : w' = w :=
  (h.conj hQ).vals_unique h'

/-- a unit eigenvector for a simple largest eigenvalue is `± V[:, 2]` -/
theorem top_vec_unique (h : IsEigen S w V) (hgap : w 1 < w 2) (y : Vec3)
    (hy : mulVec S y = fun i => w 2 * y i) (hn : dot3 y y = 1) :
    y = col V 2 ∨ y = fun i => - V i 2 := by
  have hc : ∀ k : Fin 3, (w k - w 2) * dot3 (col V k) y = 0 := by
    intro k
    have h1 : dot3 (col V k) (mulVec S y) = w 2 * dot3 (col V k) y := by
      rw [hy]; simp only [dot3, sum3]; ring
    have h2 : dot3 (col V k) (mulVec S y) = w k * dot3 (col V k) y := by
      rw [dot3_mulVec, h.symm, h.eig k]; simp only [dot3, sum3, col]; ring
    linear_combination h1 - h2
  have c0 : dot3 (col V 0) y = 0 := by
    rcases mul_eq_zero.mp (hc 0) with h1 | h1
    · have := h.asc.1; linarith
    · exact h1
  have c1 : dot3 (col V 1) y = 0 := by
    rcases mul_eq_zero.mp (hc 1) with h1 | h1
    · linarith
    · exact h1
  have hp := h.parseval y
  rw [c0, c1, hn] at hp
  have c2 : dot3 (col V 2) y = 1 ∨ dot3 (col V 2) y = -1 := by
    have : (dot3 (col V 2) y - 1) * (dot3 (col V 2) y + 1) = 0 := by linear_combination hp
    rcases mul_eq_zero.mp this with h1 | h1
    · left; linarith
    · right; linarith
  -- expansion y = V Vᵀ y
  have hexp : y = fun i => V i 0 * dot3 (col V 0) y + V i 1 * dot3 (col V 1) y + V i 2 * dot3 (col V 2) y := by
    have : y = mulVec (mmul V (tr V)) y := by rw [h.orth', mulVec_one]
    conv_lhs => rw [this]
    funext i; simp only [mulVec, mmul, tr, dot3, col, sum3]; ring
  rcases c2 with c2 | c2
  · left; rw [hexp, c0, c1, c2]; funext i; simp [col]
  · right; rw [hexp, c0, c1, c2]; funext i; simp

end IsEigen

/-! ### the scatter matrix -/

/-- the full symmetric scatter matrix `Σ_g r_g r_gᵀ` with `r_g` = row `row` of grain `g` -/
def scatterFull (A : List Mat3) (row : Fin 3) : Mat3 :=
  fun i j => (A.map fun a => a row i * a row j).sum

/-- what `eigh` reads from the lower-triangular array built by `_scatter_matrix` -/
theorem symLower_scatterLower (A : List Mat3) (row : Fin 3) :
    symLower (scatterLower A row) = scatterFull A row := by
  funext i j
  simp only [symLower, scatterLower, mat3_memo, scatterFull, listSum_eq_sum]
  by_cases hji : j ≤ i
  · simp only [hji, if_true]
    congr 1; apply List.map_congr_left; intro a _; ring
  · have hij : i ≤ j := le_of_lt (not_le.mp hji)
    simp only [hji, if_false, hij, if_true]

theorem scatterFull_cons (a : Mat3) (A : List Mat3) (row : Fin 3) (i j : Fin 3) :
    scatterFull (a :: A) row i j = a row i * a row j + scatterFull A row i j := by
  simp [scatterFull]

/-- `xᵀ S x = Σ_g (r_g · x)²` -/
theorem scatter_quadratic (A : List Mat3) (row : Fin 3) (x : Vec3) :
    dot3 x (mulVec (scatterFull A row) x) = (A.map fun a => (dot3 (a row) x) ^ 2).sum := by
  induction A with
  | nil => simp [scatterFull, dot3, mulVec, sum3]
  | cons a A ih =>
    simp only [List.map_cons, List.sum_cons, ← ih]
    simp only [dot3, mulVec, sum3, scatterFull_cons]
    ring

theorem sum_sq_nonneg (l : List ℝ) : 0 ≤ (l.map fun y => y ^ 2).sum := by
  apply List.sum_nonneg; intro y hy
  simp only [List.mem_map] at hy
  obtain ⟨z, _, rfl⟩ := hy
  positivity

theorem scatter_trace (A : List Mat3) (row : Fin 3) (hunit : ∀ a ∈ A, dot3 (a row) (a row) = 1) :
    trace3 (scatterFull A row) = A.length := by
  induction A with
  | nil => simp [scatterFull, trace3]
  | cons a A ih =>
    have h1 := hunit a (by simp)
    have h2 := ih (fun b hb => hunit b (by simp [hb]))
    simp only [trace3, scatterFull_cons, List.length_cons, Nat.cast_add, Nat.cast_one] at h2 ⊢
    simp only [dot3, sum3] at h1
    linarith

theorem scatter_frame_full (A : List Mat3) (row : Fin 3) (Q : Mat3) :
    scatterFull (A.map fun a => mmul a (tr Q)) row = conj Q (scatterFull A row) := by
  induction A with
  | nil => funext i j; simp [scatterFull, conj, mmul, sum3]
  | cons a A ih =>
    funext i j
    have := congrFun (congrFun ih i) j
    simp only [List.map_cons, scatterFull_cons, conj, mmul, tr, sum3] at this ⊢
    linear_combination this

/-! ### relabelling by sign matrices (two-fold axes of the orthorhombic lattice) -/

/-- `b = diag(s) a` with `s_i = ±1`: row `i` of `b` is `±` row `i` of `a`.  The three two-fold
rotations `diag(1,-1,-1)`, `diag(-1,1,-1)`, `diag(-1,-1,1)` (and the identity) are of this form. -/
def SignRel (a b : Mat3) : Prop := ∃ s : Vec3, (∀ i, s i * s i = 1) ∧ b = mmul (diag3 s) a

theorem SignRel.row {a b : Mat3} (h : SignRel a b) (row i j : Fin 3) :
    b row i * b row j = a row i * a row j := by
  obtain ⟨s, hs, rfl⟩ := h
  have h1 : ∀ k, mmul (diag3 s) a row k = s row * a row k := by
    intro k; fin_cases row <;> simp [mmul, diag3, sum3]
  rw [h1, h1]
  linear_combination (a row i * a row j) * hs row

theorem scatterLower_sign {A B : List Mat3} (h : List.Forall₂ SignRel A B) (row : Fin 3) :
    scatterLower B row = scatterLower A row := by
  funext i j
  simp only [scatterLower, mat3_memo, listSum_eq_sum]
  split_ifs
  · congr 1
    induction h with
    | nil => rfl
    | cons hab _ ih => simp only [List.map_cons, ih, hab.row]
  · rfl

theorem scatterLower_perm {A B : List Mat3} (h : A.Perm B) (row : Fin 3) :
    scatterLower A row = scatterLower B row := by
  funext i j
  simp only [scatterLower, mat3_memo, listSum_eq_sum]
  split_ifs
  · exact (h.map _).sum_eq
  · rfl

/-! ### closed forms used by the property theorems -/

theorem norm3_col_top {S : Mat3} {w : Vec3} {V : Mat3} (h : IsEigen S w V) : norm3 (col V 2) = 1 := by
  have := h.col_unit 2
  simp only [dot3, sum3] at this
  simp [norm3, Rsqrt, this]

theorem bingham_eq_col {S : Mat3} {w : Vec3} {V : Mat3} (h : IsEigen S w V) :
    binghamOfEigvecs V = col V 2 := by
  simp [binghamOfEigvecs, norm3_col_top h]

theorem wavg_le_max' (w0 w1 w2 a b c s : ℝ) (h01 : w0 ≤ w1) (h12 : w1 ≤ w2) (ha : 0 ≤ a) (hb : 0 ≤ b)
    (hs : a + b + c = s) : w0 * a + w1 * b + w2 * c ≤ w2 * s := by
  have key : w2 * s - (w0 * a + w1 * b + w2 * c) = (w2 - w0) * a + (w2 - w1) * b := by
    linear_combination (-w2) * hs
  have h1 := mul_nonneg (sub_nonneg.mpr (h01.trans h12)) ha
  have h2 := mul_nonneg (sub_nonneg.mpr h12) hb
  linarith

/-- `xᵀ S x ≤ w₂ |x|²` for every `x` -/
theorem IsEigen.rayleigh_le' {S : Mat3} {w : Vec3} {V : Mat3} (h : IsEigen S w V) (x : Vec3) :
    dot3 x (mulVec S x) ≤ w 2 * dot3 x x := by
  rw [h.rayleigh x]
  exact wavg_le_max' _ _ _ _ _ _ _ h.asc.1 h.asc.2 (sq_nonneg _) (sq_nonneg _) (h.parseval x)

theorem leftCG_symm (F : Mat3) : symLower (leftCG F) = leftCG F := by
  funext i j
  simp only [symLower, leftCG, mat3_memo]
  split_ifs
  · rfl
  · simp only [mmul, tr, sum3]; ring

/-- `xᵀ (F Fᵀ) x = |Fᵀ x|²` -/
theorem leftCG_quadratic (F : Mat3) (x : Vec3) :
    dot3 x (mulVec (leftCG F) x) = dot3 (mulVec (tr F) x) (mulVec (tr F) x) := by
  simp only [leftCG, mat3_memo, dot3, mulVec, mmul, tr, sum3]; ring

theorem shear_quadratic (γ : ℝ) (x : Vec3) :
    dot3 x (mulVec (leftCG (shearF γ)) x)
      = x 0 ^ 2 + 2 * γ * x 0 * x 1 + (1 + γ ^ 2) * x 1 ^ 2 + x 2 ^ 2 := by
  simp [leftCG, shearF, dot3, mulVec, mmul, tr, sum3]
  ring

end Diag
end ModelR
