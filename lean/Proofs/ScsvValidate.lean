import ModelD.Scsv
/-! `_validate_scsv_schema` accepts exactly the declaratively valid schemas (C16). -/
namespace Scsv

/-- a field the validation accepts -/
def FieldValid (f : Field) : Prop :=
  (∃ n, f.name = some n ∧ isIdentifier n = true) ∧
  (∃ t, typeOf f.typeName = some t ∧ (t ≠ .str ∧ t ≠ .bool → f.fill.isSome = true))

/-- a schema the validation accepts: the three keys, at least one field, delimiter neither equal to
nor contained in the missing marker, identifier names, known types, fills on numeric types -/
def SchemaValid (s : Schema) : Prop :=
  ∃ d m fs, s.delimiter = some d ∧ s.missing = some m ∧ s.fields = some fs ∧
    fs ≠ [] ∧ d ≠ m ∧ isInfix d m = false ∧ ∀ f ∈ fs, FieldValid f

theorem validateFields_true_iff (fs : List Field) :
    validateFields fs = .ok true ↔ ∀ f ∈ fs, FieldValid f := by
  induction fs with
  | nil => simp [validateFields]
  | cons f t ih =>
    unfold validateFields
    cases hn : f.name with
    | none =>
      simp only [List.mem_cons, forall_eq_or_imp]
      constructor
      · intro h; cases h
      · intro h; obtain ⟨⟨n, h1, _⟩, _⟩ := h.1; simp [hn] at h1
    | some n =>
      simp only [List.mem_cons, forall_eq_or_imp]
      by_cases hid : isIdentifier n = true
      · simp only [hid, Bool.not_true, Bool.false_eq_true, if_false]
        cases hty : typeOf f.typeName with
        | none =>
          constructor
          · intro h; cases h
          · intro h; obtain ⟨_, ⟨t, h1, _⟩⟩ := h.1; simp [hty] at h1
        | some ty =>
          simp only
          by_cases hfill : ty ≠ .str ∧ ty ≠ .bool ∧ f.fill.isNone = true
          · rw [if_pos hfill]
            constructor
            · intro h; cases h
            · intro h
              obtain ⟨_, ⟨t, h1, h2⟩⟩ := h.1
              rw [hty] at h1; cases h1
              have := h2 ⟨hfill.1, hfill.2.1⟩
              cases hf : f.fill <;> simp_all
          · rw [if_neg hfill, ih]
            constructor
            · intro h
              refine ⟨⟨⟨n, hn, hid⟩, ⟨ty, hty, ?_⟩⟩, h⟩
              intro h2
              cases hf : f.fill with
              | none => exact absurd ⟨h2.1, h2.2, by simp [hf]⟩ hfill
              | some v => rfl
            · intro h; exact h.2
      · have hid' : isIdentifier n = false := by simpa using hid
        simp only [hid', Bool.not_false, if_true]
        constructor
        · intro h; cases h
        · intro h
          obtain ⟨⟨n', h1, h2⟩, _⟩ := h.1
          rw [hn] at h1; cases h1
          simp [hid'] at h2

/-- **`validate_iff`**: the validation returns `True` exactly on the valid schemas -/
theorem validate_iff (s : Schema) : validate s = .ok true ↔ SchemaValid s := by
  unfold validate SchemaValid
  cases hd : s.delimiter with
  | none => simp
  | some d =>
    cases hm : s.missing with
    | none => simp
    | some m =>
      cases hf : s.fields with
      | none => simp
      | some fs =>
        simp only [Option.some.injEq, exists_and_left, exists_eq_left']
        by_cases hc : fs.length > 0 ∧ d ≠ m ∧ ¬ isInfix d m = true
        · rw [if_pos hc, validateFields_true_iff]
          constructor
          · intro h
            refine ⟨?_, hc.2.1, by simpa using hc.2.2, h⟩
            intro e; subst e; simp at hc
          · intro h; exact h.2.2.2
        · rw [if_neg hc]
          constructor
          · intro h; cases h
          · intro h
            exfalso; apply hc
            refine ⟨?_, h.2.1, by simp [h.2.2.1]⟩
            cases fs with
            | nil => exact absurd rfl h.1
            | cons _ _ => simp

/-- the validation never raises (since commit c90071b a field without `name` is reported as invalid) -/
theorem validateFields_total (fs : List Field) : ∃ b, validateFields fs = .ok b := by
  induction fs with
  | nil => exact ⟨true, rfl⟩
  | cons f t ih =>
    unfold validateFields
    split
    · exact ⟨false, rfl⟩
    · split
      · exact ⟨false, rfl⟩
      · split
        · exact ⟨false, rfl⟩
        · split
          · exact ⟨false, rfl⟩
          · exact ih

theorem validate_total (s : Schema) : ∃ b, validate s = .ok b := by
  unfold validate
  split
  · split
    · exact validateFields_total _
    · exact ⟨false, rfl⟩
  · exact ⟨false, rfl⟩

theorem validate_error (s : Schema) (e : Err) (h : validate s = .error e) : False := by
  obtain ⟨b, hb⟩ := validate_total s
  rw [hb] at h; cases h

end Scsv
