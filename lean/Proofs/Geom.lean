import Proofs.Diag
import ModelR.Density
import Mathlib.Analysis.Complex.Norm
/-! Helper lemmas for C20: spherical coordinates (Mathlib facts used: `Complex.cos_arg`,
`Complex.sin_arg`, `Complex.neg_pi_lt_arg`, `Complex.arg_le_pi`, `Real.cos_arccos`, `Real.sin_arccos`,
`Real.arccos_nonneg`, `Real.arccos_le_pi`), pole directions, the Lambert projection. -/
namespace ModelR.Geom
open ModelR.Diag

/-! ### spherical coordinates -/

theorem toCartesian_normsq (φ θ r : ℝ) :
    (toCartesian φ θ r).1 ^ 2 + (toCartesian φ θ r).2.1 ^ 2 + (toCartesian φ θ r).2.2 ^ 2 = r ^ 2 := by
  simp only [toCartesian, Rsin, Rcos]
  have h1 := Real.sin_sq_add_cos_sq θ
  have h2 := Real.sin_sq_add_cos_sq φ
  linear_combination (r ^ 2 * Real.sin θ ^ 2) * h2 + r ^ 2 * h1

theorem sq_sum_zero {x y : ℝ} (h : x * x + y * y = 0) : x = 0 ∧ y = 0 := by
  constructor <;> nlinarith [mul_self_nonneg x, mul_self_nonneg y]

/-- `cos(arccos(z/r)) = z/r` for `r = |p| > 0` -/
theorem cos_colat (x y z : ℝ) (hs : 0 < x * x + y * y + z * z) :
    Real.cos (Real.arccos (z / Real.sqrt (x * x + y * y + z * z))) = z / Real.sqrt (x * x + y * y + z * z) := by
  have hr : 0 < Real.sqrt (x * x + y * y + z * z) := Real.sqrt_pos.mpr hs
  have habs : |z| ≤ Real.sqrt (x * x + y * y + z * z) :=
    Real.abs_le_sqrt (by nlinarith [mul_self_nonneg x, mul_self_nonneg y])
  have hz := abs_le.mp habs
  apply Real.cos_arccos
  · rw [le_div_iff₀ hr]; linarith
  · rw [div_le_one hr]; linarith

/-- `sin(arccos(z/r)) = ρ/r` with `ρ = √(x²+y²)` -/
theorem sin_colat (x y z : ℝ) (hs : 0 < x * x + y * y + z * z) :
    Real.sin (Real.arccos (z / Real.sqrt (x * x + y * y + z * z)))
      = Real.sqrt (x * x + y * y) / Real.sqrt (x * x + y * y + z * z) := by
  have hr : 0 < Real.sqrt (x * x + y * y + z * z) := Real.sqrt_pos.mpr hs
  have hr2 : Real.sqrt (x * x + y * y + z * z) ^ 2 = x * x + y * y + z * z := Real.sq_sqrt hs.le
  rw [Real.sin_arccos]
  have : 1 - (z / Real.sqrt (x * x + y * y + z * z)) ^ 2 = (x * x + y * y) / (x * x + y * y + z * z) := by
    rw [div_pow, hr2, one_sub_div hs.ne']; congr 1; ring
  rw [this, Real.sqrt_div (by nlinarith [mul_self_nonneg x, mul_self_nonneg y])]

theorem norm_mk (x y : ℝ) : ‖(⟨x, y⟩ : ℂ)‖ = Real.sqrt (x * x + y * y) := by
  rw [Complex.norm_def, Complex.normSq_mk]

/-- `ρ cos ϕ = x` for `ϕ = arg(x + iy)` (also when `ρ = 0`) -/
theorem rho_cos_arg (x y : ℝ) : Real.sqrt (x * x + y * y) * Real.cos (Complex.arg ⟨x, y⟩) = x := by
  by_cases h : x * x + y * y = 0
  · obtain ⟨hx, _⟩ := sq_sum_zero h
    rw [h]; simp [hx]
  · have hne : (⟨x, y⟩ : ℂ) ≠ 0 := by
      intro h0
      have h1 := congrArg Complex.re h0
      have h2 := congrArg Complex.im h0
      simp at h1 h2
      apply h; rw [h1, h2]; ring
    have hpos : 0 < Real.sqrt (x * x + y * y) :=
      Real.sqrt_pos.mpr (lt_of_le_of_ne (by nlinarith [mul_self_nonneg x, mul_self_nonneg y]) (Ne.symm h))
    rw [Complex.cos_arg hne, norm_mk]
    show Real.sqrt (x * x + y * y) * (x / Real.sqrt (x * x + y * y)) = x
    rw [mul_comm, div_mul_cancel₀ _ hpos.ne']

/-- `ρ sin ϕ = y` -/
theorem rho_sin_arg (x y : ℝ) : Real.sqrt (x * x + y * y) * Real.sin (Complex.arg ⟨x, y⟩) = y := by
  by_cases h : x * x + y * y = 0
  · obtain ⟨_, hy⟩ := sq_sum_zero h
    rw [h]; simp [hy]
  · have hpos : 0 < Real.sqrt (x * x + y * y) :=
      Real.sqrt_pos.mpr (lt_of_le_of_ne (by nlinarith [mul_self_nonneg x, mul_self_nonneg y]) (Ne.symm h))
    rw [Complex.sin_arg, norm_mk]
    show Real.sqrt (x * x + y * y) * (y / Real.sqrt (x * x + y * y)) = y
    rw [mul_comm, div_mul_cancel₀ _ hpos.ne']

/-! ### pole directions -/

/-- the un-normalised direction `Aᵀ · hkl` -/
def rawDir (a : Mat3) (hkl : Vec3) : Vec3 := mulVec (tr a) hkl

theorem poleDir_eq (a : Mat3) (hkl : Vec3) :
    poleDir a hkl = fun i => rawDir a hkl i / Real.sqrt (dot3 (rawDir a hkl) (rawDir a hkl)) := by
  funext i
  simp only [poleDir, vec3_memo, Rsqrt, rawDir, mulVec, tr, dot3, sum3]

theorem poleDir_unit (a : Mat3) (hkl : Vec3) (h : rawDir a hkl ≠ 0) :
    dot3 (poleDir a hkl) (poleDir a hkl) = 1 := by
  rw [poleDir_eq]
  set d := rawDir a hkl with hd
  have hnn : 0 ≤ dot3 d d := by
    simp only [dot3, sum3]; nlinarith [mul_self_nonneg (d 0), mul_self_nonneg (d 1), mul_self_nonneg (d 2)]
  have hpos : 0 < dot3 d d := by
    rcases hnn.lt_or_eq with h1 | h1
    · exact h1
    · exfalso; apply h
      simp only [dot3, sum3] at h1
      funext i
      fin_cases i <;> simp <;> nlinarith [mul_self_nonneg (d 0), mul_self_nonneg (d 1), mul_self_nonneg (d 2)]
  have hss : Real.sqrt (dot3 d d) * Real.sqrt (dot3 d d) = dot3 d d := Real.mul_self_sqrt hnn
  set s := Real.sqrt (dot3 d d) with hs_def
  have hs : s ≠ 0 := (Real.sqrt_pos.mpr hpos).ne'
  have key : d 0 / s * (d 0 / s) + d 1 / s * (d 1 / s) + d 2 / s * (d 2 / s)
      = (d 0 * d 0 + d 1 * d 1 + d 2 * d 2) / (s * s) := by field_simp
  have hdd : dot3 d d = d 0 * d 0 + d 1 * d 1 + d 2 * d 2 := by simp only [dot3, sum3]
  show (fun i => d i / s) 0 * (fun i => d i / s) 0 + (fun i => d i / s) 1 * (fun i => d i / s) 1
    + (fun i => d i / s) 2 * (fun i => d i / s) 2 = 1
  simp only []
  rw [key, hss, hdd]
  exact div_self (by rw [← hdd]; exact hpos.ne')

/-- for an orientation matrix with orthonormal rows, `|Aᵀ h| = |h|` -/
theorem rawDir_norm (a : Mat3) (hkl : Vec3) (ha : mmul a (tr a) = one3) :
    dot3 (rawDir a hkl) (rawDir a hkl) = dot3 hkl hkl := by
  simp only [rawDir]
  rw [dot3_mulVec, tr_tr, ← mulVec_mmul, ha, mulVec_one]

/-! ### Lambert projection -/

/-- the masking condition of `lambert_equal_area` -/
def Masked (x y : ℝ) : Prop := |x| < 1e-16 ∧ |y| < 1e-16

theorem lambert_masked_eq (x y z : ℝ) (h : Masked x y) : lambert x y z = (0, 0) := by
  have h' : Rabs x < 1e-16 ∧ Rabs y < 1e-16 := h
  simp [lambert, h']

theorem lambert_unmasked_eq (x y z : ℝ) (h : ¬ Masked x y) :
    lambert x y z =
      ((if (1 - |z|) / (x * x + y * y) < 0 then 0 else Real.sqrt ((1 - |z|) / (x * x + y * y))) * x,
       (if (1 - |z|) / (x * x + y * y) < 0 then 0 else Real.sqrt ((1 - |z|) / (x * x + y * y))) * y) := by
  have h' : ¬ (Rabs x < 1e-16 ∧ Rabs y < 1e-16) := h
  simp only [lambert, if_neg h']
  rfl

theorem rho_pos_of_unmasked (x y : ℝ) (h : ¬ Masked x y) : 0 < x * x + y * y := by
  by_contra hc
  have h0 : x * x + y * y = 0 := le_antisymm (not_lt.mp hc) (by nlinarith [mul_self_nonneg x, mul_self_nonneg y])
  obtain ⟨hx, hy⟩ := sq_sum_zero h0
  apply h
  constructor <;> simp [hx, hy] <;> norm_num

theorem abs_le_one_of_unit {x y z : ℝ} (h : x * x + y * y + z * z = 1) : |z| ≤ 1 := by
  rw [abs_le]; constructor <;> nlinarith [mul_self_nonneg x, mul_self_nonneg y, mul_self_nonneg (z - 1), mul_self_nonneg (z + 1)]

theorem one_sub_abs_mul (z : ℝ) : (1 - |z|) * (1 + |z|) = 1 - z * z := by
  have := abs_mul_abs_self z
  ring_nf; nlinarith [this]

end ModelR.Geom
