import ModelD.Csv
/-! Round trip of the CSV row codec (C16, layer 3): `csv.reader` (with `skipinitialspace`) applied
to what `csv.writer` (QUOTE_MINIMAL) wrote gives back the fields. Core tactics only. -/
namespace Scsv.Csv

/-- delimiters for which the row codec round-trips: not a record separator and not the quote
character (for the blank, which `skipinitialspace` swallows, see `BlankOK`) -/
def DelimOK (d : Char) : Prop := d ≠ '\n' ∧ d ≠ '\r' ∧ d ≠ '"'

/-- with a blank as delimiter an EMPTY field would be swallowed by `skipinitialspace` -/
def BlankOK (d : Char) (f : Str) : Prop := d = ' ' → f ≠ []

/-- fields for which the row codec round-trips: no line break, no leading blank -/
def FieldOK (f : Str) : Prop := '\n' ∉ f ∧ '\r' ∉ f ∧ f.head? ≠ some ' '

instance (d : Char) : Decidable (DelimOK d) := by unfold DelimOK; infer_instance
instance (f : Str) : Decidable (FieldOK f) := by unfold FieldOK; infer_instance

/-- at the start of a field: nothing accumulated, automaton in START_RECORD or START_FIELD -/
def AtFieldStart (p : PS) : Prop := p.cur = [] ∧ (p.st = .startField ∨ p.st = .startRecord)

theorem stepChars_append (d : Char) (p : PS) (a b : Str) :
    stepChars d p (a ++ b) = (stepChars d p a).bind (fun q => stepChars d q b) := by
  induction a generalizing p with
  | nil => simp [stepChars]
  | cons c cs ih =>
    simp only [List.cons_append, stepChars]
    cases step d p c with
    | none => simp
    | some q => simp [ih]

theorem isNL_false_of {c : Char} (h1 : c ≠ '\n') (h2 : c ≠ '\r') : isNL c = false := by
  simp [isNL, h1, h2]

/-- characters of an unquoted field after its first character -/
theorem stepChars_inField (d : Char) (cs cur : Str) (fs : List Str)
    (h : ∀ c ∈ cs, c ≠ d ∧ isNL c = false) :
    stepChars d ⟨.inField, cur, fs⟩ cs = some ⟨.inField, cs.reverse ++ cur, fs⟩ := by
  induction cs generalizing cur with
  | nil => simp [stepChars]
  | cons c t ih =>
    obtain ⟨h1, h2⟩ := h c (by simp)
    simp [stepChars, step, h1, h2, PS.addChar, ih (c :: cur) (fun c' hc' => h c' (by simp [hc']))]

/-- a non-empty field that needs no quotes, read from the start of a field -/
theorem stepChars_unquoted (d : Char) (hd : DelimOK d) (p : PS) (hp : AtFieldStart p) (f : Str)
    (hf : FieldOK f) (hq : needsQuote d f = false) (hne : f ≠ []) :
    stepChars d p f = some ⟨.inField, f.reverse, p.fields⟩ := by
  obtain ⟨c, t, rfl⟩ := List.exists_cons_of_ne_nil hne
  obtain ⟨hn, hr, hs⟩ := hf
  simp [needsQuote] at hq
  obtain ⟨⟨hc1, hc2⟩, hc3⟩ := hq.1
  have hrest : ∀ c' ∈ t, c' ≠ d ∧ isNL c' = false := by
    intro c' hc'
    obtain ⟨⟨h1, _⟩, h3⟩ := hq.2 c' hc'
    refine ⟨h1, isNL_false_of h3 ?_⟩
    intro e; subst e; exact hr (by simp [hc'])
  have hcn : isNL c = false := isNL_false_of hc3 (fun e => hr (by simp [e]))
  have hsp : c ≠ ' ' := by simpa using hs
  obtain ⟨hcur, hst⟩ := hp
  have key : step d p c = some ⟨.inField, [c], p.fields⟩ := by
    rcases hst with hst | hst <;>
      simp [step, step.stepStartField, hst, hcn, hc1, hc2, hsp, PS.addChar, hcur]
  simp [stepChars, key, stepChars_inField d t [c] p.fields hrest]

/-- the body of a quoted field -/
theorem stepChars_inQuoted (d : Char) (g cur : Str) (fs : List Str) :
    stepChars d ⟨.inQuoted, cur, fs⟩ (escapeQuotes g) = some ⟨.inQuoted, g.reverse ++ cur, fs⟩ := by
  induction g generalizing cur with
  | nil => simp [escapeQuotes, stepChars]
  | cons c t ih =>
    by_cases hc : c = '"'
    · subst hc
      simp [escapeQuotes, stepChars, step, PS.addChar, ih]
    · simp [escapeQuotes, hc, stepChars, step, PS.addChar, ih]

/-- a quoted field, read from the start of a field up to and including the closing quote -/
theorem stepChars_quoted (d : Char) (p : PS) (hp : AtFieldStart p) (f : Str) :
    stepChars d p (quoteField f) = some ⟨.quoteInQuoted, f.reverse, p.fields⟩ := by
  obtain ⟨hcur, hst⟩ := hp
  have key : step d p '"' = some ⟨.inQuoted, [], p.fields⟩ := by
    rcases hst with hst | hst <;> simp [step, step.stepStartField, hst, isNL, hcur] <;>
      (cases p; simp_all)
  unfold quoteField
  simp only [stepChars, key, Option.bind_some]
  rw [stepChars_append, stepChars_inQuoted]
  simp [stepChars, step]

/-- the state after the text of a field, before the separator -/
inductive AfterField (f : Str) (fs : List Str) : PS → Prop
  | unquoted (h : f ≠ []) : AfterField f fs ⟨.inField, f.reverse, fs⟩
  | quoted : AfterField f fs ⟨.quoteInQuoted, f.reverse, fs⟩
  | emptyField (st : St) (h : st = .startField ∨ st = .startRecord) (hf : f = []) : AfterField f fs ⟨st, [], fs⟩

theorem stepChars_writeField (d : Char) (hd : DelimOK d) (p : PS) (hp : AtFieldStart p) (f : Str)
    (hf : FieldOK f) : ∃ q, stepChars d p (writeField d f) = some q ∧ AfterField f p.fields q := by
  unfold writeField
  by_cases hq : needsQuote d f = true
  · simp only [hq, if_true]
    exact ⟨_, stepChars_quoted d p hp f, .quoted⟩
  · simp only [hq]
    simp at hq
    by_cases hne : f = []
    · subst hne
      obtain ⟨hcur, hst⟩ := hp
      refine ⟨p, by simp [stepChars], ?_⟩
      have : p = ⟨p.st, [], p.fields⟩ := by cases p; simp_all
      rw [this]
      exact .emptyField p.st hst rfl
    · exact ⟨_, stepChars_unquoted d hd p hp f hf hq hne, .unquoted hne⟩

/-- a field followed by the delimiter -/
theorem step_delim_after (d : Char) (hd : DelimOK d) (f : Str) (hb : BlankOK d f) (fs : List Str) (q : PS)
    (h : AfterField f fs q) : step d q d = some ⟨.startField, [], f :: fs⟩ := by
  obtain ⟨h1, h2, h3⟩ := hd
  have hnl : isNL d = false := isNL_false_of h1 h2
  cases h with
  | unquoted _ => simp [step, hnl, PS.saveField]
  | quoted => simp [step, h3, PS.saveField]
  | emptyField st hst hf =>
    subst hf
    have h4 : d ≠ ' ' := fun e => hb e rfl
    rcases hst with hst | hst <;> simp [step, step.stepStartField, hst, hnl, h3, h4, PS.saveField]

/-- a field followed by the end of the line -/
theorem step_nl_after (d : Char) (hd : DelimOK d) (f : Str) (fs : List Str) (q : PS)
    (h : AfterField f fs q) (hq : q.st ≠ .startRecord) : step d q '\n' = some ⟨.eatCRNL, [], f :: fs⟩ := by
  have hdn : '\n' ≠ d := fun e => hd.1 e.symm
  cases h with
  | unquoted _ => simp [step, isNL, PS.saveField]
  | quoted => simp [step, isNL, PS.saveField, hdn]
  | emptyField st hst hf =>
    subst hf
    rcases hst with hst | hst
    · simp [step, step.stepStartField, hst, isNL, PS.saveField]
    · exact absurd hst hq

theorem stepChars_field_delim (d : Char) (hd : DelimOK d) (p : PS) (hp : AtFieldStart p) (f : Str)
    (hf : FieldOK f) (hb : BlankOK d f) :
    stepChars d p (writeField d f ++ [d]) = some ⟨.startField, [], f :: p.fields⟩ := by
  obtain ⟨q, h1, h2⟩ := stepChars_writeField d hd p hp f hf
  rw [stepChars_append, h1]
  simp [stepChars, step_delim_after d hd f hb p.fields q h2]

theorem stepChars_field_nl (d : Char) (hd : DelimOK d) (p : PS) (hp : AtFieldStart p) (f : Str)
    (hf : FieldOK f) (hst : p.st = .startField ∨ writeField d f ≠ []) :
    stepChars d p (writeField d f ++ ['\n']) = some ⟨.eatCRNL, [], f :: p.fields⟩ := by
  obtain ⟨q, h1, h2⟩ := stepChars_writeField d hd p hp f hf
  rw [stepChars_append, h1]
  have hq : q.st ≠ .startRecord := by
    cases h2 with
    | unquoted _ => simp
    | quoted => simp
    | emptyField st hs hfe =>
      subst hfe
      rcases hst with hst | hst
      · -- q = p here
        have : writeField d [] = [] := by simp [writeField, needsQuote]
        rw [this] at h1
        simp [stepChars] at h1
        have hpst : p.st = st := congrArg PS.st h1
        simp [← hpst, hst]
      · exact absurd (by simp [writeField, needsQuote]) hst
  simp [stepChars, step_nl_after d hd f p.fields q h2 hq]

/-- the fields after the first one, up to the end of the line -/
theorem stepChars_joinFields (d : Char) (hd : DelimOK d) (gs : List Str) (hne : gs ≠ [])
    (hg : ∀ g ∈ gs, FieldOK g) (hb : ∀ g ∈ gs, BlankOK d g) (acc : List Str) :
    stepChars d ⟨.startField, [], acc⟩ (joinFields d (gs.map (writeField d)) ++ ['\n'])
      = some ⟨.eatCRNL, [], gs.reverse ++ acc⟩ := by
  induction gs generalizing acc with
  | nil => exact absurd rfl hne
  | cons g t ih =>
    cases t with
    | nil =>
      simp only [List.map_cons, List.map_nil, joinFields]
      have := stepChars_field_nl d hd ⟨.startField, [], acc⟩ ⟨rfl, Or.inl rfl⟩ g (hg g (by simp)) (Or.inl rfl)
      simpa using this
    | cons h t' =>
      simp only [List.map_cons, joinFields]
      have e : writeField d g ++ d :: joinFields d (writeField d h :: t'.map (writeField d)) ++ ['\n']
          = (writeField d g ++ [d]) ++ (joinFields d ((h :: t').map (writeField d)) ++ ['\n']) := by simp
      rw [e, stepChars_append,
        stepChars_field_delim d hd ⟨.startField, [], acc⟩ ⟨rfl, Or.inl rfl⟩ g (hg g (by simp)) (hb g (by simp))]
      simp only [Option.bind_some]
      rw [ih (by simp) (fun g' hg' => hg g' (by simp [hg'])) (fun g' hg' => hb g' (by simp [hg']))]
      simp

theorem writeField_ne_nil (d : Char) (f : Str) (h : f ≠ []) : writeField d f ≠ [] := by
  unfold writeField
  split
  · simp [quoteField]
  · exact h

/-- **row round trip**: one record written by `csv.writer` is read back by `csv.reader` -/
theorem stepLine_writeRow (d : Char) (hd : DelimOK d) (fs : List Str) (hne : fs ≠ [])
    (hf : ∀ f ∈ fs, FieldOK f) (hb : ∀ f ∈ fs, BlankOK d f) :
    stepLine d PS.init (writeRow d fs ++ ['\n']) = some ⟨.startRecord, [], fs.reverse⟩ := by
  unfold stepLine
  cases fs with
  | nil => exact absurd rfl hne
  | cons f t =>
    cases t with
    | nil =>
      by_cases he : f = []
      · subst he
        have hdn : '\n' ≠ d := fun e => hd.1 e.symm
        simp [writeRow, stepChars, step, step.stepStartField, PS.init, isNL, PS.saveField, stepEOL, hdn]
      · have hw : writeRow d [f] = writeField d f := by
          unfold writeRow
          split
          · rename_i heq; simp at heq; exact absurd heq he
          · simp [joinFields]
        rw [hw, stepChars_field_nl d hd PS.init ⟨rfl, Or.inr rfl⟩ f (hf f (by simp))
          (Or.inr (writeField_ne_nil d f he))]
        simp [stepEOL, PS.init]
    | cons g t' =>
      have hw : writeRow d (f :: g :: t') = writeField d f ++ d :: joinFields d ((g :: t').map (writeField d)) := by
        unfold writeRow
        split
        · rename_i heq; simp at heq
        · simp [joinFields]
      have e : writeField d f ++ d :: joinFields d ((g :: t').map (writeField d)) ++ ['\n']
          = (writeField d f ++ [d]) ++ (joinFields d ((g :: t').map (writeField d)) ++ ['\n']) := by simp
      rw [hw, e, stepChars_append, stepChars_field_delim d hd PS.init ⟨rfl, Or.inr rfl⟩ f (hf f (by simp)) (hb f (by simp))]
      simp only [Option.bind_some, PS.init]
      rw [stepChars_joinFields d hd (g :: t') (by simp) (fun g' hg' => hf g' (by simp [hg']))
        (fun g' hg' => hb g' (by simp [hg']))]
      simp [stepEOL]

/-- **`row_roundtrip`** (all rows of a file): `csv.reader` over the lines written by `csv.writer`
returns exactly the written records, for every number of records and fields. -/
theorem readRows_writeRows (d : Char) (hd : DelimOK d) (rows : List (List Str))
    (hne : ∀ r ∈ rows, r ≠ []) (hf : ∀ r ∈ rows, ∀ f ∈ r, FieldOK f) (hb : ∀ r ∈ rows, ∀ f ∈ r, BlankOK d f) :
    readRows d (rows.map (fun r => writeRow d r ++ ['\n'])) = some rows := by
  unfold readRows
  induction rows with
  | nil => simp [readRowsAux, PS.init]
  | cons r rs ih =>
    simp only [List.map_cons, readRowsAux]
    rw [stepLine_writeRow d hd r (hne r (by simp)) (hf r (by simp)) (hb r (by simp))]
    simp [ih (fun r' hr' => hne r' (by simp [hr'])) (fun r' hr' => hf r' (by simp [hr']))
      (fun r' hr' => hb r' (by simp [hr']))]

end Scsv.Csv
