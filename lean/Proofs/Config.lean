import Proofs.Params
import ModelD.Config
/-! Helper lemmas for C19: `ModelD.Config` (phase parsing). -/
namespace ModelD.Config
open List ModelD.Params

/-! ### phases -/
def ValidTok : PhaseTok → Prop
  | .str s => (phaseOfName s).isSome
  | .int i => i = 0 ∨ i = 1
  | .bool _ => True
  | .other => False

theorem parsePhase_repaired (attrs : List String) (t : PhaseTok) :
    (ValidTok t → ∃ p, parsePhase repaired attrs t = .ok (.member p)) ∧
    (¬ ValidTok t → parsePhase repaired attrs t = .error .configError) := by
  cases t with
  | str s =>
    simp only [ValidTok, parsePhase, repaired]
    cases h : phaseOfName s <;> simp
  | int i =>
    simp only [ValidTok, parsePhase, repaired, phaseOfOrd]
    by_cases h0 : i = 0
    · simp [h0]
    · by_cases h1 : i = 1
      · simp [h1]
      · simp [h0, h1]
  | bool b => simp [ValidTok, parsePhase]
  | other => simp [ValidTok, parsePhase]

theorem parsePhases_repaired_ok (attrs : List String) (ts : List PhaseTok) (h : ∀ t ∈ ts, ValidTok t) :
    ∃ vs, parsePhases repaired attrs ts = .ok vs ∧ vs.length = ts.length ∧ ∀ v ∈ vs, ∃ p, v = .member p := by
  induction ts with
  | nil => exact ⟨[], rfl, rfl, by simp⟩
  | cons t rest ih =>
    obtain ⟨p, hp⟩ := (parsePhase_repaired attrs t).1 (h t (by simp))
    obtain ⟨vs, hvs, hl, hm⟩ := ih (fun x hx => h x (by simp [hx]))
    refine ⟨.member p :: vs, ?_, by simp [hl], ?_⟩
    · simp [parsePhases, hp, hvs]
    · intro v hv
      rcases mem_cons.mp hv with rfl | hv
      · exact ⟨p, rfl⟩
      · exact hm v hv

theorem parsePhases_repaired_err (attrs : List String) (ts : List PhaseTok) (h : ∃ t ∈ ts, ¬ ValidTok t) :
    parsePhases repaired attrs ts = .error .configError := by
  induction ts with
  | nil => simp at h
  | cons t rest ih =>
    by_cases ht : ValidTok t
    · obtain ⟨p, hp⟩ := (parsePhase_repaired attrs t).1 ht
      have : ∃ x ∈ rest, ¬ ValidTok x := by
        obtain ⟨x, hx, hnx⟩ := h
        rcases mem_cons.mp hx with rfl | hx
        · exact absurd ht hnx
        · exact ⟨x, hx, hnx⟩
      simp [parsePhases, hp, ih this]
    · simp [parsePhases, (parsePhase_repaired attrs t).2 ht]

theorem parsePhases_repaired_inv (attrs : List String) (ts : List PhaseTok) (vs : List PhaseVal)
    (h : parsePhases repaired attrs ts = .ok vs) :
    (∀ t ∈ ts, ValidTok t) ∧ vs.length = ts.length ∧ ∀ v ∈ vs, ∃ p, v = .member p := by
  by_cases hall : ∀ t ∈ ts, ValidTok t
  · obtain ⟨vs', h', hl, hm⟩ := parsePhases_repaired_ok attrs ts hall
    rw [h] at h'
    cases h'
    exact ⟨hall, hl, hm⟩
  · have : ∃ t ∈ ts, ¬ ValidTok t := by simpa using hall
    rw [parsePhases_repaired_err attrs ts this] at h
    cases h
theorem lookup_map_key {β : Type} (ks : List String) (g : String → β) (k : String) (hk : k ∈ ks) :
    (ks.map (fun k => (k, g k))).lookup k = some (g k) := by
  induction ks with
  | nil => simp at hk
  | cons a rest ih =>
    by_cases h : k = a
    · subst h; simp
    · have : (k == a) = false := by simp [h]
      have hk' : k ∈ rest := by
        rcases mem_cons.mp hk with rfl | hk'
        · exact absurd rfl h
        · exact hk'
      simp [List.lookup, this, ih hk']

/-- what `_parse_config_params` requires of the entries that are present -/
structure ValidParams {ρ : Type} (sumBad : List ρ → Bool) (p : ParamsIn ρ) : Prop where
  sum : ∀ l, p.fractions = some l → sumBad l = false
  len : assemblageLen p.assemblage = fracLen p.fractions
  phases : ∀ ts, p.assemblage = some ts → ∀ t ∈ ts, ValidTok t
  fabric : ∀ t, p.fabric = some t → ∃ s f, t = .str s ∧ fabricOfLetter s = some f
  coeff : ∀ n, p.coeffLen = some n → n = 7

theorem parseParams_ok {ρ : Type} (attrs : List String) (sumBad : List ρ → Bool) (p : ParamsIn ρ)
    (hv : ValidParams sumBad p) :
    ∃ out, parseParams repaired attrs sumBad p = .ok out ∧
      out.fractions = p.fractions ∧ out.coeffLen = p.coeffLen ∧
      (p.assemblage = none → out.assemblage = [.member .olivine]) ∧
      (∀ ts, p.assemblage = some ts → parsePhases repaired attrs ts = .ok out.assemblage) ∧
      (p.fabric = none → out.fabric = .olivine_A) ∧
      (∀ s, p.fabric = some (.str s) → fabricOfLetter s = some out.fabric) ∧
      (∀ k ∈ passKeys, out.passthrough.lookup k =
          some (match p.passthrough.lookup k with | some r => .given r | none => .default (defaultOf k))) := by
  obtain ⟨hsum, hlen, hph, hfab, hco⟩ := hv
  -- phases
  obtain ⟨phs, hphs, hphs1, hphs2⟩ : ∃ phs, phasesOf repaired attrs p.assemblage = .ok phs ∧
      (p.assemblage = none → phs = [.member .olivine]) ∧
      (∀ ts, p.assemblage = some ts → parsePhases repaired attrs ts = .ok phs) := by
    cases ha : p.assemblage with
    | none => exact ⟨_, rfl, fun _ => rfl, by simp⟩
    | some ts =>
      obtain ⟨vs, hvs, _, _⟩ := parsePhases_repaired_ok attrs ts (hph ts ha)
      exact ⟨vs, hvs, by simp, by intro ts' h; cases h; exact hvs⟩
  -- fabric
  obtain ⟨fb, hfb, hfb1, hfb2⟩ : ∃ fb, parseFabric repaired p.fabric = .ok fb ∧
      (p.fabric = none → fb = .olivine_A) ∧ (∀ s, p.fabric = some (.str s) → fabricOfLetter s = some fb) := by
    cases hf : p.fabric with
    | none => exact ⟨_, rfl, fun _ => rfl, by simp⟩
    | some t =>
      obtain ⟨s, f, rfl, hs⟩ := hfab t hf
      exact ⟨f, by simp [parseFabric, hs], by simp, by intro s' h; cases h; exact hs⟩
  have hco' : p.coeffLen.getD 7 = 7 := by
    cases hc : p.coeffLen with
    | none => rfl
    | some n => simp [hco n hc]
  have h1 : fracBad sumBad p.fractions = false := by
    cases hf : p.fractions with
    | none => rfl
    | some l => exact hsum l hf
  refine ⟨{ assemblage := phs, fractions := p.fractions, fabric := fb, coeffLen := p.coeffLen,
             passthrough := passOut p.passthrough }, ?_, rfl, rfl, hphs1, hphs2, hfb1, hfb2, ?_⟩
  · simp [parseParams, h1, hlen, hphs, hfb, hco']
  · intro k hk
    simp only [passOut]
    exact lookup_map_key passKeys (fun k => match p.passthrough.lookup k with
      | some r => PVal.given r | none => PVal.default (defaultOf k)) k hk

/-- whatever `_parse_config_params` (repaired) returns satisfies the constraints -/
theorem parseParams_inv {ρ : Type} (attrs : List String) (sumBad : List ρ → Bool) (p : ParamsIn ρ)
    (out : ParamsOut ρ) (h : parseParams repaired attrs sumBad p = .ok out) :
    out.fractions = p.fractions ∧ fracBad sumBad out.fractions = false ∧
    out.assemblage.length = fracLen out.fractions ∧ (∀ v ∈ out.assemblage, ∃ ph, v = .member ph) ∧
    out.fabric ≠ .enstatite_AB ∧ (out.coeffLen = none ∨ out.coeffLen = some 7) := by
  unfold parseParams at h
  split at h
  · cases h
  · rename_i hbad
    split at h
    · cases h
    · rename_i hlen
      split at h
      · cases h
      · rename_i phases hph
        split at h
        · cases h
        · rename_i fabric hfab
          split at h
          · cases h
          · rename_i hco
            simp only [Except.ok.injEq] at h
            subst h
            simp only [ne_eq, Decidable.not_not] at hlen hco
            have hphases : phases.length = assemblageLen p.assemblage ∧ ∀ v ∈ phases, ∃ ph, v = .member ph := by
              cases ha : p.assemblage with
              | none =>
                rw [ha] at hph
                simp only [phasesOf, Except.ok.injEq] at hph
                subst hph
                simp [assemblageLen]
              | some ts =>
                rw [ha] at hph
                obtain ⟨_, hl, hm⟩ := parsePhases_repaired_inv attrs ts phases hph
                exact ⟨by simp [assemblageLen, hl], hm⟩
            refine ⟨rfl, by simpa using hbad, by rw [hphases.1, hlen], hphases.2, ?_, ?_⟩
            · intro hf
              simp only at hf
              subst hf
              cases hfb : p.fabric with
              | none => rw [hfb] at hfab; simp [parseFabric, repaired] at hfab
              | some t =>
                rw [hfb] at hfab
                cases t with
                | str s =>
                  simp only [parseFabric] at hfab
                  cases hs : fabricOfLetter s with
                  | none => rw [hs] at hfab; cases hfab
                  | some f =>
                    rw [hs] at hfab
                    simp only [Except.ok.injEq] at hfab
                    subst hfab
                    unfold fabricOfLetter at hs
                    split at hs <;> cases hs
                | other => simp [parseFabric, repaired] at hfab
            · simp only
              cases hc : p.coeffLen with
              | none => left; rfl
              | some n => right; rw [hc] at hco; simp at hco; rw [hco]

theorem outPhases_err (attrs : List String) (names : List String) (e : Err)
    (h : outPhases attrs names = .error e) : e = .configError := by
  induction names with
  | nil => simp [outPhases] at h
  | cons a rest ih =>
    simp only [outPhases] at h
    cases hg : getattrPhase attrs a with
    | none => rw [hg] at h; cases h; rfl
    | some v =>
      rw [hg] at h
      simp only at h
      cases hr : outPhases attrs rest with
      | error e' => rw [hr] at h; cases h; exact ih hr
      | ok vs => rw [hr] at h; cases h

theorem outPhases_mem (attrs : List String) (names : List String) (vs : List PhaseVal)
    (h : outPhases attrs names = .ok vs) (n : String) (hn : n ∈ names) :
    ∃ v, getattrPhase attrs n = some v ∧ v ∈ vs := by
  induction names generalizing vs with
  | nil => simp at hn
  | cons a rest ih =>
    simp only [outPhases] at h
    cases hg : getattrPhase attrs a with
    | none => rw [hg] at h; cases h
    | some v =>
      rw [hg] at h
      simp only at h
      cases hr : outPhases attrs rest with
      | error e' => rw [hr] at h; cases h
      | ok ws =>
        rw [hr] at h
        simp only [Except.ok.injEq] at h
        subst h
        rcases mem_cons.mp hn with rfl | hn'
        · exact ⟨v, hg, by simp⟩
        · obtain ⟨w, hw1, hw2⟩ := ih ws hr hn'
          exact ⟨w, hw1, by simp [hw2]⟩

/-- an output option naming something that is not a phase of the assemblage is rejected -/
theorem parseOutputOption_reject (q : Quirks) (attrs : List String) (names : List String)
    (assemblage : List PhaseVal) (n : String) (hn : n ∈ names)
    (hnot : ∀ v, getattrPhase attrs n = some v → v ∉ assemblage) :
    parseOutputOption q attrs (some names) assemblage = .error .configError := by
  simp only [parseOutputOption]
  cases hop : outPhases attrs names with
  | error e => simp [outPhases_err attrs names e hop]
  | ok vs =>
    simp only
    obtain ⟨v, hv1, hv2⟩ := outPhases_mem attrs names vs hop n hn
    have hnotin := hnot v hv1
    have : (vs.all fun v => assemblage.contains v) = false := by
      rw [List.all_eq_false]
      exact ⟨v, hv2, by simpa using hnotin⟩
    rw [this]; simp

/-- every error of an output option in the repaired code is ConfigError -/
theorem parseOutputOption_err (attrs : List String) (g : Option (List String))
    (assemblage : List PhaseVal) (e : Err)
    (h : parseOutputOption repaired attrs g assemblage = .error e) : e = .configError := by
  cases g with
  | none => simp [parseOutputOption, repaired] at h
  | some names =>
    simp only [parseOutputOption] at h
    cases hop : outPhases attrs names with
    | error e' =>
      have he := outPhases_err attrs names e' hop
      rw [hop] at h; cases h; exact he
    | ok vs =>
      rw [hop] at h
      simp only at h
      split at h
      · cases h
      · cases h; rfl

theorem phasesOf_err (attrs : List String) (as : Option (List PhaseTok)) (e : Err)
    (he : phasesOf repaired attrs as = .error e) : e = .configError := by
  cases as with
  | none => cases he
  | some ts =>
    simp only [phasesOf] at he
    by_cases hall : ∀ t ∈ ts, ValidTok t
    · obtain ⟨vs, hvs, _⟩ := parsePhases_repaired_ok attrs ts hall
      rw [hvs] at he; cases he
    · have : ∃ t ∈ ts, ¬ ValidTok t := by simpa using hall
      rw [parsePhases_repaired_err attrs ts this] at he
      cases he; rfl

theorem parseFabric_err (f : Option FabTok) (e : Err) (he : parseFabric repaired f = .error e) :
    e = .configError := by
  cases f with
  | none => simp [parseFabric, repaired] at he
  | some t =>
    cases t with
    | str s =>
      simp only [parseFabric] at he
      cases hs : fabricOfLetter s with
      | none => rw [hs] at he; cases he; rfl
      | some f => rw [hs] at he; cases he
    | other => simp [parseFabric, repaired] at he; exact he.symm

/-- every error of the repaired `_parse_config_params` is ConfigError -/
theorem parseParams_err {ρ : Type} (attrs : List String) (sumBad : List ρ → Bool) (p : ParamsIn ρ) (e : Err)
    (h : parseParams repaired attrs sumBad p = .error e) : e = .configError := by
  unfold parseParams at h
  split at h
  · cases h; rfl
  · split at h
    · cases h; rfl
    · cases hpo : phasesOf repaired attrs p.assemblage with
      | error e' =>
        have := phasesOf_err attrs _ e' hpo
        rw [hpo] at h; cases h; exact this
      | ok phases =>
        rw [hpo] at h
        simp only at h
        cases hfo : parseFabric repaired p.fabric with
        | error e' =>
          have := parseFabric_err _ e' hfo
          rw [hfo] at h; cases h; exact this
        | ok fabric =>
          rw [hfo] at h
          simp only at h
          split at h
          · cases h; rfl
          · cases h

theorem numOrDefault_err (d : String) (t : Option NumTok) (e : Err)
    (h : numOrDefault repaired d t = .error e) : e = .configError ∧ t = some .other := by
  cases t with
  | none => cases h
  | some x =>
    cases x with
    | num r => cases h
    | other => simp [numOrDefault, repaired] at h; exact ⟨h.symm, rfl⟩

/-- errors of the repaired `[input]` handling -/
theorem parseInput_err (i : Option InputIn) (e : Err) (h : parseInput repaired i = .error e) :
    e = .configError ∨ (e = .keyError ∧ ∃ x, i = some x ∧
      ((x.mesh = true ∧ x.locationsFinal = false) ∨
       (x.mesh = false ∧ x.velocityGradient = true ∧ x.locationsInitial = false))) := by
  cases i with
  | none => cases h; left; rfl
  | some x =>
    simp only [parseInput] at h
    split at h
    · cases h; left; rfl
    · cases hts : numOrDefault repaired "nan" x.timestep with
      | error e' =>
        have := (numOrDefault_err _ _ e' hts).1
        rw [hts] at h; cases h; left; exact this
      | ok ts =>
        rw [hts] at h
        simp only at h
        cases hsf : numOrDefault repaired "inf" x.strainFinal with
        | error e' =>
          have := (numOrDefault_err _ _ e' hsf).1
          rw [hsf] at h; cases h; left; exact this
        | ok sf =>
          rw [hsf] at h
          simp only [selectMode] at h
          by_cases hm : x.mesh = true
          · by_cases hl : x.locationsFinal = true
            · simp [hm, hl] at h
            · simp [hm, hl] at h
              right; exact ⟨h.symm, x, rfl, Or.inl ⟨hm, by simpa using hl⟩⟩
          · by_cases hv : x.velocityGradient = true
            · by_cases hl : x.locationsInitial = true
              · simp [hm, hv, hl] at h
              · simp [hm, hv, hl] at h
                right
                exact ⟨h.symm, x, rfl, Or.inr ⟨by simpa using hm, hv, by simpa using hl⟩⟩
            · by_cases hp : x.paths = true <;> simp [hm, hv, hp] at h

theorem outPhases_ok (attrs : List String) (names : List String) (A : List PhaseVal)
    (h : ∀ n ∈ names, ∃ v, getattrPhase attrs n = some v ∧ v ∈ A) :
    ∃ vs, outPhases attrs names = .ok vs ∧ ∀ v ∈ vs, v ∈ A := by
  induction names with
  | nil => exact ⟨[], rfl, by simp⟩
  | cons a rest ih =>
    obtain ⟨v, hv, hvA⟩ := h a (by simp)
    obtain ⟨vs, hvs, hvsA⟩ := ih (fun n hn => h n (by simp [hn]))
    refine ⟨v :: vs, by simp [outPhases, hv, hvs], ?_⟩
    intro w hw
    rcases mem_cons.mp hw with rfl | hw
    · exact hvA
    · exact hvsA w hw

theorem parseOutputOption_ok (attrs : List String) (g : Option (List String)) (A : List PhaseVal)
    (h : ∀ names, g = some names → ∀ n ∈ names, ∃ v, getattrPhase attrs n = some v ∧ v ∈ A) :
    ∃ vs, parseOutputOption repaired attrs g A = .ok vs ∧ (g = none → vs = A) := by
  cases g with
  | none => exact ⟨A, by simp [parseOutputOption, repaired], fun _ => rfl⟩
  | some names =>
    obtain ⟨vs, hvs, hA⟩ := outPhases_ok attrs names A (h names rfl)
    refine ⟨vs, ?_, by simp⟩
    have : (vs.all fun v => A.contains v) = true := by
      rw [List.all_eq_true]; intro v hv; simpa using hA v hv
    simp only [parseOutputOption, hvs]
    rw [if_pos this]

/-- the documented required inputs: a numeric time step (or input paths), a numeric final strain
if one is given, and the companion file of the chosen input mode -/
structure RequiredInput (i : InputIn) : Prop where
  ts : i.timestep ≠ some .other
  sf : i.strainFinal ≠ some .other
  some_ts : i.timestep.isSome = true ∨ i.paths = true
  mesh : i.mesh = true → i.locationsFinal = true
  vg : i.mesh = false → i.velocityGradient = true → i.locationsInitial = true

theorem numOrDefault_ok (d : String) (t : Option NumTok) (h : t ≠ some .other) :
    ∃ r, numOrDefault repaired d t = .ok r ∧ (t = none → r = d) ∧ (∀ x, t = some (.num x) → r = x) := by
  cases t with
  | none => exact ⟨d, rfl, fun _ => rfl, by simp⟩
  | some x =>
    cases x with
    | num r => exact ⟨r, rfl, by simp, by intro x hx; cases hx; rfl⟩
    | other => exact absurd rfl h

theorem parseInput_ok (i : InputIn) (h : RequiredInput i) :
    ∃ out, parseInput repaired (some i) = .ok out ∧
      (i.timestep = none → out.timestep = "nan") ∧ (∀ r, i.timestep = some (.num r) → out.timestep = r) ∧
      (i.strainFinal = none → out.strainFinal = "inf") ∧ (∀ r, i.strainFinal = some (.num r) → out.strainFinal = r) ∧
      out.mode = (if i.mesh then .mesh else if i.velocityGradient then .velocityGradient
                  else if i.paths then .paths else .none) := by
  obtain ⟨ts, hts, hts1, hts2⟩ := numOrDefault_ok "nan" i.timestep h.ts
  obtain ⟨sf, hsf, hsf1, hsf2⟩ := numOrDefault_ok "inf" i.strainFinal h.sf
  have h0 : ¬ (i.timestep.isNone = true ∧ i.paths = false) := by
    rintro ⟨h1, h2⟩
    rcases h.some_ts with h3 | h3
    · simp [Option.isNone_iff_eq_none.mp h1] at h3
    · rw [h2] at h3; cases h3
  simp only [parseInput, h0, if_false, hts, hsf, selectMode]
  by_cases hm : i.mesh = true
  · simp only [hm, if_true, h.mesh hm]
    exact ⟨_, rfl, hts1, hts2, hsf1, hsf2, rfl⟩
  · have hm' : i.mesh = false := by simpa using hm
    by_cases hv : i.velocityGradient = true
    · simp only [hm', Bool.false_eq_true, if_false, hv, if_true, h.vg hm' hv]
      exact ⟨_, rfl, hts1, hts2, hsf1, hsf2, rfl⟩
    · have hv' : i.velocityGradient = false := by simpa using hv
      by_cases hp : i.paths = true
      · simp only [hm', hv', Bool.false_eq_true, if_false, hp, if_true]
        exact ⟨_, rfl, hts1, hts2, hsf1, hsf2, rfl⟩
      · have hp' : i.paths = false := by simpa using hp
        simp only [hm', hv', hp', Bool.false_eq_true, if_false]
        exact ⟨_, rfl, hts1, hts2, hsf1, hsf2, rfl⟩

end ModelD.Config
