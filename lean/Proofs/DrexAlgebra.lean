import Proofs.Drex
import Proofs.Linalg3
/-! Matrix-level characterisations of the D-Rex kernels (used by C02 and C04). -/
namespace ModelR

/-- K2: the four slip invariants are entries of `A D Aᵀ` -/
theorem slipInvariants_eq (D A : Mat3) (s : Fin 4) :
    slipInvariants D A s = mmul (mmul A D) (tr A) (slipL s) (slipN s) := by
  simp only [slipInvariants, mmul, tr, sum3]; ring

/-- the matrix of slip-rate weights: entry `(l_s, n_s)` carries `2 r_s` -/
def schmidS (r : Fin 4 → ℝ) : Mat3 := fun i j =>
  match i, j with
  | 0, 1 => 2 * r 0
  | 0, 2 => 2 * r 1
  | 2, 1 => 2 * r 2
  | 2, 0 => 2 * r 3
  | _, _ => 0

/-- K5: the Schmid tensor is `Aᵀ S A` -/
theorem deformationRate_eq (A : Mat3) (r : Fin 4 → ℝ) :
    deformationRate A r = mmul (mmul (tr A) (schmidS r)) A := by
  funext i j
  simp only [deformationRate, mmul, tr, sum3, schmidS]
  ring

/-- K6: numerator of the softest-system slip rate `= ⟨G, L⟩ + ⟨Gᵀ, L⟩ = 2⟨sym G, L⟩` -/
theorem softestEnumer_eq (G L : Mat3) : softestEnumer G L = inner3 G L + inner3 (tr G) L := by
  simp only [softestEnumer, inner3, tr, sum3, nxt]; ring

/-- K6: denominator `= ⟨G, G⟩ + ⟨Gᵀ, G⟩ = 2⟨sym G, sym G⟩` -/
theorem softestDenom_eq (G : Mat3) : softestDenom G = inner3 G G + inner3 (tr G) G := by
  simp only [softestDenom, inner3, tr, sum3, nxt]; ring

theorem softestEnumer_sym (G L : Mat3) : softestEnumer G L = 2 * inner3 (symm G) (symm L) := by
  simp only [softestEnumer, inner3, symm, sum3, nxt]; ring

theorem softestDenom_sym (G : Mat3) : softestDenom G = 2 * inner3 (symm G) (symm G) := by
  simp only [softestDenom, inner3, symm, sum3, nxt]; ring

/-- K7: the spin matrix of the code's spin vector is the transpose of `skew (L − γ₀ G)` -/
theorem spinMat_spinVector (L G : Mat3) (g0 : ℝ) :
    spinMat (spinVector L G g0) = tr (skew (msub L (smul3 g0 G))) := by
  funext s q
  fin_cases s <;> fin_cases q <;>
    simp [spinMat, spinVector, sum3, eps, nxt, nxt2, tr, skew, msub, smul3] <;> ring

/-- K7 in matrix form: `Ȧ = A · skew(L − γ₀ G)ᵀ` -/
theorem orientationChange_matrix (A L G : Mat3) (g0 : ℝ) :
    orientationChange A L G g0 = mmul A (tr (skew (msub L (smul3 g0 G)))) := by
  rw [orientationChange_eq, spinMat_spinVector]

/-! ### change of the external frame -/

theorem slipInvariants_conj (Q D A : Mat3) (hQ : IsOrth Q) :
    slipInvariants (conj Q D) (mmul A (tr Q)) = slipInvariants D A := by
  funext s
  rw [slipInvariants_eq, slipInvariants_eq]
  have : mmul (mmul (mmul A (tr Q)) (conj Q D)) (tr (mmul A (tr Q))) = mmul (mmul A D) (tr A) := by
    unfold conj
    rw [tr_mmul, tr_tr]
    calc mmul (mmul (mmul A (tr Q)) (mmul (mmul Q D) (tr Q))) (mmul Q (tr A))
        = mmul A (mmul (mmul (tr Q) Q) (mmul D (mmul (mmul (tr Q) Q) (tr A)))) := by
          simp only [mmul_assoc]
      _ = mmul (mmul A D) (tr A) := by rw [hQ]; simp only [one_mmul, mmul_assoc]
  rw [this]

theorem deformationRate_conj (Q A : Mat3) (r : Fin 4 → ℝ) :
    deformationRate (mmul A (tr Q)) r = conj Q (deformationRate A r) := by
  rw [deformationRate_eq, deformationRate_eq, tr_mmul, tr_tr]
  unfold conj
  simp only [mmul_assoc]

theorem softestEnumer_conj (Q G L : Mat3) (hQ : IsOrth Q) :
    softestEnumer (conj Q G) (conj Q L) = softestEnumer G L := by
  rw [softestEnumer_eq, softestEnumer_eq, tr_conj, inner3_conj Q _ _ hQ, inner3_conj Q _ _ hQ]

theorem softestDenom_conj (Q G : Mat3) (hQ : IsOrth Q) :
    softestDenom (conj Q G) = softestDenom G := by
  rw [softestDenom_eq, softestDenom_eq, tr_conj, inner3_conj Q _ _ hQ, inner3_conj Q _ _ hQ]

theorem slipRateSoftest_conj (Q G L : Mat3) (hQ : IsOrth Q) :
    slipRateSoftest (conj Q G) (conj Q L) = slipRateSoftest G L := by
  unfold slipRateSoftest
  rw [softestDenom_conj Q G hQ, softestEnumer_conj Q G L hQ]

theorem orientationChange_conj (Q A L G : Mat3) (g0 : ℝ) (hQ : IsOrth Q) :
    orientationChange (mmul A (tr Q)) (conj Q L) (conj Q G) g0
      = mmul (orientationChange A L G g0) (tr Q) := by
  rw [orientationChange_matrix, orientationChange_matrix, ← conj_smul3, ← conj_msub, skew_conj, tr_conj]
  unfold conj
  calc mmul (mmul A (tr Q)) (mmul (mmul Q (tr (skew (msub L (smul3 g0 G))))) (tr Q))
      = mmul A (mmul (mmul (tr Q) Q) (mmul (tr (skew (msub L (smul3 g0 G)))) (tr Q))) := by
        simp only [mmul_assoc]
    _ = mmul (mmul A (tr (skew (msub L (smul3 g0 G))))) (tr Q) := by
        rw [hQ, one_mmul]; simp only [mmul_assoc]

theorem rotationFromRates_conj (Q : Mat3) (hQ : IsOrth Q) (crss : Crss) (A L : Mat3)
    (r : Fin 4 → ℝ) (p n lam : ℝ) :
    rotationFromRates crss (mmul A (tr Q)) (conj Q L) r p n lam
      = (mmul (rotationFromRates crss A L r p n lam).1 (tr Q), (rotationFromRates crss A L r p n lam).2) := by
  simp only [rotationFromRates, vec4memo_eq, Mat3.memo_eq, deformationRate_conj,
    slipRateSoftest_conj Q _ _ hQ, orientationChange_conj Q _ _ _ _ hQ]

/-- **the per-grain kernel is frame indifferent** -/
theorem rotationAndStrainCore_conj (Q : Mat3) (hQ : IsOrth Q) (phase : Int) (crss : Crss)
    (A D L : Mat3) (p n lam : ℝ) :
    rotationAndStrainCore phase crss (mmul A (tr Q)) (conj Q D) (conj Q L) p n lam
      = (mmul (rotationAndStrainCore phase crss A D L p n lam).1 (tr Q),
         (rotationAndStrainCore phase crss A D L p n lam).2) := by
  have hc0 : conj Q zero3 = zero3 := by
    funext i j; simp [conj, mmul, zero3, sum3]
  have hz : noSlipRotation (mmul A (tr Q)) (conj Q L) = mmul (noSlipRotation A L) (tr Q) := by
    have := orientationChange_conj Q A L zero3 0 hQ
    rw [hc0] at this
    simpa only [noSlipRotation, Mat3.memo_eq] using this
  unfold rotationAndStrainCore
  simp only [vec4memo_eq, perm4memo_eq, slipInvariants_conj Q D A hQ]
  split_ifs
  · simp only [hz]
  · simp only [hz]
  · exact rotationFromRates_conj Q hQ crss A L _ p n lam
  · exact rotationFromRates_conj Q hQ crss A L _ p n lam

end ModelR
