import ModelR.TensorsAvg
import Proofs.Tensors
import Mathlib.Algebra.BigOperators.Group.List.Basic
/-! Helper lemmas for `minerals.voigt_averages` (C10). -/
set_option linter.unusedSimpArgs false
set_option linter.unusedTactic false
set_option linter.unreachableTactic false
set_option linter.unusedVariables false
namespace ModelR.Tensors

theorem grainTerm_eq (T : Ten4) (A : Mat3) (f phi : ℝ) :
    grainTerm T A f phi = fun i j => tensorToVoigt (rotate T (tr A)) i j * f * phi := by
  simp only [grainTerm, grainTermA, ofA4_memoA4, ofA6_memoA6]

@[simp] theorem ofA6_grainTermA (T : Ten4) (A : Mat3) (f phi : ℝ) :
    ofA6 (grainTermA T A f phi) = grainTerm T A f phi := rfl

/-! ### sums of 6x6 matrices -/
theorem add6_comm (a b : Mat6) : add6 a b = add6 b a := by funext i j; simp [add6, add_comm]
theorem add6_assoc (a b c : Mat6) : add6 (add6 a b) c = add6 a (add6 b c) := by
  funext i j; simp [add6, add_assoc]
theorem zero_add6 (a : Mat6) : add6 zero6 a = a := by funext i j; simp [add6, zero6]
theorem add6_zero (a : Mat6) : add6 a zero6 = a := by funext i j; simp [add6, zero6]

theorem foldl_add6 (l : List Mat6) (a : Mat6) : l.foldl add6 a = add6 a (l.foldl add6 zero6) := by
  induction l generalizing a with
  | nil => simp [add6_zero]
  | cons x xs ih => simp only [List.foldl_cons]; rw [ih, ih (add6 zero6 x), zero_add6, add6_assoc]

theorem sum6_nil : sum6 [] = zero6 := rfl
theorem sum6_cons (a : Mat6) (l : List Mat6) : sum6 (a :: l) = add6 a (sum6 l) := by
  simp only [sum6, List.foldl_cons]; rw [foldl_add6, zero_add6]
theorem sum6_append (l₁ l₂ : List Mat6) : sum6 (l₁ ++ l₂) = add6 (sum6 l₁) (sum6 l₂) := by
  induction l₁ with
  | nil => simp [sum6_nil, zero_add6]
  | cons a l ih => simp only [List.cons_append, sum6_cons, ih, add6_assoc]

theorem sum6_apply (l : List Mat6) (i j : Fin 6) : sum6 l i j = (l.map fun M => M i j).sum := by
  induction l with
  | nil => simp [sum6_nil, zero6]
  | cons a l ih => simp [sum6_cons, add6, ih]

theorem sum6_perm {l₁ l₂ : List Mat6} (h : l₁.Perm l₂) : sum6 l₁ = sum6 l₂ := by
  funext i j; rw [sum6_apply, sum6_apply]; exact (h.map _).sum_eq

/-- an additive functional commutes with `sum6` -/
theorem map_sum6 (φ : Mat6 → ℝ) (h0 : φ zero6 = 0) (hadd : ∀ a b, φ (add6 a b) = φ a + φ b)
    (l : List Mat6) : φ (sum6 l) = (l.map φ).sum := by
  induction l with
  | nil => simp [sum6_nil, h0]
  | cons a l ih => simp [sum6_cons, hadd, ih]

/-- an additive operator commutes with `sum6` -/
theorem op_sum6 (Φ : Mat6 → Mat6) (h0 : Φ zero6 = zero6) (hadd : ∀ a b, Φ (add6 a b) = add6 (Φ a) (Φ b))
    (l : List Mat6) : Φ (sum6 l) = sum6 (l.map Φ) := by
  induction l with
  | nil => simp [sum6_nil, h0]
  | cons a l ih => simp [sum6_cons, hadd, ih]

theorem sum6_symm (l : List Mat6) (h : ∀ M ∈ l, IsSymm6 M) : IsSymm6 (sum6 l) := by
  intro i j; rw [sum6_apply, sum6_apply]
  congr 1; apply List.map_congr_left; intro M hM; exact h M hM i j

/-! ### the pure description of the average -/
/-- one mineral at one snapshot: single-crystal tensor, phase fraction, grains `(A, f)` -/
structure PhaseTex where
  T : Ten4
  phi : ℝ
  grains : List (Mat3 × ℝ)

noncomputable def phaseTerms (p : PhaseTex) : List Mat6 := p.grains.map fun g => grainTerm p.T g.1 g.2 p.phi

/-- `Σ_m Σ_g  Voigt(rotate(T_m, A_gᵀ)) · f_g · φ_m`, in loop order -/
noncomputable def voigtSum (ps : List PhaseTex) : Mat6 := sum6 (ps.flatMap phaseTerms)

theorem grainTerm_symm (T : Ten4) (A : Mat3) (f phi : ℝ) : IsSymm6 (grainTerm T A f phi) := by
  intro i j; simp only [grainTerm_eq, tensorToVoigt]; ring

theorem voigtSum_symm (ps : List PhaseTex) : IsSymm6 (voigtSum ps) := by
  apply sum6_symm; intro M hM
  simp only [List.mem_flatMap, phaseTerms, List.mem_map] at hM
  obtain ⟨p, _, g, _, rfl⟩ := hM
  exact grainTerm_symm _ _ _ _

theorem voigtSum_perm {ps ps' : List PhaseTex} (h : ps.Perm ps') : voigtSum ps = voigtSum ps' :=
  sum6_perm (h.flatMap_right _)


/-! ### Voigt bulk and shear moduli as `elasticity_components` computes them -/
/-- `K = trace(stiffness_dilat) / 9` -/
noncomputable def bulkOf (M : Mat6) : ℝ := trace3 (voigtDilat M) / 9
/-- `G = (trace(stiffness_deviat) - 3 K) / 10` -/
noncomputable def shearOf (M : Mat6) : ℝ := (trace3 (voigtDeviat M) - 3 * bulkOf M) / 10

/-- the two full contractions `C_iijj`, `C_ijij` of a 4th-order tensor -/
noncomputable def iijj (T : Ten4) : ℝ := trace3 (dilat4 T)
noncomputable def ijij (T : Ten4) : ℝ := trace3 (deviat4 T)

theorem trDilat_add (a b : Mat6) : trace3 (voigtDilat (add6 a b)) = trace3 (voigtDilat a) + trace3 (voigtDilat b) := by
  simp [trace3, voigtDilat, col3sum, add6]; ring
theorem trDeviat_add (a b : Mat6) : trace3 (voigtDeviat (add6 a b)) = trace3 (voigtDeviat a) + trace3 (voigtDeviat b) := by
  simp [trace3, voigtDeviat, upperTri_apply, voigtDeviatUpper, add6]; ring
theorem trDilat_zero : trace3 (voigtDilat zero6) = 0 := by simp [trace3, voigtDilat, col3sum, zero6]
theorem trDeviat_zero : trace3 (voigtDeviat zero6) = 0 := by
  simp [trace3, voigtDeviat, upperTri_apply, voigtDeviatUpper, zero6]

/-- both traces of a grain term, for an elastic single-crystal tensor and an orthogonal orientation -/
theorem trDilat_grainTerm (T : Ten4) (hT : IsElastic T) (A : Mat3) (hA : IsOrtho (tr A)) (f phi : ℝ) :
    trace3 (voigtDilat (grainTerm T A f phi)) = f * phi * iijj T := by
  have hel := rotate_elastic T hT (tr A)
  have e : trace3 (voigtDilat (grainTerm T A f phi)) = trace3 (voigtDilat (tensorToVoigt (rotate T (tr A)))) * f * phi := by
    simp [trace3, voigtDilat, col3sum, grainTerm_eq]; ring
  have hs : IsSymm6 (tensorToVoigt (rotate T (tr A))) := by intro i j; simp only [tensorToVoigt]; ring
  rw [e, voigtDilat_eq _ hs, tensor_roundtrip _ hel, dilat4_rotate hA, trace3_conj hA, iijj]; ring

theorem trDeviat_grainTerm (T : Ten4) (hT : IsElastic T) (A : Mat3) (hA : IsOrtho (tr A)) (f phi : ℝ) :
    trace3 (voigtDeviat (grainTerm T A f phi)) = f * phi * ijij T := by
  have hel := rotate_elastic T hT (tr A)
  have e : trace3 (voigtDeviat (grainTerm T A f phi)) = trace3 (voigtDeviat (tensorToVoigt (rotate T (tr A)))) * f * phi := by
    simp [trace3, voigtDeviat, upperTri_apply, voigtDeviatUpper, grainTerm_eq]; ring
  have hs : IsSymm6 (tensorToVoigt (rotate T (tr A))) := by intro i j; simp only [tensorToVoigt]; ring
  rw [e, voigtDeviat_eq _ hs, tensor_roundtrip _ hel, deviat4_rotate hA, trace3_conj hA, ijij]; ring

/-- orientations orthogonal and single-crystal tensors elastic -/
def GoodTex (p : PhaseTex) : Prop := IsElastic p.T ∧ ∀ g ∈ p.grains, IsOrtho (tr g.1)

theorem sum_map_mul_const (l : List (Mat3 × ℝ)) (c : ℝ) :
    (l.map fun g => g.2 * c).sum = (l.map fun g => g.2).sum * c := by
  induction l with
  | nil => simp
  | cons a l ih => simp [ih]; ring

theorem trDilat_voigtSum (ps : List PhaseTex) (h : ∀ p ∈ ps, GoodTex p) :
    trace3 (voigtDilat (voigtSum ps)) = (ps.map fun p => (p.grains.map fun g => g.2).sum * (p.phi * iijj p.T)).sum := by
  rw [voigtSum, map_sum6 (fun M => trace3 (voigtDilat M)) trDilat_zero trDilat_add]
  induction ps with
  | nil => simp
  | cons p ps ih =>
    simp only [List.flatMap_cons, List.map_append, List.sum_append, List.map_cons, List.sum_cons]
    rw [ih (fun q hq => h q (List.mem_cons_of_mem _ hq))]
    congr 1
    have hp := h p (List.mem_cons_self)
    rw [← sum_map_mul_const]
    simp only [phaseTerms, List.map_map]
    congr 1; apply List.map_congr_left; intro g hg
    simp only [Function.comp]
    rw [trDilat_grainTerm p.T hp.1 g.1 (hp.2 g hg)]; ring

theorem trDeviat_voigtSum (ps : List PhaseTex) (h : ∀ p ∈ ps, GoodTex p) :
    trace3 (voigtDeviat (voigtSum ps)) = (ps.map fun p => (p.grains.map fun g => g.2).sum * (p.phi * ijij p.T)).sum := by
  rw [voigtSum, map_sum6 (fun M => trace3 (voigtDeviat M)) trDeviat_zero trDeviat_add]
  induction ps with
  | nil => simp
  | cons p ps ih =>
    simp only [List.flatMap_cons, List.map_append, List.sum_append, List.map_cons, List.sum_cons]
    rw [ih (fun q hq => h q (List.mem_cons_of_mem _ hq))]
    congr 1
    have hp := h p (List.mem_cons_self)
    rw [← sum_map_mul_const]
    simp only [phaseTerms, List.map_map]
    congr 1; apply List.map_congr_left; intro g hg
    simp only [Function.comp]
    rw [trDeviat_grainTerm p.T hp.1 g.1 (hp.2 g hg)]; ring



/-! ### rotating a Voigt matrix: `M ↦ Voigt(rotate(tensor(M), Q))` is linear -/
noncomputable def rot6 (Q : Mat3) (M : Mat6) : Mat6 := tensorToVoigt (rotate (voigtToTensor M) Q)

theorem rotate_add (S T : Ten4) (Q : Mat3) :
    rotate (fun a b c d => S a b c d + T a b c d) Q = fun i j k l => rotate S Q i j k l + rotate T Q i j k l := by
  funext i j k l; simp only [rotate, sum81, sum3]; ring
theorem rotate_smul (c : ℝ) (T : Ten4) (Q : Mat3) :
    rotate (fun a b c' d => T a b c' d * c) Q = fun i j k l => rotate T Q i j k l * c := by
  funext i j k l; simp only [rotate, sum81, sum3]; ring
theorem rotate_zero (Q : Mat3) : rotate (fun _ _ _ _ => 0) Q = fun _ _ _ _ => 0 := by
  funext i j k l; simp [rotate, sum81, sum3]

set_option maxHeartbeats 400000 in
theorem tensorToVoigt_add (S T : Ten4) :
    tensorToVoigt (fun a b c d => S a b c d + T a b c d) = add6 (tensorToVoigt S) (tensorToVoigt T) := by
  funext i j
  fin_cases i <;> fin_cases j <;> simp [tensorToVoigt, accum, accumCount, sum81, sum3, add6] <;> ring
set_option maxHeartbeats 400000 in
theorem tensorToVoigt_smul (c : ℝ) (T : Ten4) :
    tensorToVoigt (fun a b c' d => T a b c' d * c) = fun i j => tensorToVoigt T i j * c := by
  funext i j
  fin_cases i <;> fin_cases j <;> simp [tensorToVoigt, accum, accumCount, sum81, sum3] <;> ring
theorem tensorToVoigt_zero : tensorToVoigt (fun _ _ _ _ => 0) = zero6 := by
  funext i j; simp [tensorToVoigt, accum, sum81, sum3, zero6]

theorem rot6_add (Q : Mat3) (a b : Mat6) : rot6 Q (add6 a b) = add6 (rot6 Q a) (rot6 Q b) := by
  have : voigtToTensor (add6 a b) = fun p q r s => voigtToTensor a p q r s + voigtToTensor b p q r s := rfl
  rw [rot6, this, rotate_add, tensorToVoigt_add]; rfl
theorem rot6_zero (Q : Mat3) : rot6 Q zero6 = zero6 := by
  have : voigtToTensor zero6 = fun _ _ _ _ => 0 := rfl
  rw [rot6, this, rotate_zero, tensorToVoigt_zero]

/-- a grain term seen from a frame rotated by `Q` (orientation `A Qᵀ`) is the rotated grain term -/
theorem rot6_grainTerm (Q : Mat3) (T : Ten4) (hT : IsElastic T) (A : Mat3) (f phi : ℝ) :
    rot6 Q (grainTerm T A f phi) = grainTerm T (mmul A (tr Q)) f phi := by
  have hel := rotate_elastic T hT (tr A)
  have e : voigtToTensor (grainTerm T A f phi)
      = fun a b c d => voigtToTensor (tensorToVoigt (rotate T (tr A))) a b c d * (f * phi) := by
    funext a b c d; simp only [voigtToTensor, grainTerm_eq]; ring
  rw [rot6, e, tensor_roundtrip _ hel, rotate_smul, rotate_comp, tensorToVoigt_smul]
  funext i j
  simp only [grainTerm_eq, tr_mmul, tr_tr]; ring

/-- **co-rotation** of the pure sum -/
theorem voigtSum_corotate (Q : Mat3) (ps : List PhaseTex) (h : ∀ p ∈ ps, IsElastic p.T) :
    voigtSum (ps.map fun p => ⟨p.T, p.phi, p.grains.map fun g => (mmul g.1 (tr Q), g.2)⟩)
      = rot6 Q (voigtSum ps) := by
  rw [voigtSum, voigtSum, op_sum6 (rot6 Q) (rot6_zero Q) (rot6_add Q)]
  congr 1
  induction ps with
  | nil => rfl
  | cons p ps ih =>
    simp only [List.map_cons, List.flatMap_cons, List.map_append]
    rw [ih (fun q hq => h q (List.mem_cons_of_mem _ hq))]
    congr 1
    simp only [phaseTerms, List.map_map]
    apply List.map_congr_left; intro g _
    simp only [Function.comp]
    rw [rot6_grainTerm Q p.T (h p List.mem_cons_self)]

/-- **one aligned grain returns the single-crystal matrix** -/
theorem voigtSum_single (S : Mat6) (hS : IsSymm6 S) :
    voigtSum [⟨voigtToTensor S, 1, [(one3, 1)]⟩] = S := by
  simp only [voigtSum, List.flatMap_cons, List.flatMap_nil, List.append_nil, phaseTerms, List.map_cons,
    List.map_nil, sum6_cons, sum6_nil, add6_zero]
  funext i j
  simp only [grainTerm_eq, tr_one, rotate_one, voigt_roundtrip S hS]; ring



/-! ### bridge: the loops of `voigt_averages` compute `voigtSum` -/
theorem grainTerms_ok (T : Ten4) (phi : ℝ) : ∀ (n : ℕ) (As : List Mat3) (fs : List ℝ),
    n ≤ As.length → n ≤ fs.length →
    grainTerms T phi n As fs = .ok (((As.zip fs).take n).map fun g => grainTerm T g.1 g.2 phi) := by
  intro n
  induction n with
  | zero => intro As fs _ _; simp [grainTerms]
  | succ n ih =>
    intro As fs hA hf
    cases As with
    | nil => simp at hA
    | cons A As =>
      cases fs with
      | nil => simp at hf
      | cons f fs =>
        simp only [List.length_cons, Nat.add_le_add_iff_right] at hA hf
        simp [grainTerms, ih As fs hA hf]

/-- a stale `n_grains` larger than the stored arrays is an `IndexError` -/
theorem grainTerms_short (T : Ten4) (phi : ℝ) : ∀ (n : ℕ) (As : List Mat3) (fs : List ℝ),
    (As.length < n ∨ fs.length < n) → grainTerms T phi n As fs = .error .indexError := by
  intro n
  induction n with
  | zero => intro As fs h; simp at h
  | succ n ih =>
    intro As fs h
    cases As with
    | nil => simp [grainTerms]
    | cons A As =>
      cases fs with
      | nil => simp [grainTerms]
      | cons f fs =>
        have h' : As.length < n ∨ fs.length < n := by
          rcases h with h | h <;> [left; right] <;> simpa using h
        simp [grainTerms, ih As fs h']

/-- the data of mineral `m` at snapshot `i` that the average uses -/
noncomputable def texOf (tensors : List Ten4) (assemblage : List ℕ) (phis : List ℝ) (n i : ℕ) (m : MineralM) : PhaseTex :=
  ⟨tensors.getD m.phase (fun _ _ _ _ => 0), phis.getD (assemblage.idxOf m.phase) 0,
    ((m.orientations.getD i []).zip (m.fractions.getD i [])).take n⟩

theorem mineralTerms_ok (tensors : List Ten4) (assemblage : List ℕ) (phis : List ℝ) (phase n : ℕ)
    (As : List Mat3) (fs : List ℝ) (hT : phase < tensors.length) (hA : phase ∈ assemblage)
    (hP : assemblage.idxOf phase < phis.length) (h1 : n ≤ As.length) (h2 : n ≤ fs.length) :
    mineralTerms tensors assemblage phis phase n As fs
      = .ok (((As.zip fs).take n).map fun g =>
          grainTerm (tensors.getD phase (fun _ _ _ _ => 0)) g.1 g.2 (phis.getD (assemblage.idxOf phase) 0)) := by
  cases n with
  | zero => simp [mineralTerms]
  | succ n =>
    cases As with
    | nil => simp at h1
    | cons A As =>
      cases fs with
      | nil => simp at h2
      | cons f fs =>
        have hc : assemblage.contains phase = true := by simpa using hA
        simp only [mineralTerms, List.getElem?_eq_getElem hT, optTo, indexOf, hc, if_true,
          List.getElem?_eq_getElem hP]
        rw [grainTerms_ok _ _ _ _ _ h1 h2]
        simp [List.getD_eq_getElem?_getD, List.getElem?_eq_getElem hT, List.getElem?_eq_getElem hP]

/-- what must hold of mineral `m` at snapshot `i` for the loop body not to raise -/
structure RowOk (tensors : List Ten4) (assemblage : List ℕ) (phis : List ℝ) (n i : ℕ) (m : MineralM) : Prop where
  phaseT : m.phase < tensors.length
  phaseA : m.phase ∈ assemblage
  phaseP : assemblage.idxOf m.phase < phis.length
  rowsA : n ≤ (m.orientations.getD i []).length
  rowsF : n ≤ (m.fractions.getD i []).length

theorem snapshotTerms_ok (tensors : List Ten4) (assemblage : List ℕ) (phis : List ℝ) (n i : ℕ) :
    ∀ ms : List MineralM, (∀ m ∈ ms, RowOk tensors assemblage phis n i m) →
    snapshotTerms (mineralTerms tensors assemblage phis) n i ms
      = .ok (ms.flatMap fun m => phaseTerms (texOf tensors assemblage phis n i m)) := by
  intro ms
  induction ms with
  | nil => intro _; simp [snapshotTerms]
  | cons m ms ih =>
    intro h
    have hm := h m List.mem_cons_self
    simp only [snapshotTerms, mineralTerms_ok tensors assemblage phis m.phase n _ _ hm.phaseT hm.phaseA
      hm.phaseP hm.rowsA hm.rowsF, ih (fun q hq => h q (List.mem_cons_of_mem _ hq))]
    simp [phaseTerms, texOf]

theorem voigtSum_map (f : MineralM → PhaseTex) (ms : List MineralM) :
    voigtSum (ms.map f) = sum6 (ms.flatMap fun m => phaseTerms (f m)) := by
  simp [voigtSum, List.flatMap_map]

theorem snapshotsFrom_ok (tensors : List Ten4) (assemblage : List ℕ) (phis : List ℝ) (n : ℕ) (ms : List MineralM) :
    ∀ (k i : ℕ), (∀ j, i ≤ j → j < i + k → ∀ m ∈ ms, RowOk tensors assemblage phis n j m) →
    snapshotsFrom (mineralTerms tensors assemblage phis) n ms i k
      = .ok ((List.range' i k).map fun j => voigtSum (ms.map (texOf tensors assemblage phis n j))) := by
  intro k
  induction k with
  | zero => intro i _; simp [snapshotsFrom]
  | succ k ih =>
    intro i h
    have h0 := h i (le_refl _) (by omega)
    have hrest := ih (i + 1) (fun j hj1 hj2 => h j (by omega) (by omega))
    simp only [snapshotsFrom, snapshotTerms_ok tensors assemblage phis n i ms h0, hrest]
    simp [List.range'_succ, voigtSum_map]

/-- well-formed input of `voigt_averages`: `n` grains and `steps` snapshots in every mineral, phases
listed, rows present -/
structure WellFormed (minerals : List MineralM) (assemblage : List ℕ) (phis : List ℝ)
    (stiffness : List Mat6) (n steps : ℕ) : Prop where
  nonempty : minerals ≠ []
  grains : ∀ m ∈ minerals, m.nGrains = n
  osteps : ∀ m ∈ minerals, m.orientations.length = steps
  fsteps : ∀ m ∈ minerals, m.fractions.length = steps
  rows : ∀ m ∈ minerals, ∀ i < steps, RowOk (stiffness.map voigtToTensor) assemblage phis n i m

theorem voigtAverages_ok {minerals : List MineralM} {assemblage : List ℕ} {phis : List ℝ}
    {stiffness : List Mat6} {n steps : ℕ} (h : WellFormed minerals assemblage phis stiffness n steps) :
    voigtAverages minerals assemblage phis stiffness
      = .ok ((List.range steps).map fun i =>
          voigtSum (minerals.map (texOf (stiffness.map voigtToTensor) assemblage phis n i))) := by
  cases minerals with
  | nil => exact absurd rfl h.nonempty
  | cons m0 rest =>
    have hn0 := h.grains m0 List.mem_cons_self
    have hs0 := h.osteps m0 List.mem_cons_self
    have g1 : (rest.all fun m => m.nGrains == m0.nGrains) = true := by
      rw [List.all_eq_true]; intro m hm
      simp [h.grains m (List.mem_cons_of_mem _ hm), hn0]
    have g2 : (rest.all fun m => m.orientations.length == m0.orientations.length) = true := by
      rw [List.all_eq_true]; intro m hm
      simp [h.osteps m (List.mem_cons_of_mem _ hm), hs0]
    have g3 : ((m0 :: rest).all fun m => m.fractions.length == m0.orientations.length) = true := by
      rw [List.all_eq_true]; intro m hm
      simp [h.fsteps m hm, hs0]
    simp only [voigtAverages, voigtAveragesWith, g1, g2, g3, Bool.not_true, Bool.false_eq_true, if_false]
    rw [hn0, hs0, snapshotsFrom_ok _ _ _ _ _ steps 0 (fun j _ hj m hm => h.rows m hm j (by omega))]
    simp [List.range_eq_range']



/-! ### every matrix that `voigt_averages` can return is symmetric (no well-formedness needed) -/
theorem grainTerms_symm (T : Ten4) (phi : ℝ) : ∀ (n : ℕ) (As : List Mat3) (fs : List ℝ) (l : List Mat6),
    grainTerms T phi n As fs = .ok l → ∀ M ∈ l, IsSymm6 M := by
  intro n
  induction n with
  | zero => intro As fs l h; simp [grainTerms] at h; subst h; simp
  | succ n ih =>
    intro As fs l h
    cases As with
    | nil => simp [grainTerms] at h
    | cons A As =>
      cases fs with
      | nil => simp [grainTerms] at h
      | cons f fs =>
        simp only [grainTerms] at h
        split at h
        · rename_i rest hrest
          injection h with h; subst h
          intro M hM
          rcases List.mem_cons.mp hM with rfl | hM
          · exact grainTerm_symm _ _ _ _
          · exact ih As fs rest hrest M hM
        · simp at h

theorem mineralTerms_symm (tensors : List Ten4) (assemblage : List ℕ) (phis : List ℝ) (phase n : ℕ)
    (As : List Mat3) (fs : List ℝ) (l : List Mat6)
    (h : mineralTerms tensors assemblage phis phase n As fs = .ok l) : ∀ M ∈ l, IsSymm6 M := by
  unfold mineralTerms at h
  split at h
  · injection h with h; subst h; simp
  · split at h
    · simp at h
    · split at h
      · split at h
        · simp at h
        · split at h
          · simp at h
          · exact grainTerms_symm _ _ _ _ _ _ h
      · simp at h

theorem mineralTermsOld_symm (tensors : List Ten4) (assemblage : List ℕ) (phis : List ℝ) (phase n : ℕ)
    (As : List Mat3) (fs : List ℝ) (l : List Mat6)
    (h : mineralTermsOld tensors assemblage phis phase n As fs = .ok l) : ∀ M ∈ l, IsSymm6 M := by
  unfold mineralTermsOld at h
  split at h
  · injection h with h; subst h; simp
  · split at h
    · simp at h
    · split at h
      · simp at h
      · split at h
        · split at h
          · simp at h
          · exact grainTerms_symm _ _ _ _ _ _ h
        · simp at h

theorem snapshotTerms_symm (mt : ℕ → ℕ → List Mat3 → List ℝ → Except Err (List Mat6))
    (hmt : ∀ p n As fs l, mt p n As fs = .ok l → ∀ M ∈ l, IsSymm6 M) (n i : ℕ) :
    ∀ (ms : List MineralM) (l : List Mat6), snapshotTerms mt n i ms = .ok l → ∀ M ∈ l, IsSymm6 M := by
  intro ms
  induction ms with
  | nil => intro l h; simp [snapshotTerms] at h; subst h; simp
  | cons m ms ih =>
    intro l h
    simp only [snapshotTerms] at h
    split at h
    · simp at h
    · rename_i a ha
      split at h
      · simp at h
      · rename_i b hb
        injection h with h; subst h
        intro M hM
        rcases List.mem_append.mp hM with hM | hM
        · exact hmt _ _ _ _ _ ha M hM
        · exact ih b hb M hM

theorem snapshotsFrom_symm (mt : ℕ → ℕ → List Mat3 → List ℝ → Except Err (List Mat6))
    (hmt : ∀ p n As fs l, mt p n As fs = .ok l → ∀ M ∈ l, IsSymm6 M) (n : ℕ) (ms : List MineralM) :
    ∀ (k i : ℕ) (L : List Mat6), snapshotsFrom mt n ms i k = .ok L → ∀ M ∈ L, IsSymm6 M := by
  intro k
  induction k with
  | zero => intro i L h; simp [snapshotsFrom] at h; subst h; simp
  | succ k ih =>
    intro i L h
    simp only [snapshotsFrom] at h
    split at h
    · simp at h
    · rename_i t ht
      split at h
      · simp at h
      · rename_i r hr
        injection h with h; subst h
        intro M hM
        rcases List.mem_cons.mp hM with rfl | hM
        · exact sum6_symm t (snapshotTerms_symm mt hmt n i ms t ht)
        · exact ih (i + 1) r hr M hM

theorem voigtAveragesWith_symm (mt : ℕ → ℕ → List Mat3 → List ℝ → Except Err (List Mat6))
    (hmt : ∀ p n As fs l, mt p n As fs = .ok l → ∀ M ∈ l, IsSymm6 M) (minerals : List MineralM)
    (L : List Mat6) (h : voigtAveragesWith mt minerals = .ok L) : ∀ M ∈ L, IsSymm6 M := by
  unfold voigtAveragesWith at h
  split at h
  · simp at h
  · split_ifs at h
    exact snapshotsFrom_symm mt hmt _ _ _ _ L h

/-! ### rejection of mismatched minerals -/
theorem reject_grain_count (mt) (m0 : MineralM) (rest : List MineralM)
    (h : ∃ m ∈ rest, m.nGrains ≠ m0.nGrains) : voigtAveragesWith mt (m0 :: rest) = .error .valueError := by
  obtain ⟨m, hm, hne⟩ := h
  have : (rest.all fun m => m.nGrains == m0.nGrains) = false := by
    rw [List.all_eq_false]; exact ⟨m, hm, by simpa using hne⟩
  simp [voigtAveragesWith, this]

theorem reject_snapshot_count (mt) (m0 : MineralM) (rest : List MineralM)
    (h : ∃ m ∈ rest, m.orientations.length ≠ m0.orientations.length) :
    voigtAveragesWith mt (m0 :: rest) = .error .valueError := by
  obtain ⟨m, hm, hne⟩ := h
  have : (rest.all fun m => m.orientations.length == m0.orientations.length) = false := by
    rw [List.all_eq_false]; exact ⟨m, hm, by simpa using hne⟩
  simp only [voigtAveragesWith, this]
  split_ifs <;> first | rfl | (exfalso; simp_all)

theorem reject_fraction_count (mt) (m0 : MineralM) (rest : List MineralM)
    (h : ∃ m ∈ m0 :: rest, m.fractions.length ≠ m0.orientations.length) :
    voigtAveragesWith mt (m0 :: rest) = .error .valueError := by
  obtain ⟨m, hm, hne⟩ := h
  have : ((m0 :: rest).all fun m => m.fractions.length == m0.orientations.length) = false := by
    rw [List.all_eq_false]; exact ⟨m, hm, by simpa using hne⟩
  simp only [voigtAveragesWith, this]
  split_ifs <;> first | rfl | (exfalso; simp_all)

theorem reject_empty (mt) : voigtAveragesWith mt [] = .error .indexError := rfl

/-! ### order of the phase list -/
theorem mineralTerms_swap (tensors : List Ten4) (a b : ℕ) (hab : a ≠ b) (x y : ℝ) :
    mineralTerms tensors [a, b] [x, y] = mineralTerms tensors [b, a] [y, x] := by
  funext phase n As fs
  unfold mineralTerms
  by_cases h1 : phase = a
  · subst h1
    simp [indexOf, optTo, List.idxOf_cons, hab, Ne.symm hab]
  · by_cases h2 : phase = b
    · subst h2
      simp [indexOf, optTo, List.idxOf_cons, hab, Ne.symm hab]
    · have h1' : ¬ a = phase := fun h => h1 h.symm
      have h2' : ¬ b = phase := fun h => h2 h.symm
      simp [indexOf, optTo, h1, h2, h1', h2']



/-! ### the texture expressed in a frame rotated by `Q`: every orientation `A` becomes `A Qᵀ` -/
noncomputable def rotMineral (Q : Mat3) (m : MineralM) : MineralM :=
  { m with orientations := m.orientations.map fun snap => snap.map fun A => mmul A (tr Q) }

theorem getD_map_nil {α β : Type} (f : α → β) (l : List (List α)) (i : ℕ) :
    (l.map fun s => s.map f).getD i [] = (l.getD i []).map f := by
  by_cases h : i < l.length
  · simp [List.getD_eq_getElem?_getD, h]
  · simp [List.getD_eq_getElem?_getD, h]

theorem texOf_rotMineral (Q : Mat3) (tensors : List Ten4) (assemblage : List ℕ) (phis : List ℝ) (n i : ℕ)
    (m : MineralM) :
    texOf tensors assemblage phis n i (rotMineral Q m)
      = ⟨(texOf tensors assemblage phis n i m).T, (texOf tensors assemblage phis n i m).phi,
          (texOf tensors assemblage phis n i m).grains.map fun g => (mmul g.1 (tr Q), g.2)⟩ := by
  simp only [texOf, rotMineral, getD_map_nil]
  congr 1
  rw [List.zip_map_left, List.map_take]
  congr 1

theorem rowOk_rotMineral (Q : Mat3) {tensors : List Ten4} {assemblage : List ℕ} {phis : List ℝ} {n i : ℕ}
    {m : MineralM} (h : RowOk tensors assemblage phis n i m) :
    RowOk tensors assemblage phis n i (rotMineral Q m) where
  phaseT := h.phaseT
  phaseA := h.phaseA
  phaseP := h.phaseP
  rowsA := by
    have := h.rowsA
    simp only [rotMineral]
    rw [getD_map_nil, List.length_map]; exact this
  rowsF := h.rowsF

theorem wellFormed_rotMineral (Q : Mat3) {minerals : List MineralM} {assemblage : List ℕ} {phis : List ℝ}
    {stiffness : List Mat6} {n steps : ℕ} (h : WellFormed minerals assemblage phis stiffness n steps) :
    WellFormed (minerals.map (rotMineral Q)) assemblage phis stiffness n steps where
  nonempty := by simpa using h.nonempty
  grains := by
    intro m hm; obtain ⟨m', hm', rfl⟩ := List.mem_map.mp hm; exact h.grains m' hm'
  osteps := by
    intro m hm; obtain ⟨m', hm', rfl⟩ := List.mem_map.mp hm
    simpa [rotMineral] using h.osteps m' hm'
  fsteps := by
    intro m hm; obtain ⟨m', hm', rfl⟩ := List.mem_map.mp hm; exact h.fsteps m' hm'
  rows := by
    intro m hm i hi; obtain ⟨m', hm', rfl⟩ := List.mem_map.mp hm
    exact rowOk_rotMineral Q (h.rows m' hm' i hi)

theorem texOf_T_elastic (stiffness : List Mat6) (hS : ∀ S ∈ stiffness, IsSymm6 S) (assemblage : List ℕ)
    (phis : List ℝ) (n i : ℕ) (m : MineralM) :
    IsElastic (texOf (stiffness.map voigtToTensor) assemblage phis n i m).T := by
  simp only [texOf]
  by_cases h : m.phase < stiffness.length
  · simp only [List.getD_eq_getElem?_getD, List.getElem?_map, List.getElem?_eq_getElem h, Option.map_some,
      Option.getD_some]
    exact voigtToTensor_elastic _ (hS _ (List.getElem_mem h))
  · simp only [List.getD_eq_getElem?_getD, List.getElem?_map, List.getElem?_eq_none (not_lt.mp h), Option.map_none,
      Option.getD_none]
    exact ⟨fun _ _ _ _ => rfl, fun _ _ _ _ => rfl, fun _ _ _ _ => rfl⟩

/-- **co-rotation at the level of `voigt_averages`** -/
theorem voigtAverages_corotate (Q : Mat3) {minerals : List MineralM} {assemblage : List ℕ} {phis : List ℝ}
    {stiffness : List Mat6} {n steps : ℕ} (h : WellFormed minerals assemblage phis stiffness n steps)
    (hS : ∀ S ∈ stiffness, IsSymm6 S) :
    voigtAverages (minerals.map (rotMineral Q)) assemblage phis stiffness
      = (voigtAverages minerals assemblage phis stiffness).map (List.map (rot6 Q)) := by
  rw [voigtAverages_ok h, voigtAverages_ok (wellFormed_rotMineral Q h)]
  simp only [Except.map, List.map_map]
  congr 1
  apply List.map_congr_left; intro i _
  simp only [Function.comp]
  rw [← voigtSum_corotate Q _ (by
    intro p hp; obtain ⟨m, _, rfl⟩ := List.mem_map.mp hp
    exact texOf_T_elastic stiffness hS assemblage phis n i m)]
  congr 1
  simp only [List.map_map]
  apply List.map_congr_left; intro m _
  simp only [Function.comp]
  exact texOf_rotMineral Q _ _ _ _ _ m

/-- **order of the minerals** -/
theorem wellFormed_perm {minerals minerals' : List MineralM} {assemblage : List ℕ} {phis : List ℝ}
    {stiffness : List Mat6} {n steps : ℕ} (h : WellFormed minerals assemblage phis stiffness n steps)
    (hp : minerals.Perm minerals') : WellFormed minerals' assemblage phis stiffness n steps where
  nonempty := by
    intro h0; subst h0; exact h.nonempty (List.Perm.eq_nil hp)
  grains m hm := h.grains m (hp.symm.subset hm)
  osteps m hm := h.osteps m (hp.symm.subset hm)
  fsteps m hm := h.fsteps m (hp.symm.subset hm)
  rows m hm := h.rows m (hp.symm.subset hm)

theorem voigtAverages_perm {minerals minerals' : List MineralM} {assemblage : List ℕ} {phis : List ℝ}
    {stiffness : List Mat6} {n steps : ℕ} (h : WellFormed minerals assemblage phis stiffness n steps)
    (hp : minerals.Perm minerals') :
    voigtAverages minerals' assemblage phis stiffness = voigtAverages minerals assemblage phis stiffness := by
  rw [voigtAverages_ok h, voigtAverages_ok (wellFormed_perm h hp)]
  congr 1
  apply List.map_congr_left; intro i _
  exact (voigtSum_perm (hp.map _)).symm



/-! ### texture independence of the Voigt moduli -/
theorem sum_map_mul_left' {α : Type} (l : List α) (f : α → ℝ) (c : ℝ) :
    (l.map fun a => f a * c).sum = (l.map f).sum * c := by
  induction l with
  | nil => simp
  | cons a l ih => simp [ih]; ring

theorem sum_map_sub' {α : Type} (l : List α) (f g : α → ℝ) :
    (l.map fun a => f a - g a).sum = (l.map f).sum - (l.map g).sum := by
  induction l with
  | nil => simp
  | cons a l ih => simp [ih]; ring

theorem bulk_voigtSum (ps : List PhaseTex) (h : ∀ p ∈ ps, GoodTex p)
    (hf : ∀ p ∈ ps, (p.grains.map fun g => g.2).sum = 1) :
    bulkOf (voigtSum ps) = (ps.map fun p => p.phi * (iijj p.T / 9)).sum := by
  rw [bulkOf, trDilat_voigtSum ps h, div_eq_mul_inv, ← sum_map_mul_left' _ _ (9⁻¹ : ℝ)]
  congr 1; apply List.map_congr_left; intro p hp
  simp only [Function.comp, hf p hp]; ring

theorem shear_voigtSum (ps : List PhaseTex) (h : ∀ p ∈ ps, GoodTex p)
    (hf : ∀ p ∈ ps, (p.grains.map fun g => g.2).sum = 1) :
    shearOf (voigtSum ps) = (ps.map fun p => p.phi * ((ijij p.T - 3 * (iijj p.T / 9)) / 10)).sum := by
  rw [shearOf, bulk_voigtSum ps h hf, trDeviat_voigtSum ps h]
  have e : ∀ l : List PhaseTex, (∀ p ∈ l, (p.grains.map fun g => g.2).sum = 1) →
      ((l.map fun p => (p.grains.map fun g => g.2).sum * (p.phi * ijij p.T)).sum
        - 3 * (l.map fun p => p.phi * (iijj p.T / 9)).sum) / 10
      = (l.map fun p => p.phi * ((ijij p.T - 3 * (iijj p.T / 9)) / 10)).sum := by
    intro l
    induction l with
    | nil => simp
    | cons a l ih =>
      intro hl
      have ha := hl a List.mem_cons_self
      have := ih (fun p hp => hl p (List.mem_cons_of_mem _ hp))
      simp only [List.map_cons, List.sum_cons, ha] at *
      rw [← this]; ring
  exact e ps hf

theorem snd_zip_take (As : List Mat3) (fs : List ℝ) (n : ℕ) (h1 : n ≤ As.length) (h2 : n ≤ fs.length) :
    ((As.zip fs).take n).map Prod.snd = fs.take n := by
  induction n generalizing As fs with
  | zero => simp
  | succ n ih =>
    cases As with
    | nil => simp at h1
    | cons A As =>
      cases fs with
      | nil => simp at h2
      | cons f fs =>
        simp only [List.length_cons, Nat.add_le_add_iff_right] at h1 h2
        simp [ih As fs h1 h2]

theorem mem_fst_zip_take {As : List Mat3} {fs : List ℝ} {n : ℕ} {g : Mat3 × ℝ}
    (h : g ∈ (As.zip fs).take n) : g.1 ∈ As :=
  (List.of_mem_zip (List.mem_of_mem_take h)).1

theorem texOf_T_eq (stiffness : List Mat6) (assemblage : List ℕ) (phis : List ℝ) (n i : ℕ) (m : MineralM)
    (h : m.phase < stiffness.length) :
    (texOf (stiffness.map voigtToTensor) assemblage phis n i m).T = voigtToTensor (stiffness.getD m.phase zero6) := by
  simp [texOf, List.getD_eq_getElem?_getD, List.getElem?_eq_getElem h]

theorem bulkOf_eq (S : Mat6) (hS : IsSymm6 S) : iijj (voigtToTensor S) / 9 = bulkOf S := by
  rw [bulkOf, iijj, voigtDilat_eq S hS]
theorem shearOf_eq (S : Mat6) (hS : IsSymm6 S) :
    (ijij (voigtToTensor S) - 3 * (iijj (voigtToTensor S) / 9)) / 10 = shearOf S := by
  rw [shearOf, bulkOf, ijij, iijj, voigtDilat_eq S hS, voigtDeviat_eq S hS]


end ModelR.Tensors
