import Proofs.Drex
import Mathlib.Tactic.Ring
/-! Grains on which no slip system is active, and flows without strain rate.

After the repair of the rigid-rotation defect a grain without resolved slip follows the rigid-body
rotation of the flow (`noSlipRotation A L = A · spin(L)`), and `eval_rhs` evaluates the solver with
unit scale when the strain rate vanishes.  These lemmas say what the kernel returns when the strain
rate argument is the zero matrix. -/
namespace ModelR

theorem slipInvariants_zero (A : Mat3) (s : Fin 4) : slipInvariants zero3 A s = 0 := by
  simp [slipInvariants, zero3, sum3]

theorem allZero4_zeroD (A : Mat3) : allZero4 (slipInvariants zero3 A) = true := by
  simp [allZero4, slipInvariants_zero, Req_iff]

theorem noSlipRotation_eq (A L : Mat3) : noSlipRotation A L = mmul A (spinMat (spinVector L zero3 0)) := by
  simp [noSlipRotation, orientationChange_eq]

/-- no rotation rate without a velocity gradient -/
theorem noSlipRotation_zero (A : Mat3) : noSlipRotation A zero3 = zero3 := by
  funext p q
  simp [noSlipRotation, orientationChange, spinVector, zero3, sum3]

/-- the rigid-body rotation rate is linear in the velocity gradient -/
theorem noSlipRotation_smul (k : ℝ) (A L : Mat3) :
    noSlipRotation A (fun i j => k * L i j) = smul3 k (noSlipRotation A L) := by
  funext p q
  simp only [noSlipRotation, Mat3.memo_eq, orientationChange, Vec3.memo_eq, spinVector, zero3, smul3, sum3]
  ring

/-- **without strain rate no slip system is active**: the grain follows the rigid rotation, zero strain energy -/
theorem rotationAndStrainCore_zeroD (phase : Int) (crss : Crss) (A L : Mat3) (p n lam : ℝ) :
    rotationAndStrainCore phase crss A zero3 L p n lam = (noSlipRotation A L, 0) := by
  simp [rotationAndStrainCore, allZero4_zeroD]

theorem weightedSum_zero_right (f : List ℝ) (A : List Mat3) :
    weightedSum f (A.map (fun _ => (0:ℝ))) = 0 := by
  induction f generalizing A with
  | nil => cases A <;> simp [weightedSum]
  | cons x xs ih =>
    cases A with
    | nil => simp [weightedSum]
    | cons a as =>
      have := ih as
      simp only [List.map_cons, weightedSum, mul_zero, zero_add]
      exact this

/-- the dislocation branch without strain rate: rigid rotation (damped like every rotation rate), no volume change -/
theorem dislocationRates_zeroD (damp : ℝ) (crss : Crss) (phase : Int) (A : List Mat3) (f : List ℝ) (L : Mat3)
    (q : DParams) :
    dislocationRates damp crss phase A f zero3 L q
      = (A.map (fun a => smul3 damp (noSlipRotation a L)), List.zipWith (fun _ _ => (0:ℝ)) f A) := by
  simp only [dislocationRates, rotationAndStrainCore_zeroD, List.map_map, Function.comp_def,
    weightedSum_zero_right]
  congr 1
  rw [List.zipWith_map_right]
  simp

end ModelR
