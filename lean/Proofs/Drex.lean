import Proofs.Basic
import ModelR.Drex
import Mathlib.Tactic.FinCases
import Mathlib.Tactic.NormNum
/-! Helper lemmas about the D-Rex kernel model (`ModelR.Drex`). -/
namespace ModelR

@[simp] theorem vec4memo_eq (v : Fin 4 → ℝ) : vec4memo v = v := by
  funext i; fin_cases i <;> rfl

@[simp] theorem perm4memo_eq (v : Fin 4 → Fin 4) : perm4memo v = v := by
  funext i; fin_cases i <;> rfl

/-- a matrix is skew-symmetric -/
def IsSkew (W : Mat3) : Prop := ∀ i j, W i j = - W j i

/-- the spin matrix of the grain: `Ω s q = Σ_r ε_{qrs} w_r` -/
def spinMat (w : Vec3) : Mat3 := fun s q => sum3 fun r => eps q r s * w r

theorem spinMat_skew (w : Vec3) : IsSkew (spinMat w) := by
  intro i j
  fin_cases i <;> fin_cases j <;> simp [spinMat, sum3, eps]

theorem isSkew_zero : IsSkew zero3 := by intro i j; simp [zero3]

theorem isSkew_smul (c : ℝ) (W : Mat3) (h : IsSkew W) : IsSkew (smul3 c W) := by
  intro i j; simp only [smul3]; rw [h i j]; ring

theorem mmul_zero (A : Mat3) : mmul A zero3 = zero3 := by
  funext i j; simp [mmul, zero3, sum3]

theorem mmul_smul (c : ℝ) (A W : Mat3) : mmul A (smul3 c W) = smul3 c (mmul A W) := by
  funext i j; simp only [mmul, smul3, sum3]; ring

/-- K7: the quadruple ε-loop is `A · Ω` with the skew spin matrix of the spin vector -/
theorem orientationChange_eq (A L G : Mat3) (g0 : ℝ) :
    orientationChange A L G g0 = mmul A (spinMat (spinVector L G g0)) := by
  funext p q
  simp only [orientationChange, Vec3.memo_eq, mmul, spinMat, sum3]
  fin_cases q <;> simp [eps] <;> ring

theorem weightedSum_eq (f e : List ℝ) (h : f.length = e.length) :
    weightedSum f e = (List.zipWith (· * ·) f e).sum := by
  induction f generalizing e with
  | nil => cases e <;> simp [weightedSum]
  | cons x xs ih =>
    cases e with
    | nil => simp at h
    | cons y ys => simp [weightedSum, ih ys (by simpa using h)]

theorem sum_zipWith_mul_const (c m : ℝ) (f e : List ℝ) (h : f.length = e.length) :
    (List.zipWith (fun fi ei => c * fi * (m - ei)) f e).sum
      = c * (m * f.sum - (List.zipWith (· * ·) f e).sum) := by
  induction f generalizing e with
  | nil => cases e <;> simp
  | cons x xs ih =>
    cases e with
    | nil => simp at h
    | cons y ys =>
      simp only [List.zipWith_cons_cons, List.sum_cons]
      rw [ih ys (by simpa using h)]
      ring

end ModelR
