import ModelR.Update
import Mathlib.Tactic.Ring
import Mathlib.Tactic.Linarith
import Mathlib.Tactic.FieldSimp
import Mathlib.Tactic.Positivity
import Mathlib.Algebra.Order.BigOperators.Group.List
/-! Helper lemmas about the list utilities of the model. -/
namespace ModelR

theorem foldl_add_eq (l : List ℝ) (a : ℝ) : l.foldl (· + ·) a = a + l.sum := by
  induction l generalizing a with
  | nil => simp
  | cons x xs ih => simp [List.foldl, ih, add_assoc]

@[simp] theorem listSum_eq_sum (l : List ℝ) : listSum l = l.sum := by
  simp [listSum, foldl_add_eq]

theorem sum_map_div (l : List ℝ) (s : ℝ) : (l.map (· / s)).sum = l.sum / s := by
  induction l with
  | nil => simp
  | cons x xs ih => simp [ih, add_div]

theorem sum_map_le_sum_map (l : List ℝ) (g h : ℝ → ℝ) (H : ∀ x ∈ l, g x ≤ h x) :
    (l.map g).sum ≤ (l.map h).sum := by
  induction l with
  | nil => simp
  | cons x xs ih =>
    simp only [List.map_cons, List.sum_cons]
    have h1 := H x (by simp)
    have h2 := ih (fun y hy => H y (by simp [hy]))
    linarith

theorem sum_map_add_const (l : List ℝ) (c : ℝ) :
    (l.map (fun x => x + c)).sum = l.sum + l.length * c := by
  induction l with
  | nil => simp
  | cons x xs ih => simp [ih]; ring

end ModelR

namespace ModelR

@[simp] theorem Mat3.memo_eq (A : Mat3) : Mat3.memo A = A := by
  funext i j; fin_cases i <;> fin_cases j <;> rfl

@[simp] theorem Vec3.memo_eq (v : Vec3) : Vec3.memo v = v := by
  funext i; fin_cases i <;> rfl

end ModelR
