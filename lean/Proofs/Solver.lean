import Proofs.Drex
import ModelR.Solver
/-! Helper lemmas about the packed solver vector. -/
namespace ModelR
open List

@[simp] theorem mat3ToList_length (A : Mat3) : (mat3ToList A).length = 9 := rfl

theorem mat3OfList_toList (A : Mat3) : mat3OfList (mat3ToList A) = A := by
  funext i j; fin_cases i <;> fin_cases j <;> rfl

theorem mat3ToList_ofList (l : List ℝ) (h : l.length = 9) : mat3ToList (mat3OfList l) = l := by
  match l, h with
  | [a, b, c, d, e, f, g, h', i], _ => rfl

theorem packY_take9 (F : Mat3) (t : Tex) : (packY F t).take 9 = mat3ToList F := by
  simp only [packY, List.append_assoc]
  rw [List.take_append_of_le_length (by simp)]
  exact List.take_of_length_le (by simp)

/-- the F block of the unpacked vector only looks at the first nine entries -/
theorem unpackY_F (n : ℕ) (y : List ℝ) : (unpackY n y).1 = mat3OfList (y.take 9) := rfl

theorem extractVars_F (n : ℕ) (y : List ℝ) : (extractVars n y).1 = mat3OfList (y.take 9) := rfl

/-- `perform_step` leaves the deformation-gradient block untouched -/
theorem postStep_F (chi : ℝ) (n : ℕ) (prev : List Mat3) (y : List ℝ) :
    (extractVars n (postStep chi n prev y)).1 = (extractVars n y).1 := by
  simp only [extractVars_F, postStep, packY_take9, mat3OfList_toList]

theorem mmul_smul_left (k : ℝ) (L F : Mat3) :
    mmul (fun i j => k * L i j) F = fun i j => k * mmul L F i j := by
  funext i j; simp only [mmul, sum3]; ring

theorem mat3ToList_smul (k : ℝ) (A : Mat3) :
    mat3ToList (fun i j => k * A i j) = (mat3ToList A).map (k * ·) := rfl

/-- nondimensional strain rate passed to `derivatives` -/
noncomputable def ndD (L : Mat3) (e : ℝ) : Mat3 := fun i j => (L i j + L j i) / 2 / e
/-- nondimensional velocity gradient passed to `derivatives` -/
noncomputable def ndL (L : Mat3) (e : ℝ) : Mat3 := fun i j => L i j / e

/-- the scale `eval_rhs` nondimensionalises with: the largest principal strain rate, or 1 when there is no deformation -/
noncomputable def rhsScale (env : RhsEnv) : ℝ := if env.emax = 0 then 1 else env.emax

theorem rhsScale_ne_zero (env : RhsEnv) : rhsScale env ≠ 0 := by
  unfold rhsScale; split_ifs with h
  · exact one_ne_zero
  · exact h

/-- every accepted evaluation of `eval_rhs`: the F block is `L F`, the texture blocks are the solver's rates for the
nondimensionalised flow multiplied back by the scale -/
theorem evalRhs_ok (phase fabric : Int) (n : ℕ) (mp : MParams) (env : RhsEnv) (y out : List ℝ)
    (h : evalRhs phase fabric n mp env y = .ok out) :
    ∃ phi, lookupFraction mp.assemblage mp.fractions phase = .ok phi ∧
      ∃ ad fd,
          derivatives env.regime phase fabric (extractVars n y).2.A (extractVars n y).2.f
            (ndD env.L (rhsScale env)) (ndL env.L (rhsScale env)) env.spin ⟨mp.p, mp.n, mp.lam, mp.M, phi⟩ = .ok (ad, fd) ∧
          out = mat3ToList (mmul env.L (extractVars n y).1)
                  ++ (ad.flatMap mat3ToList).map (· * rhsScale env) ++ fd.map (· * rhsScale env) := by
  unfold evalRhs at h
  cases hl : lookupFraction mp.assemblage mp.fractions phase with
  | error e => simp [hl] at h
  | ok phi =>
    refine ⟨phi, rfl, ?_⟩
    simp only [hl, Req_iff, Mat3.memo_eq] at h
    cases hd : derivatives env.regime phase fabric (extractVars n y).2.A (extractVars n y).2.f
        (ndD env.L (rhsScale env)) (ndL env.L (rhsScale env)) env.spin ⟨mp.p, mp.n, mp.lam, mp.M, phi⟩ with
    | error er =>
      unfold ndD ndL rhsScale at hd
      simp [hd] at h
    | ok r =>
      obtain ⟨ad, fd⟩ := r
      have hd' := hd
      unfold ndD ndL rhsScale at hd'
      simp only [hd'] at h
      injection h with h
      exact ⟨ad, fd, rfl, by simpa only [rhsScale] using h.symm⟩

end ModelR

namespace ModelR
open List

theorem flatMap_toList_length (A : List Mat3) : (A.flatMap mat3ToList).length = 9 * A.length := by
  induction A with
  | nil => rfl
  | cons a as ih => simp [ih]; omega

theorem chunk9_flat (A : List Mat3) (rest : List ℝ) :
    chunk9 A.length (A.flatMap mat3ToList ++ rest) = A := by
  induction A with
  | nil => rfl
  | cons a as ih =>
    simp only [List.length_cons, chunk9, List.flatMap_cons, List.append_assoc]
    have h1 : (mat3ToList a ++ (as.flatMap mat3ToList ++ rest)).take 9 = mat3ToList a := by
      rw [List.take_append_of_le_length (by simp)]
      exact List.take_of_length_le (by simp)
    have h2 : (mat3ToList a ++ (as.flatMap mat3ToList ++ rest)).drop 9 = as.flatMap mat3ToList ++ rest := by
      rw [List.drop_append_of_le_length (by simp)]
      simp [List.drop_of_length_le]
    rw [h1, h2, mat3OfList_toList, ih]

/-- packing then unpacking is the identity (for a texture with `n` grains) -/
theorem unpackY_packY (n : ℕ) (F : Mat3) (t : Tex) (hA : t.A.length = n) (hf : t.f.length = n) :
    unpackY n (packY F t) = (F, t) := by
  have hflat := flatMap_toList_length t.A
  have e1 : (packY F t).take 9 = mat3ToList F := packY_take9 F t
  have e2 : (packY F t).drop 9 = t.A.flatMap mat3ToList ++ t.f := by
    simp only [packY, List.append_assoc]
    rw [List.drop_append_of_le_length (by simp)]
    simp [List.drop_of_length_le]
  have e3 : ((packY F t).drop 9).take (9 * n) = t.A.flatMap mat3ToList := by
    rw [e2, List.take_append_of_le_length (by rw [hflat, hA])]
    exact List.take_of_length_le (by rw [hflat, hA])
  have e4 : (packY F t).drop (9 * n + 9) = t.f := by
    have : 9 * n + 9 = 9 + 9 * n := by omega
    rw [this, ← List.drop_drop, e2, List.drop_append_of_le_length (by rw [hflat, hA])]
    simp [List.drop_of_length_le, hflat, hA]
  have e5 : chunk9 n (t.A.flatMap mat3ToList) = t.A := by
    have := chunk9_flat t.A []
    rw [List.append_nil, hA] at this
    exact this
  unfold unpackY
  rw [e1, e3, e4, e5, mat3OfList_toList, List.take_of_length_le (by omega)]

end ModelR
