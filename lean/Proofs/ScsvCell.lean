import ModelD.Scsv
import Proofs.ScsvText
import Proofs.Csv
import Proofs.ScsvHeader
/-! Cell codec round trip (C16, layers 1 and 2): fill substitution on save followed by
`_parse_scsv_cell` on read gives back the cell, or the fill value where the cell equals it. -/
namespace Scsv

/-- NaNs are canonical (NaN sign and payload are not observable through `str()`) -/
def Canon (x : FBits) : Prop := fIsNaN x = true → x = nanBits

instance (x : FBits) : Decidable (Canon x) := by unfold Canon; infer_instance

/-- the characters CPython uses to print floats and complex numbers -/
def numChars : Str := ['0','1','2','3','4','5','6','7','8','9','+','-','.','e','i','n','f','a','(',')','j']

/-- a non-empty text over `numChars` -/
def NumText (s : Str) : Prop := s ≠ [] ∧ ∀ c ∈ s, c ∈ numChars

/-- **assumed spec of the CPython externals** (`repr`/`float()`/`str(complex)`/`complex()`); validated on
the running interpreter by the harness for every cell it generates. A hypothesis, never an axiom. -/
structure FloatSpec (E : FloatExt) : Prop where
  fparse_frepr : ∀ x, Canon x → E.fparse (E.frepr x) = some x
  cparse_crepr : ∀ a b, Canon a → Canon b → E.cparse (E.crepr a b) = some (a, b)
  frepr_text : ∀ x, NumText (E.frepr x)
  crepr_text : ∀ a b, NumText (E.crepr a b)

theorem numChars_no_space : ∀ c ∈ numChars, isSpacePy c = false := by decide
theorem numChars_no_nl : ∀ c ∈ numChars, c ≠ '\n' ∧ c ≠ '\r' ∧ c ≠ ' ' := by decide
theorem numChars_yaml : ∀ c ∈ numChars, Yaml.isYamlPrintable c = true ∧ Yaml.isYamlBreak c = false := by decide

theorem NumText.strip {s : Str} (h : NumText s) : strip s = s :=
  strip_eq_self_of_no_space s (fun c hc => numChars_no_space c (h.2 c hc))

theorem NumText.fieldOK {s : Str} (h : NumText s) : Csv.FieldOK s := by
  refine ⟨fun hn => (numChars_no_nl _ (h.2 _ hn)).1 rfl, fun hn => (numChars_no_nl _ (h.2 _ hn)).2.1 rfl, ?_⟩
  intro hh
  have := List.mem_of_mem_head? hh
  exact (numChars_no_nl _ (h.2 _ this)).2.2 rfl

theorem NumText.yamlSafe {s : Str} (h : NumText s) : YamlSafe s := fun c hc => numChars_yaml c (h.2 c hc)

theorem pyStrInt_numText (i : Int) : NumText (pyStrInt i) := by
  refine ⟨pyStrInt_ne_nil i, ?_⟩
  intro c hc
  rcases pyStrInt_chars i c hc with h | h
  · simp [isAsciiDigit] at h
    have : c = Char.ofNat c.toNat := by simp
    have hr : c.toNat = 48 ∨ c.toNat = 49 ∨ c.toNat = 50 ∨ c.toNat = 51 ∨ c.toNat = 52 ∨ c.toNat = 53 ∨
        c.toNat = 54 ∨ c.toNat = 55 ∨ c.toNat = 56 ∨ c.toNat = 57 := by omega
    rw [this]
    rcases hr with h | h | h | h | h | h | h | h | h | h <;> rw [h] <;> decide
  · subst h; decide

/-- statement-level equality of one float component: both NaN, or IEEE-equal -/
def partEq (x y : FBits) : Bool := (fIsNaN x && fIsNaN y) || fEq x y

/-- "the cell equals the field's fill value" as the property states it -/
def cellEqFill : Val → Val → Bool
  | .str s, .str f => s == f
  | .int i, .int j => i == j
  | .float x, .float y => partEq x y
  | .complex a b, .complex c e => partEq a c && partEq b e
  | _, _ => false

/-- the value that must be read back for a written cell -/
def expectedCell (t : Ty) (fv : Val) (d : Val) : Val :=
  if t = .bool then d else if cellEqFill d fv then fv else d

/-- the cell is of the column's type, representable as the property states (strings without
surrounding whitespace or line breaks; NaNs canonical), and – the hypotheses the proof forces –
its text differs from the missing marker also for non-string cells, and a complex cell with a NaN
component under a NaN fill has the fill's NaN pattern. -/
def CellOK (E : FloatExt) (m : Str) (t : Ty) (fv : Val) (d : Val) : Prop :=
  pyStr E d ≠ m ∧
  match t, d with
  | .str, .str s => strip s = s ∧ '\n' ∉ s ∧ '\r' ∉ s
  | .int, .int _ => True
  | .float, .float x => Canon x
  | .bool, .bool _ => True
  | .complex, .complex a b => Canon a ∧ Canon b ∧
      (match fv with
       | .complex c e => ((fIsNaN a || fIsNaN b) && (fIsNaN c || fIsNaN e)) = true → (partEq a c && partEq b e) = true
       | _ => True)
  | _, _ => False

/-- the fill value of a column: `t(fill)` succeeds, has the column's type, and the reader, which
sees `str(fill)`, constructs the same value -/
structure FillOK (E : FloatExt) (t : Ty) (fill : PyVal) (fv : Val) : Prop where
  save : construct E t fill = .ok fv
  read : construct E t (.str (pyStrP E fill)) = .ok fv

theorem fEq_imp_partEq (x y : FBits) (h : fEq x y = true) : partEq x y = true := by simp [partEq, h]

theorem partEq_of_not_nan (x y : FBits) (hx : fIsNaN x = false) (h : partEq x y = true) : fEq x y = true := by
  simpa [partEq, hx] using h

theorem ite_ok {α} (c : Prop) [Decidable c] (a b : α) :
    (if c then (Except.ok a : Except Err α) else .ok b) = .ok (if c then a else b) := by split <;> rfl

theorem strip_True : strip ['T', 'r', 'u', 'e'] = ['T', 'r', 'u', 'e'] := by decide
theorem strip_False : strip ['F', 'a', 'l', 's', 'e'] = ['F', 'a', 'l', 's', 'e'] := by decide

/-- the text `save_scsv` writes for a representable cell -/
theorem saveCell_ok (E : FloatExt) (m : Str) (t : Ty) (fill : PyVal) (fv : Val) (d : Val)
    (hfill : t ≠ .bool → FillOK E t fill fv) (hd : CellOK E m t fv d) (hE : FloatSpec E) :
    saveCell E m t fill d = .ok (if t ≠ .bool ∧ cellEqFill d fv = true then m else pyStr E d) := by
  obtain ⟨hne, hshape⟩ := hd
  have hstrip : strip (pyStr E d) ≠ m := by
    cases d with
    | str s => cases t <;> simp_all [pyStr]
    | int i => simpa [pyStr, (pyStrInt_numText i).strip] using hne
    | float x => simpa [pyStr, (hE.frepr_text x).strip] using hne
    | bool b => cases b <;> simpa [pyStr, strip_True, strip_False] using hne
    | complex a b => simpa [pyStr, (hE.crepr_text a b).strip] using hne
  cases t with
  | bool =>
    cases d <;> simp [CellOK] at hshape
    simp [saveCell, trialParse, substitute, parseCell, hstrip, bind, Except.bind, pure, Except.pure]
  | str =>
    cases d <;> simp [CellOK] at hshape
    rename_i s
    have hf := hfill (by simp)
    have hfv : fv = .str (pyStrP E fill) := by
      have := hf.save; simp [construct] at this; exact this.symm
    subst hfv
    have hs : strip s = s := hshape.1
    simp only [pyStr] at hstrip
    simp [saveCell, trialParse, substitute, parseCell, pyStr, hstrip, construct, cellEqFill, bind, Except.bind, pure, Except.pure, ite_ok]
  | int =>
    cases d <;> simp [CellOK] at hshape
    rename_i i
    have hf := hfill (by simp)
    have hsv := hf.save
    have hparse : construct E .int (.str (strip (pyStr E (.int i)))) = .ok (.int i) := by
      simp [pyStr, (pyStrInt_numText i).strip, construct, pyIntOfStr_pyStrInt, optErr, Except.map]
    cases fv with
    | int j =>
      simp [saveCell, trialParse, substitute, parseCell, hstrip, hparse, hsv, cellEqFill, bind, Except.bind, pure, Except.pure, ite_ok]
    | _ =>
      exfalso
      cases fill <;> simp [construct, optErr, Except.map] at hsv <;>
        (try (split at hsv <;> simp at hsv))
  | float =>
    cases d <;> simp [CellOK] at hshape
    rename_i x
    have hf := hfill (by simp)
    have hsv := hf.save
    have hparse : construct E .float (.str (strip (pyStr E (.float x)))) = .ok (.float x) := by
      simp [pyStr, (hE.frepr_text x).strip, construct, hE.fparse_frepr x hshape, optErr, Except.map]
    cases fv with
    | float y =>
      simp [saveCell, trialParse, substitute, parseCell, hstrip, hparse, hsv, cellEqFill, partEq, bind, Except.bind, pure, Except.pure, ite_ok]
    | _ =>
      exfalso
      cases fill <;> simp [construct, optErr, Except.map] at hsv <;>
        (try (split at hsv <;> simp at hsv))
  | complex =>
    cases d <;> simp [CellOK] at hshape
    rename_i a b
    have hf := hfill (by simp)
    have hsv := hf.save
    have hparse : construct E .complex (.str (strip (pyStr E (.complex a b)))) = .ok (.complex a b) := by
      simp [pyStr, (hE.crepr_text a b).strip, construct, hE.cparse_crepr a b hshape.1 hshape.2.1, optErr, Except.map]
    cases fv with
    | complex c e =>
      have hpat := hshape.2.2
      have hcond : (((fIsNaN a || fIsNaN b) && (fIsNaN c || fIsNaN e)) || (fEq a c && fEq b e))
          = (partEq a c && partEq b e) := by
        simp only [partEq] at hpat ⊢
        cases h1 : fIsNaN a <;> cases h2 : fIsNaN b <;> cases h3 : fIsNaN c <;> cases h4 : fIsNaN e <;>
          cases h5 : fEq a c <;> cases h6 : fEq b e <;> simp_all
      simp only [saveCell, trialParse, substitute, parseCell, hstrip, if_false, hparse, hsv, cellEqFill, bind, Except.bind, pure, Except.pure]
      simp only [hcond]
      simp [ite_ok]
    | _ =>
      exfalso
      cases fill <;> simp [construct, optErr, Except.map] at hsv <;>
        (try (split at hsv <;> simp at hsv))

theorem parseBool_True : parseBool ['T', 'r', 'u', 'e'] = true := by decide
theorem parseBool_False : parseBool ['F', 'a', 'l', 's', 'e'] = false := by decide

/-- the text of a representable cell, stripped, differs from the missing marker -/
theorem strip_pyStr_ne (E : FloatExt) (m : Str) (t : Ty) (fv : Val) (d : Val) (hd : CellOK E m t fv d)
    (hE : FloatSpec E) : strip (pyStr E d) ≠ m ∧ strip (pyStr E d) = pyStr E d := by
  obtain ⟨hne, hshape⟩ := hd
  have key : strip (pyStr E d) = pyStr E d := by
    cases d with
    | str s => cases t <;> simp_all [pyStr, CellOK]
    | int i => simp [pyStr, (pyStrInt_numText i).strip]
    | float x => simp [pyStr, (hE.frepr_text x).strip]
    | bool b => cases b <;> simp [pyStr, strip_True, strip_False]
    | complex a b => simp [pyStr, (hE.crepr_text a b).strip]
  exact ⟨by rw [key]; exact hne, key⟩

/-- `t(str(d)) == d` for a representable cell of a non-boolean column -/
theorem construct_pyStr (E : FloatExt) (m : Str) (t : Ty) (fv : Val) (d : Val) (ht : t ≠ .bool)
    (hd : CellOK E m t fv d) (hE : FloatSpec E) : construct E t (.str (pyStr E d)) = .ok d := by
  obtain ⟨hne0, hshape⟩ := hd
  cases t with
  | bool => exact absurd rfl ht
  | str => cases d <;> simp [CellOK] at hshape; simp [construct, pyStr, pyStrP]
  | int => cases d <;> simp [CellOK] at hshape; simp [construct, pyStr, pyIntOfStr_pyStrInt, optErr, Except.map]
  | float =>
    cases d <;> simp [CellOK] at hshape
    rename_i x
    simp [construct, pyStr, hE.fparse_frepr x hshape, optErr, Except.map]
  | complex =>
    cases d <;> simp [CellOK] at hshape
    rename_i a b
    simp [construct, pyStr, hE.cparse_crepr a b hshape.1 hshape.2.1, optErr, Except.map]

/-- **`cell_roundtrip`**: `_parse_scsv_cell` applied to what `save_scsv` wrote for a representable cell
gives the cell back, or the fill value where the cell equals the fill. For every type. -/
theorem parseCell_written (E : FloatExt) (m : Str) (t : Ty) (fill : PyVal) (fv : Val) (d : Val)
    (hm : strip m = m) (hfill : t ≠ .bool → FillOK E t fill fv) (hd : CellOK E m t fv d) (hE : FloatSpec E) :
    parseCell E t (if t ≠ .bool ∧ cellEqFill d fv = true then m else pyStr E d) m (.str (pyStrP E fill))
      = .ok (expectedCell t fv d) := by
  obtain ⟨hne, hkey⟩ := strip_pyStr_ne E m t fv d hd hE
  by_cases hsub : t ≠ .bool ∧ cellEqFill d fv = true
  · rw [if_pos hsub]
    unfold parseCell
    rw [if_pos hm, (hfill hsub.1).read]
    simp [expectedCell, hsub.1, hsub.2]
  · rw [if_neg hsub]
    unfold parseCell
    rw [if_neg hne]
    by_cases ht : t = .bool
    · subst ht
      obtain ⟨hne0, hshape⟩ := hd
      cases d <;> simp [CellOK] at hshape
      rename_i b
      cases b <;> simp [pyStr, parseBool_True, parseBool_False, expectedCell]
    · have hne' : cellEqFill d fv = false := by
        cases h : cellEqFill d fv
        · rfl
        · exact absurd ⟨ht, h⟩ hsub
      rw [if_neg ht, hkey, construct_pyStr E m t fv d ht hd hE]
      simp [expectedCell, ht, hne']

/-- a string that is its own `strip()` does not start with a blank -/
theorem head_ne_space_of_strip (s : Str) (h1 : strip s = s) : s.head? ≠ some ' ' := by
  intro hh
  cases s with
  | nil => simp at hh
  | cons c cs =>
    simp at hh; subst hh
    have : strip (' ' :: cs) ≠ ' ' :: cs := by
      intro e
      have hl : (lstrip (' ' :: cs)).length ≤ cs.length := by
        simp only [lstrip, List.dropWhile, show isSpacePy ' ' = true by decide]
        exact (List.dropWhile_suffix _).length_le
      have hr : (strip (' ' :: cs)).length ≤ (lstrip (' ' :: cs)).length := by
        simp only [strip, rstrip, List.length_reverse]
        exact Nat.le_trans (List.dropWhile_suffix _).length_le (by simp)
      rw [e] at hr
      simp at hr; omega
    exact this h1

/-- the written text of a representable cell survives the CSV row codec -/
theorem written_fieldOK (E : FloatExt) (m : Str) (t : Ty) (fv : Val) (d : Val) (hm : Csv.FieldOK m)
    (hd : CellOK E m t fv d) (hE : FloatSpec E) :
    Csv.FieldOK (if t ≠ .bool ∧ cellEqFill d fv = true then m else pyStr E d) := by
  split
  · exact hm
  · obtain ⟨hne0, hshape⟩ := hd
    cases d with
    | str s =>
      cases t <;> simp [CellOK] at hshape
      obtain ⟨h1, h2, h3⟩ := hshape
      refine ⟨h2, h3, ?_⟩
      intro hh
      simp only [pyStr] at hh
      exact head_ne_space_of_strip s h1 hh
    | int i => exact (pyStrInt_numText i).fieldOK
    | float x => exact (hE.frepr_text x).fieldOK
    | bool b => cases b <;> simp [pyStr, Csv.FieldOK]
    | complex a b => exact (hE.crepr_text a b).fieldOK

end Scsv
