import Proofs.DrexAlgebra
import Mathlib.Analysis.SpecialFunctions.Pow.Real
/-! # The D-Rex model as published, in textbook form (`Spec`)

Written from Kaminski & Ribe (2001) eqs 5–9, Kaminski, Ribe & Browaeys (2004) eq 11 as corrected
in Fraters & Billen (2021) S1, and the reference Fortran shipped in `/repo/tools`.  This file is
the SPECIFICATION; `ModelR.Drex` is the code-shaped model.  `Properties/C02.lean` relates them. -/
namespace ModelR
namespace Spec

/-- slip direction `l_s` and slip-plane normal `n_s` of system `s` as lab-frame vectors: rows of
the orientation matrix. Systems in the documented order (010)[100], (001)[100], (010)[001], (100)[001]. -/
noncomputable def slipDir (A : Mat3) (s : Fin 4) : Vec3 := fun i => A (slipL s) i
noncomputable def slipNormal (A : Mat3) (s : Fin 4) : Vec3 := fun i => A (slipN s) i

/-- resolved strain-rate invariant `I_s = l_s · D n_s` -/
noncomputable def invariant (D A : Mat3) (s : Fin 4) : ℝ :=
  sum3 fun i => sum3 fun j => slipDir A s i * D i j * slipNormal A s j

/-- documented CRSS table (`none` = the system cannot be activated) -/
noncomputable def crssTable : Int → Int → Option (Fin 4 → Option ℝ)
  | 0, 0 => some fun s => match s with | 0 => some 1 | 1 => some 2 | 2 => some 3 | 3 => none
  | 0, 1 => some fun s => match s with | 0 => some 3 | 1 => some 2 | 2 => some 1 | 3 => none
  | 0, 2 => some fun s => match s with | 0 => some 3 | 1 => some 2 | 2 => none | 3 => some 1
  | 0, 3 => some fun s => match s with | 0 => some 1 | 1 => some 1 | 2 => some 3 | 3 => none
  | 0, 4 => some fun s => match s with | 0 => some 3 | 1 => some 1 | 2 => some 2 | 3 => none
  | 1, 5 => some fun s => match s with | 0 => none | 1 => none | 2 => none | 3 => some 1
  | _, _ => none

/-- slip activity `q_s = I_s / τ_s` (zero for a system that cannot be activated) -/
noncomputable def activity (I : Fin 4 → ℝ) (tau : Fin 4 → Option ℝ) (s : Fin 4) : ℝ :=
  match tau s with | some t => I s / t | none => 0

/-- relative slip rates for olivine given the ranking `σ` of the systems by increasing |activity|:
the softest (most active) system has rate 1, the least active one is inactive, the two in between
follow the power law `β_s = (q_s / q_max) |q_s / q_max|^{n−1}` (K&R 2001 eq. 5) -/
noncomputable def relRates (q : Fin 4 → ℝ) (σ : Fin 4 → Fin 4) (n : ℝ) (s : Fin 4) : ℝ :=
  if s = σ 3 then 1
  else if s = σ 0 then 0
  else (q s / q (σ 3)) * |q s / q (σ 3)| ^ (n - 1)

/-- Schmid tensor `G = 2 Σ_s β_s l_s ⊗ n_s` -/
noncomputable def schmid (A : Mat3) (β : Fin 4 → ℝ) : Mat3 := fun i j =>
  2 * (β 0 * slipDir A 0 i * slipNormal A 0 j + β 1 * slipDir A 1 i * slipNormal A 1 j
     + β 2 * slipDir A 2 i * slipNormal A 2 j + β 3 * slipDir A 3 i * slipNormal A 3 j)

/-- squared misfit between the imposed deformation and slip at rate `γ` on the Schmid tensor plus a
rigid spin `W` (skew): `‖L − γ G − W‖²` -/
noncomputable def misfit (L G W : Mat3) (γ : ℝ) : ℝ :=
  inner3 (msub (msub L (smul3 γ G)) W) (msub (msub L (smul3 γ G)) W)

/-- least-squares slip rate on the softest system -/
noncomputable def gamma0 (G L : Mat3) : ℝ := inner3 (symm G) (symm L) / inner3 (symm G) (symm G)

/-- lattice rotation rate: the grain spins with `skew(L − γ₀ G)`; in the code's direction-cosine
convention `Ȧ = A · skew(L − γ₀ G)ᵀ` -/
noncomputable def latticeRate (A L G : Mat3) (γ : ℝ) : Mat3 :=
  mmul A (tr (skew (msub L (smul3 γ G))))

/-- dislocation density of system `s`: `ρ_s = τ_s^{p−n} |β_s γ₀|^{p/n}` (Fraters & Billen eq. 16) -/
noncomputable def rho (tau : Option ℝ) (β γ p n : ℝ) : ℝ :=
  match tau with
  | some t => t ^ (p - n) * |β * γ| ^ (p / n)
  | none => 0 ^ (n - p) * |β * γ| ^ (p / n)

/-- strain energy `E = Σ ρ_s exp(−λ ρ_s²)` over the first three systems of the table (as in the
reference Fortran) -/
noncomputable def energy (tau : Fin 4 → Option ℝ) (β : Fin 4 → ℝ) (γ p n lam : ℝ) : ℝ :=
  rho (tau 0) (β 0) γ p n * Real.exp (-lam * (rho (tau 0) (β 0) γ p n) ^ 2)
  + rho (tau 1) (β 1) γ p n * Real.exp (-lam * (rho (tau 1) (β 1) γ p n) ^ 2)
  + rho (tau 2) (β 2) γ p n * Real.exp (-lam * (rho (tau 2) (β 2) γ p n) ^ 2)

/-- boundary-migration law `ḟ_i = φ M f_i (Ē − E_i)`, `Ē = Σ_j f_j E_j`; the yielding regime damps
rotation and migration by its documented factor 0.3 -/
noncomputable def fractionRate (damp φ M fi Ebar Ei : ℝ) : ℝ := φ * M * fi * (damp * (Ebar - Ei))

end Spec
end ModelR
