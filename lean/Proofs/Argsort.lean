import Proofs.Drex
/-! `argsort4` (the model of `np.argsort` on four keys) returns the strict ranking when the keys
are pairwise distinct. Brute force over the 2^6 outcomes of the six comparisons. -/
namespace ModelR

set_option maxHeartbeats 4000000 in
theorem argsort4_sorts (k : Fin 4 → ℝ)
    (h01 : k 0 ≠ k 1) (h02 : k 0 ≠ k 2) (h03 : k 0 ≠ k 3) (h12 : k 1 ≠ k 2) (h13 : k 1 ≠ k 3)
    (h23 : k 2 ≠ k 3) :
    k (argsort4 k 0) < k (argsort4 k 1) ∧ k (argsort4 k 1) < k (argsort4 k 2) ∧
    k (argsort4 k 2) < k (argsort4 k 3) ∧
    ∀ s, s = argsort4 k 0 ∨ s = argsort4 k 1 ∨ s = argsort4 k 2 ∨ s = argsort4 k 3 := by
  have e10 := h01.symm
  have e20 := h02.symm
  have e30 := h03.symm
  have e21 := h12.symm
  have e31 := h13.symm
  have e32 := h23.symm
  rcases lt_or_gt_of_ne h01 with a01 | a01 <;> rcases lt_or_gt_of_ne h02 with a02 | a02 <;>
  rcases lt_or_gt_of_ne h03 with a03 | a03 <;> rcases lt_or_gt_of_ne h12 with a12 | a12 <;>
  rcases lt_or_gt_of_ne h13 with a13 | a13 <;> rcases lt_or_gt_of_ne h23 with a23 | a23 <;>
  first
    | (exfalso; linarith)
    | (have n01 := not_lt_of_gt a01
       have n02 := not_lt_of_gt a02
       have n03 := not_lt_of_gt a03
       have n12 := not_lt_of_gt a12
       have n13 := not_lt_of_gt a13
       have n23 := not_lt_of_gt a23
       simp [argsort4, rank4, List.finRange, Req, *]
       intro s; fin_cases s <;> simp)
