import ModelR.Flow
import Mathlib.Analysis.SpecialFunctions.Trigonometric.Deriv
import Mathlib.Analysis.SpecialFunctions.Trigonometric.ArctanDeriv
import Mathlib.Analysis.SpecialFunctions.Complex.Arg
import Mathlib.Tactic.Ring
import Mathlib.Tactic.FieldSimp
import Mathlib.Tactic.Linarith
import Mathlib.Tactic.Positivity
import Mathlib.Tactic.FinCases
/-! Calculus helper lemmas for C18: `arctan2` as `arctan` on the three half planes that cover
the complement of its branch cut, partial derivatives of the flow components. -/
namespace ModelR
open Real

/-- `G` is the spatial Jacobian of `u` at `x`: entry `(i, j)` is the derivative of component `i`
along coordinate `j` (all other coordinates held fixed). -/
def IsJacobianAt (u : Vec3 → Vec3) (G : Mat3) (x : Vec3) : Prop :=
  ∀ i j : Fin 3, HasDerivAt (fun s => u (Function.update x j s) i) (G i j) (x j)

/-! ### `arctan2` -/

theorem atan2_eq_arctan {y x : ℝ} (hx : 0 < x) : Ratan2 y x = Real.arctan (y / x) := by
  unfold Ratan2
  have h1 : |Complex.arg ⟨x, y⟩| < Real.pi / 2 := by
    rw [Complex.abs_arg_lt_pi_div_two_iff]; left; exact hx
  have h2 := Complex.tan_arg ⟨x, y⟩
  simp only at h2
  rw [← h2, Real.arctan_tan]
  · linarith [abs_lt.mp h1]
  · linarith [abs_lt.mp h1]

theorem atan2_of_pos {y x : ℝ} (hy : 0 < y) : Ratan2 y x = Real.arctan (-x / y) + π / 2 := by
  have hw := atan2_eq_arctan (y := -x) hy
  unfold Ratan2 at *
  have hz : (⟨x, y⟩ : ℂ) = (⟨y, -x⟩ : ℂ) * Complex.I := by
    apply Complex.ext <;> simp
  have hw0 : (⟨y, -x⟩ : ℂ) ≠ 0 := by
    intro h; have := congrArg Complex.re h; simp at this; linarith
  have hb := arctan_mem_Ioo (-x / y)
  rw [hz, (Complex.arg_mul_eq_add_arg_iff hw0 Complex.I_ne_zero).mpr, Complex.arg_I, hw]
  rw [Complex.arg_I, hw]
  constructor <;> linarith [hb.1, hb.2, pi_pos]

theorem atan2_of_neg {y x : ℝ} (hy : y < 0) : Ratan2 y x = Real.arctan (-x / y) - π / 2 := by
  have hy' : 0 < -y := by linarith
  have hw := atan2_eq_arctan (y := x) hy'
  unfold Ratan2 at *
  have hz : (⟨x, y⟩ : ℂ) = (⟨-y, x⟩ : ℂ) * (-Complex.I) := by
    apply Complex.ext <;> simp
  have hw0 : (⟨-y, x⟩ : ℂ) ≠ 0 := by
    intro h; have := congrArg Complex.re h; simp at this; linarith
  have hI : (-Complex.I) ≠ 0 := neg_ne_zero.mpr Complex.I_ne_zero
  have hb := arctan_mem_Ioo (x / -y)
  have e : -x / y = x / -y := by rw [neg_div, div_neg]
  rw [hz, (Complex.arg_mul_eq_add_arg_iff hw0 hI).mpr, Complex.arg_neg_I, hw, e]
  · ring
  rw [Complex.arg_neg_I, hw]
  constructor <;> linarith [hb.1, hb.2, pi_pos]

theorem hasDerivAt_arctan_div_right (c : ℝ) (hc : c ≠ 0) (x : ℝ) :
    HasDerivAt (fun s : ℝ => Real.arctan (s / c)) (c / (c * c + x * x)) x := by
  have h1 : HasDerivAt (fun s : ℝ => s / c) (1 / c) x := (hasDerivAt_id' x).div_const c
  have h2 := h1.arctan
  have hp : 0 < c * c + x * x := by have := mul_self_pos.mpr hc; nlinarith [mul_self_nonneg x]
  have hq : (0:ℝ) < 1 + (x / c) ^ 2 := by positivity
  refine h2.congr_deriv ?_
  field_simp

theorem hasDerivAt_arctan_div_left (c : ℝ) {x : ℝ} (hx : x ≠ 0) :
    HasDerivAt (fun s : ℝ => Real.arctan (c / s)) (-c / (x * x + c * c)) x := by
  have h0 : HasDerivAt (fun s : ℝ => s⁻¹) (-(x ^ 2)⁻¹) x := hasDerivAt_inv hx
  have h1 : HasDerivAt (fun s : ℝ => c * s⁻¹) (c * -(x ^ 2)⁻¹) x := h0.const_mul c
  have h2 := h1.arctan
  have hp : 0 < x * x + c * c := by have := mul_self_pos.mpr hx; nlinarith [mul_self_nonneg c]
  have hq : (0:ℝ) < 1 + (c * x⁻¹) ^ 2 := by positivity
  have e : (fun s : ℝ => Real.arctan (c / s)) = fun s => Real.arctan (c * s⁻¹) := by
    funext s; rw [div_eq_mul_inv]
  rw [e]
  refine h2.congr_deriv ?_
  field_simp

/-- the set where `arctan2(h, -v)` is differentiable: everything except the half line
`h = 0, v ≥ 0` (which contains the corner itself) -/
def OffCut (h v : ℝ) : Prop := v < 0 ∨ h ≠ 0

theorem sumsq_pos_of_offCut {h v : ℝ} (hc : OffCut h v) : 0 < h * h + v * v := by
  rcases hc with hv | hh
  · nlinarith [mul_self_nonneg h, mul_pos_of_neg_of_neg hv hv]
  · have := mul_self_pos.mpr hh; nlinarith [mul_self_nonneg v]

/-- `∂/∂h arctan2(h, -v) = -v / (h² + v²)` off the cut -/
theorem hasDerivAt_atan2_fst {h v : ℝ} (hc : OffCut h v) :
    HasDerivAt (fun s => Ratan2 s (-v)) (-v / (h * h + v * v)) h := by
  by_cases hv : v < 0
  · have hv' : 0 < -v := by linarith
    have e : (fun s => Ratan2 s (-v)) = fun s => Real.arctan (s / -v) := by
      funext s; exact atan2_eq_arctan hv'
    rw [e]
    refine (hasDerivAt_arctan_div_right (-v) hv'.ne' h).congr_deriv ?_
    congr 1; ring
  · have hh : h ≠ 0 := by
      rcases hc with h1 | h1
      · exact absurd h1 hv
      · exact h1
    rcases lt_or_gt_of_ne hh with hneg | hposh
    · have e : (fun s => Ratan2 s (-v)) =ᶠ[nhds h] fun s => Real.arctan (v / s) - π / 2 := by
        filter_upwards [gt_mem_nhds hneg] with s hs
        rw [atan2_of_neg hs, neg_neg]
      refine HasDerivAt.congr_of_eventuallyEq ?_ e
      exact ((hasDerivAt_arctan_div_left v hh).sub_const (π / 2))
    · have e : (fun s => Ratan2 s (-v)) =ᶠ[nhds h] fun s => Real.arctan (v / s) + π / 2 := by
        filter_upwards [lt_mem_nhds hposh] with s hs
        rw [atan2_of_pos hs, neg_neg]
      refine HasDerivAt.congr_of_eventuallyEq ?_ e
      exact ((hasDerivAt_arctan_div_left v hh).add_const (π / 2))

/-- `∂/∂v arctan2(h, -v) = h / (h² + v²)` off the cut -/
theorem hasDerivAt_atan2_snd {h v : ℝ} (hc : OffCut h v) :
    HasDerivAt (fun s => Ratan2 h (-s)) (h / (h * h + v * v)) v := by
  by_cases hv : v < 0
  · have e : (fun s => Ratan2 h (-s)) =ᶠ[nhds v] fun s => Real.arctan (-h / s) := by
      filter_upwards [gt_mem_nhds hv] with s hs
      rw [atan2_eq_arctan (by linarith), div_neg, neg_div]
    refine HasDerivAt.congr_of_eventuallyEq ?_ e
    refine (hasDerivAt_arctan_div_left (-h) hv.ne).congr_deriv ?_
    rw [neg_neg]; congr 1; ring
  · have hh : h ≠ 0 := by
      rcases hc with h1 | h1
      · exact absurd h1 hv
      · exact h1
    rcases lt_or_gt_of_ne hh with hneg | hposh
    · have e : (fun s => Ratan2 h (-s)) = fun s => Real.arctan (s / h) - π / 2 := by
        funext s; rw [atan2_of_neg hneg, neg_neg]
      rw [e]
      exact ((hasDerivAt_arctan_div_right h hh v).sub_const (π / 2))
    · have e : (fun s => Ratan2 h (-s)) = fun s => Real.arctan (s / h) + π / 2 := by
        funext s; rw [atan2_of_pos hposh, neg_neg]
      rw [e]
      exact ((hasDerivAt_arctan_div_right h hh v).add_const (π / 2))

/-! ### quotient rule with denominator `h² + v²` -/

theorem hasDerivAt_div_sumsq (f : ℝ → ℝ) (f' c x : ℝ) (hf : HasDerivAt f f' x)
    (hne : x * x + c ≠ 0) :
    HasDerivAt (fun s => f s / (s * s + c))
      ((f' * (x * x + c) - f x * (2 * x)) / (x * x + c) ^ 2) x := by
  have hd : HasDerivAt (fun s : ℝ => s * s + c) (2 * x) x := by
    have := ((hasDerivAt_id' x).fun_mul (hasDerivAt_id' x)).add_const c
    exact this.congr_deriv (by ring)
  exact hf.fun_div hd hne

theorem hasDerivAt_div_sumsq' (f : ℝ → ℝ) (f' c x : ℝ) (hf : HasDerivAt f f' x)
    (hne : c + x * x ≠ 0) :
    HasDerivAt (fun s => f s / (c + s * s))
      ((f' * (c + x * x) - f x * (2 * x)) / (c + x * x) ^ 2) x := by
  have hd : HasDerivAt (fun s : ℝ => c + s * s) (2 * x) x := by
    have := ((hasDerivAt_id' x).fun_mul (hasDerivAt_id' x)).const_add c
    exact this.congr_deriv (by ring)
  exact hf.fun_div hd hne

/-! ### the four non-trivial entries of the corner flow -/

theorem corner_d_hh (U : ℝ) {h v : ℝ} (hc : OffCut h v) :
    HasDerivAt (fun s => 2 * U / π * (Ratan2 s (-v) + s * v / (s * s + v * v)))
      (4 * U / (π * ((h * h + v * v) * (h * h + v * v))) * (-(h * h) * v)) h := by
  have hp := sumsq_pos_of_offCut hc
  have h1 := hasDerivAt_atan2_fst hc
  have h2 := hasDerivAt_div_sumsq (fun s => s * v) v (v * v) h
    ((hasDerivAt_id' h).mul_const v |>.congr_deriv (by ring)) hp.ne'
  refine ((h1.fun_add h2).const_mul (2 * U / π)).congr_deriv ?_
  have := pi_pos
  field_simp
  ring

theorem corner_d_vh (U : ℝ) {h v : ℝ} (hc : OffCut h v) :
    HasDerivAt (fun s => 2 * U / π * (v * v) / (s * s + v * v))
      (4 * U / (π * ((h * h + v * v) * (h * h + v * v))) * (-h * (v * v))) h := by
  have hp := sumsq_pos_of_offCut hc
  have h2 := hasDerivAt_div_sumsq (fun _ => 2 * U / π * (v * v)) 0 (v * v) h
    (hasDerivAt_const h _) hp.ne'
  refine h2.congr_deriv ?_
  have := pi_pos
  field_simp
  ring

theorem corner_d_hv (U : ℝ) {h v : ℝ} (hc : OffCut h v) :
    HasDerivAt (fun s => 2 * U / π * (Ratan2 h (-s) + h * s / (h * h + s * s)))
      (4 * U / (π * ((h * h + v * v) * (h * h + v * v))) * (h * h * h)) v := by
  have hp := sumsq_pos_of_offCut hc
  have h1 := hasDerivAt_atan2_snd hc
  have h2 := hasDerivAt_div_sumsq' (fun s => h * s) h (h * h) v
    ((hasDerivAt_id' v).const_mul h |>.congr_deriv (by ring)) hp.ne'
  refine ((h1.fun_add h2).const_mul (2 * U / π)).congr_deriv ?_
  have := pi_pos
  field_simp
  ring

theorem corner_d_vv (U : ℝ) {h v : ℝ} (hc : OffCut h v) :
    HasDerivAt (fun s => 2 * U / π * (s * s) / (h * h + s * s))
      (4 * U / (π * ((h * h + v * v) * (h * h + v * v))) * (h * h * v)) v := by
  have hp := sumsq_pos_of_offCut hc
  have hn : HasDerivAt (fun s : ℝ => 2 * U / π * (s * s)) (2 * U / π * (2 * v)) v := by
    have := ((hasDerivAt_id' v).fun_mul (hasDerivAt_id' v)).const_mul (2 * U / π)
    exact this.congr_deriv (by ring)
  have h2 := hasDerivAt_div_sumsq' (fun s => 2 * U / π * (s * s)) _ (h * h) v hn hp.ne'
  refine h2.congr_deriv ?_
  have := pi_pos
  field_simp
  ring

/-! ### the Stokes cell components -/

theorem hasDerivAt_cos_lin (d x : ℝ) :
    HasDerivAt (fun s => Real.cos (π * s / d)) (-(π / d) * Real.sin (π * x / d)) x := by
  have h1 : HasDerivAt (fun s : ℝ => π * s / d) (π / d) x := by
    have := ((hasDerivAt_id' x).const_mul π).div_const d
    exact this.congr_deriv (by ring)
  exact h1.cos.congr_deriv (by ring)

theorem hasDerivAt_sin_lin (d x : ℝ) :
    HasDerivAt (fun s => Real.sin (π * s / d)) (π / d * Real.cos (π * x / d)) x := by
  have h1 : HasDerivAt (fun s : ℝ => π * s / d) (π / d) x := by
    have := ((hasDerivAt_id' x).const_mul π).div_const d
    exact this.congr_deriv (by ring)
  exact h1.sin.congr_deriv (by ring)

/-! ### uniqueness of the Jacobian -/

theorem IsJacobianAt.unique {u : Vec3 → Vec3} {G G' : Mat3} {x : Vec3}
    (h : IsJacobianAt u G x) (h' : IsJacobianAt u G' x) : G = G' := by
  funext i j
  exact (h i j).unique (h' i j)

/-! ### the external `eigvalsh`: assumed spec and consequences -/

/-- Spec assumed for `np.linalg.eigvalsh` on a (symmetric) 3x3 matrix `S`: the three returned
numbers are the roots of the characteristic polynomial, with multiplicity. -/
def IsEigvals (S : Mat3) (w : Vec3) : Prop :=
  ∀ t : ℝ, charPoly3 S t = (w 0 - t) * (w 1 - t) * (w 2 - t)

theorem max2_eq_max (x y : ℝ) : max2 x y = max x y := by
  unfold max2; split_ifs with h
  · exact (max_eq_right h.le).symm
  · exact (max_eq_left (not_lt.mp h)).symm

theorem maxAbs3_eq (w : Vec3) : maxAbs3 w = max (max |w 0| |w 1|) |w 2| := by
  simp [maxAbs3, max2_eq_max, Rabs]

theorem maxAbs3_nonneg (w : Vec3) : 0 ≤ maxAbs3 w := by
  rw [maxAbs3_eq]; exact le_max_of_le_right (abs_nonneg _)

theorem le_maxAbs3 (w : Vec3) (i : Fin 3) : |w i| ≤ maxAbs3 w := by
  rw [maxAbs3_eq]
  fin_cases i
  · exact le_max_of_le_left (le_max_left _ _)
  · exact le_max_of_le_left (le_max_right _ _)
  · exact le_max_right _ _

theorem maxAbs3_attained (w : Vec3) : ∃ i : Fin 3, maxAbs3 w = |w i| := by
  rw [maxAbs3_eq]
  rcases max_choice (max |w 0| |w 1|) |w 2| with h | h
  · rcases max_choice |w 0| |w 1| with h' | h'
    · exact ⟨0, by rw [h, h']⟩
    · exact ⟨1, by rw [h, h']⟩
  · exact ⟨2, h⟩

/-- under the spec, the roots of the characteristic polynomial are exactly the returned values -/
theorem IsEigvals.root_iff {S : Mat3} {w : Vec3} (h : IsEigvals S w) (μ : ℝ) :
    charPoly3 S μ = 0 ↔ ∃ i : Fin 3, w i = μ := by
  rw [h μ]
  constructor
  · intro h0
    rcases mul_eq_zero.mp h0 with h1 | h1
    · rcases mul_eq_zero.mp h1 with h2 | h2
      · exact ⟨0, by linarith⟩
      · exact ⟨1, by linarith⟩
    · exact ⟨2, by linarith⟩
  · rintro ⟨i, rfl⟩
    fin_cases i <;> simp

/-! ### the terminal event -/

theorem terminateCall_inside (s : EvState) (t r : ℝ) :
    terminateCall s t true r =
      (s.strain + (t - s.tprev) * r, ⟨s.strain + (t - s.tprev) * r, t⟩) := by
  unfold terminateCall
  simp only [if_true, Rabs]
  split_ifs with h
  · have : |t - s.tprev| = t - s.tprev := abs_of_pos (by linarith)
    rw [this]
  · have : |t - s.tprev| = -(t - s.tprev) := abs_of_nonpos (by linarith [not_lt.mp h])
    rw [this]
    have e : s.strain - -(t - s.tprev) * r = s.strain + (t - s.tprev) * r := by ring
    rw [e]

theorem terminateCall_outside (s : EvState) (t r : ℝ) : terminateCall s t false r = (0, s) := by
  simp [terminateCall]

end ModelR
