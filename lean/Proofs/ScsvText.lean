import ModelD.ScsvText
/-! Helper lemmas about the text primitives of the SCSV model (C16): `strip`, `str(int)`/`int(str)`,
line splitting. Core tactics only. -/
namespace Scsv

/-! ## strip -/

theorem dropWhile_eq_self_of_head {α} (p : α → Bool) (l : List α)
    (h : ∀ a, l.head? = some a → p a = false) : l.dropWhile p = l := by
  cases l with
  | nil => rfl
  | cons a t => simp [List.dropWhile, h a rfl]

theorem lstrip_eq_self (s : Str) (h : ∀ a, s.head? = some a → isSpacePy a = false) : lstrip s = s :=
  dropWhile_eq_self_of_head _ _ h

theorem rstrip_eq_self (s : Str) (h : ∀ a, s.getLast? = some a → isSpacePy a = false) : rstrip s = s := by
  unfold rstrip
  rw [dropWhile_eq_self_of_head]
  · simp
  · intro a ha; apply h; simpa [List.head?_reverse] using ha

/-- a string without any whitespace character is its own `strip()` -/
theorem strip_eq_self_of_no_space (s : Str) (h : ∀ c ∈ s, isSpacePy c = false) : strip s = s := by
  unfold strip
  rw [lstrip_eq_self s (fun a ha => h a (List.mem_of_mem_head? ha))]
  exact rstrip_eq_self s (fun a ha => h a (List.mem_of_mem_getLast? ha))

/-! ## str(int) / int(str) -/

theorem digitChar_toNat (d : Nat) (h : d < 10) : (digitChar d).toNat = 0x30 + d := by
  unfold digitChar
  have : (0x30 + d).isValidChar := by
    simp [Nat.isValidChar]; omega
  simp [Char.ofNat, this, Char.toNat, Char.ofNatAux]
  omega

theorem isAsciiDigit_digitChar (d : Nat) (h : d < 10) : isAsciiDigit (digitChar d) = true := by
  simp [isAsciiDigit, digitChar_toNat d h]; omega

theorem digitVal_digitChar (d : Nat) (h : d < 10) : digitVal (digitChar d) = d := by
  simp [digitVal, digitChar_toNat d h]

theorem parseDigitsAux_append_digit (s : Str) (acc : Nat) (b : Bool) (d : Nat) (hd : d < 10) (r : Nat)
    (h : parseDigitsAux s acc b = some r) (hs : ∀ c ∈ s, isAsciiDigit c = true) :
    parseDigitsAux (s ++ [digitChar d]) acc b = some (r * 10 + d) := by
  induction s generalizing acc b with
  | nil =>
    simp [parseDigitsAux] at h ⊢
    simp [isAsciiDigit_digitChar d hd, digitVal_digitChar d hd, parseDigitsAux]
    omega
  | cons c cs ih =>
    have hc := hs c (by simp)
    simp [parseDigitsAux, hc] at h ⊢
    exact ih _ _ h (fun c' hc' => hs c' (by simp [hc']))

theorem natDigitsFuel_spec (fuel n : Nat) (hf : n < fuel) :
    (∀ c ∈ natDigitsFuel fuel n, isAsciiDigit c = true) ∧ natDigitsFuel fuel n ≠ [] ∧
    ∃ c cs, natDigitsFuel fuel n = c :: cs ∧ parseDigitsAux cs (digitVal c) true = some n := by
  induction fuel generalizing n with
  | zero => omega
  | succ k ih =>
    unfold natDigitsFuel
    split
    · rename_i h
      refine ⟨by simp [isAsciiDigit_digitChar n h], by simp, digitChar n, [], rfl, ?_⟩
      simp [parseDigitsAux, digitVal_digitChar n h]
    · rename_i h
      obtain ⟨h1, h2, c, cs, h3, h4⟩ := ih (n / 10) (by omega)
      have hd : n % 10 < 10 := by omega
      refine ⟨?_, by simp, c, cs ++ [digitChar (n % 10)], by simp [h3], ?_⟩
      · intro c' hc'
        simp at hc'
        rcases hc' with hc' | hc'
        · exact h1 c' hc'
        · subst hc'; exact isAsciiDigit_digitChar _ hd
      · have := parseDigitsAux_append_digit cs (digitVal c) true (n % 10) hd (n / 10) h4
          (fun c' hc' => h1 c' (by simp [h3, hc']))
        rw [this]; congr 1; omega

theorem natDigits_spec (n : Nat) :
    (∀ c ∈ natDigits n, isAsciiDigit c = true) ∧ natDigits n ≠ [] ∧
    ∃ c cs, natDigits n = c :: cs ∧ parseDigitsAux cs (digitVal c) true = some n :=
  natDigitsFuel_spec (n + 1) n (by omega)

theorem parseDigits_natDigits (n : Nat) : parseDigits (natDigits n) = some n := by
  obtain ⟨h1, _, c, cs, h3, h4⟩ := natDigits_spec n
  rw [h3]
  have hc : isAsciiDigit c = true := h1 c (by simp [h3])
  simp [parseDigits, hc, h4]

theorem isSpacePy_of_digit (c : Char) (h : isAsciiDigit c = true) : isSpacePy c = false := by
  simp [isAsciiDigit] at h
  simp [isSpacePy]; omega

theorem isSpaceInt_le (c : Char) (h : isSpacePy c = false) : isSpaceInt c = false := by
  simp [isSpaceInt, h]

/-- every character of `str(i)` is a digit or `-` -/
theorem pyStrInt_chars (i : Int) : ∀ c ∈ pyStrInt i, isAsciiDigit c = true ∨ c = '-' := by
  intro c hc
  unfold pyStrInt at hc
  split at hc
  · simp at hc
    rcases hc with hc | hc
    · exact Or.inr hc
    · exact Or.inl ((natDigits_spec _).1 c hc)
  · exact Or.inl ((natDigits_spec _).1 c hc)

theorem pyStrInt_ne_nil (i : Int) : pyStrInt i ≠ [] := by
  unfold pyStrInt; split
  · simp
  · exact (natDigits_spec _).2.1

theorem pyStrInt_no_space (i : Int) : ∀ c ∈ pyStrInt i, isSpacePy c = false := by
  intro c hc
  rcases pyStrInt_chars i c hc with h | h
  · exact isSpacePy_of_digit c h
  · subst h; decide

theorem stripInt_eq_self_of_no_space (s : Str) (h : ∀ c ∈ s, isSpacePy c = false) : stripInt s = s := by
  unfold stripInt
  rw [dropWhile_eq_self_of_head _ s (fun a ha => isSpaceInt_le a (h a (List.mem_of_mem_head? ha)))]
  rw [dropWhile_eq_self_of_head]
  · simp
  · intro a ha
    apply isSpaceInt_le; apply h
    have : s.getLast? = some a := by simpa [List.head?_reverse] using ha
    exact List.mem_of_mem_getLast? this

/-- **`int(str(i)) == i`** -/
theorem pyIntOfStr_pyStrInt (i : Int) : pyIntOfStr (pyStrInt i) = some i := by
  unfold pyIntOfStr
  rw [stripInt_eq_self_of_no_space _ (pyStrInt_no_space i)]
  by_cases hneg : i < 0
  · have e : pyStrInt i = '-' :: natDigits i.natAbs := by simp [pyStrInt, hneg]
    rw [e]
    simp [parseDigits_natDigits]; omega
  · have e : pyStrInt i = natDigits i.natAbs := by simp [pyStrInt, hneg]
    rw [e]
    obtain ⟨h1, _, c, cs, h3, _⟩ := natDigits_spec i.natAbs
    have hc : isAsciiDigit c = true := h1 c (by simp [h3])
    have hm : c ≠ '-' := by intro e; subst e; simp [isAsciiDigit] at hc
    have hp : c ≠ '+' := by intro e; subst e; simp [isAsciiDigit] at hc
    have := parseDigits_natDigits i.natAbs
    rw [h3] at this ⊢
    split
    · rename_i heq; simp at heq; exact absurd heq.1 hm
    · rename_i heq; simp at heq; exact absurd heq.1 hp
    · simp [this]; omega

/-! ## lines -/

theorem universalNewlines_eq_self (s : Str) (h : '\r' ∉ s) : universalNewlines s = s := by
  fun_induction universalNewlines s <;> simp_all

theorem splitLinesAux_line (l rest cur : Str) (h : '\n' ∉ l) :
    splitLinesAux (l ++ '\n' :: rest) cur = (cur.reverse ++ l ++ ['\n']) :: splitLinesAux rest [] := by
  induction l generalizing cur with
  | nil => simp [splitLinesAux]
  | cons c cs ih =>
    have hc : c ≠ '\n' := fun e => h (by simp [e])
    have hcs : '\n' ∉ cs := fun e => h (by simp [e])
    simp [splitLinesAux, hc, ih _ hcs]

/-- iterating over a text made of `\n`-terminated lines gives back those lines -/
theorem splitLines_flatMap (ls : List Str) (h : ∀ l ∈ ls, '\n' ∉ l) :
    splitLines (ls.flatMap (· ++ ['\n'])) = ls.map (· ++ ['\n']) := by
  unfold splitLines
  induction ls with
  | nil => simp [splitLinesAux]
  | cons l ls ih =>
    simp only [List.flatMap_cons, List.map_cons, List.append_assoc, List.singleton_append]
    rw [splitLinesAux_line l _ [] (h l (by simp))]
    simp [ih (fun l' hl' => h l' (by simp [hl']))]

/-! ## identifiers -/

theorem idContinue_range (c : Char) (h : isIdContinue c = true) :
    (0x30 ≤ c.toNat ∧ c.toNat ≤ 0x39) ∨ (0x41 ≤ c.toNat ∧ c.toNat ≤ 0x5A) ∨ c.toNat = 0x5F ∨
    (0x61 ≤ c.toNat ∧ c.toNat ≤ 0x7A) ∨ c.toNat = 0xAA ∨ c.toNat = 0xB5 ∨ c.toNat = 0xB7 ∨ c.toNat = 0xBA ∨
    (0xC0 ≤ c.toNat ∧ c.toNat ≤ 0xFF) := by
  simp [isIdContinue, isIdStart, isAsciiLetter, isAsciiDigit] at h
  omega

theorem idStart_continue (c : Char) (h : isIdStart c = true) : isIdContinue c = true := by
  simp [isIdContinue, h]

theorem isIdentifier_chars (s : Str) (h : isIdentifier s = true) : ∀ c ∈ s, isIdContinue c = true := by
  cases s with
  | nil => simp [isIdentifier] at h
  | cons a t =>
    simp [isIdentifier] at h
    intro c hc
    simp at hc
    rcases hc with hc | hc
    · subst hc; exact idStart_continue _ h.1
    · exact h.2 c hc

theorem isSpacePy_of_idContinue (c : Char) (h : isIdContinue c = true) : isSpacePy c = false := by
  have := idContinue_range c h
  simp [isSpacePy]; omega

theorem strip_identifier (s : Str) (h : isIdentifier s = true) : strip s = s :=
  strip_eq_self_of_no_space s (fun c hc => isSpacePy_of_idContinue c (isIdentifier_chars s h c hc))

theorem toNat_ne_of_ne_char {c : Char} {k : Char} (h : c.toNat ≠ k.toNat) : c ≠ k := fun e => h (by rw [e])

end Scsv
