import ModelD.Params
import Mathlib.Data.List.Basic
/-! Helper lemmas for C19: the dataclass model (`ModelD.Params`). -/
namespace ModelD.Params
open List

theorem fieldsOf_initOwner (cls : Cls) : fieldsOf (initOwner cls) = fieldsOf cls := by
  induction cls with
  | nil => rfl
  | cons c bases ih =>
    by_cases h : c.decorated
    · simp [initOwner, h]
    · simp [initOwner, fieldsOf, h, ih]

/-- looking a field up by name in the list built from the fields themselves -/
theorem lookup_map_fields (fs : List Field) (val : Field → PyVal)
    (hnd : (fs.map (·.name)).Nodup) (g : Field) (hg : g ∈ fs) :
    (fs.map (fun f => (f.name, val f))).lookup g.name = some (val g) := by
  induction fs with
  | nil => simp at hg
  | cons f rest ih =>
    simp only [map_cons, nodup_cons] at hnd
    rcases mem_cons.mp hg with rfl | hg'
    · simp
    · have hne : g.name ≠ f.name := by
        intro h; exact hnd.1 (by rw [← h]; exact mem_map_of_mem hg')
      have : (g.name == f.name) = false := by simp [hne]
      simp [List.lookup, this, ih hnd.2 hg']

/-- keyword arguments rebuilt from `as_dict()` -/
def toKwargs (d : List (String × Option PyVal)) : List (String × PyVal) :=
  d.filterMap (fun kv => kv.2.map (fun v => (kv.1, v)))

theorem instantiate_attrs (cls : Cls) (kw : List (String × PyVal)) (d : Instance)
    (h : instantiate cls kw = .ok d) :
    d.cls = cls ∧ d.attrs = (fieldsOf cls).map (fun f => (f.name, (kw.lookup f.name).getD f.default)) ∧
    postInitOk cls = true := by
  unfold instantiate at h
  simp only [fieldsOf_initOwner] at h
  split at h
  · simp at h
  · split at h
    · rename_i hp
      simp only [Except.ok.injEq] at h
      subst h
      exact ⟨rfl, rfl, hp⟩
    · simp at h

theorem getattr_field (cls : Cls) (kw : List (String × PyVal)) (d : Instance)
    (h : instantiate cls kw = .ok d) (hnd : ((fieldsOf cls).map (·.name)).Nodup)
    (g : Field) (hg : g ∈ fieldsOf cls) :
    getattr d g.name = some ((kw.lookup g.name).getD g.default) := by
  obtain ⟨_, ha, _⟩ := instantiate_attrs cls kw d h
  simp only [getattr, ha]
  rw [lookup_map_fields (fieldsOf cls) (fun f => (kw.lookup f.name).getD f.default) hnd g hg]

theorem asDict_eq (cls : Cls) (kw : List (String × PyVal)) (d : Instance)
    (h : instantiate cls kw = .ok d) (hnd : ((fieldsOf cls).map (·.name)).Nodup) :
    asDict d = (fieldsOf cls).map (fun f => (f.name, some ((kw.lookup f.name).getD f.default))) := by
  obtain ⟨hc, _, _⟩ := instantiate_attrs cls kw d h
  simp only [asDict, hc]
  apply map_congr_left
  intro g hg
  rw [getattr_field cls kw d h hnd g hg]

theorem roundtrip (cls : Cls) (kw : List (String × PyVal)) (d : Instance)
    (hnd : ((fieldsOf cls).map (·.name)).Nodup) (h : instantiate cls kw = .ok d) :
    instantiate cls (toKwargs (asDict d)) = .ok d := by
  obtain ⟨hc, ha, hp⟩ := instantiate_attrs cls kw d h
  rw [asDict_eq cls kw d h hnd]
  have hkw : toKwargs ((fieldsOf cls).map (fun f => (f.name, some ((kw.lookup f.name).getD f.default))))
      = (fieldsOf cls).map (fun f => (f.name, (kw.lookup f.name).getD f.default)) := by
    simp [toKwargs, filterMap_map]
  rw [hkw]
  unfold instantiate
  simp only [fieldsOf_initOwner]
  have hno : ((fieldsOf cls).map (fun f => (f.name, (kw.lookup f.name).getD f.default))).any
      (fun kv => !((fieldsOf cls).any (·.name == kv.1))) = false := by
    rw [any_eq_false]
    intro kv hkv
    simp only [mem_map] at hkv
    obtain ⟨f, hf, rfl⟩ := hkv
    have : (fieldsOf cls).any (fun x => x.name == f.name) = true := by
      rw [any_eq_true]; exact ⟨f, hf, by simp⟩
    simp [this]
  simp only [hno, Bool.false_eq_true, if_false, hp, if_true]
  have hmap : (fieldsOf cls).map (fun f => (f.name,
        (((fieldsOf cls).map (fun f => (f.name, (kw.lookup f.name).getD f.default))).lookup f.name).getD f.default))
      = (fieldsOf cls).map (fun f => (f.name, (kw.lookup f.name).getD f.default)) := by
    apply map_congr_left
    intro g hg
    rw [lookup_map_fields (fieldsOf cls) (fun f => (kw.lookup f.name).getD f.default) hnd g hg]
    rfl
  rw [hmap, ← ha, ← hc]
/-! ### dataclass field collection -/
theorem setField_names (fs : List Field) (f : Field) :
    (setField fs f).map (·.name) = if fs.any (·.name == f.name) then fs.map (·.name) else fs.map (·.name) ++ [f.name] := by
  unfold setField
  split
  · simp only [map_map]
    apply map_congr_left
    intro g _
    simp only [Function.comp]
    split
    · rename_i h; simp at h; exact h.symm
    · rfl
  · simp

theorem setField_nodup (fs : List Field) (f : Field) (h : (fs.map (·.name)).Nodup) :
    ((setField fs f).map (·.name)).Nodup := by
  rw [setField_names]
  split
  · exact h
  · rename_i hany
    rw [nodup_append]
    refine ⟨h, by simp, ?_⟩
    intro a ha b hb
    simp only [mem_singleton] at hb
    subst hb
    intro hab
    subst hab
    apply hany
    rw [any_eq_true]
    obtain ⟨g, hg, hgn⟩ := mem_map.mp ha
    exact ⟨g, hg, by simp [hgn]⟩

theorem mem_setField_self (fs : List Field) (f : Field) : f ∈ setField fs f := by
  unfold setField
  split
  · rename_i hany
    rw [any_eq_true] at hany
    obtain ⟨g, hg, hgn⟩ := hany
    rw [mem_map]
    exact ⟨g, hg, by simp [hgn]⟩
  · simp

theorem mem_setField_other (fs : List Field) (f g : Field) (hg : g ∈ fs) (hne : g.name ≠ f.name) :
    g ∈ setField fs f := by
  unfold setField
  split
  · rw [mem_map]
    refine ⟨g, hg, ?_⟩
    have : (g.name == f.name) = false := by simp [hne]
    simp [this]
  · simp [hg]

theorem foldl_setField_nodup (fs : List Field) (ann : List Field) (h : (fs.map (·.name)).Nodup) :
    ((ann.foldl setField fs).map (·.name)).Nodup := by
  induction ann generalizing fs with
  | nil => exact h
  | cons a rest ih => exact ih _ (setField_nodup fs a h)

theorem mem_foldl_setField (fs : List Field) (ann : List Field) (hnd : (ann.map (·.name)).Nodup)
    (f : Field) (hf : f ∈ ann) : f ∈ ann.foldl setField fs := by
  induction ann generalizing fs with
  | nil => simp at hf
  | cons a rest ih =>
    simp only [map_cons, nodup_cons] at hnd
    simp only [foldl_cons]
    rcases mem_cons.mp hf with rfl | hf'
    · -- f inserted first, later insertions have other names
      have key : ∀ (l : List Field) (gs : List Field), f ∈ gs → (∀ x ∈ l, x.name ≠ f.name) → f ∈ l.foldl setField gs := by
        intro l
        induction l with
        | nil => intro gs h _; exact h
        | cons b bs ihb =>
          intro gs h hne
          simp only [foldl_cons]
          apply ihb
          · exact mem_setField_other gs b f h (fun e => hne b (by simp) e.symm)
          · intro x hx; exact hne x (by simp [hx])
      apply key rest _ (mem_setField_self fs f)
      intro x hx hxe
      exact hnd.1 (by rw [← hxe]; exact mem_map_of_mem hx)
    · exact ih _ hnd.2 hf'


end ModelD.Params
