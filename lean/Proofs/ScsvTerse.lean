import ModelD.ScsvTerse
import Proofs.ScsvValidate
/-! `parse_scsv_schema` (C16, extension): what the terse notation denotes, and what it refuses. -/
namespace Scsv

/-! ## error cases -/

theorem parseTerse_not_d (s : Str) (h : s.head? ≠ some 'd') : parseTerse s = .error .scsv := by
  unfold parseTerse
  split
  · rename_i t; simp at h
  · rfl

theorem parseTerse_no_colon (s : Str) (h : findChar ':' s = none) : parseTerse s = .error .scsv := by
  unfold parseTerse
  split
  · simp [h]
  · rfl

theorem parseTerse_early_colon (s : Str) (ic : Nat) (h : findChar ':' s = some ic) (h4 : ic < 4) :
    parseTerse s = .error .scsv := by
  unfold parseTerse
  split
  · simp [h, h4]
  · rfl

theorem parseTerse_no_m (s : Str) (ic : Nat) (h : findChar ':' s = some ic)
    (hm : findChar 'm' (s.take ic) = none ∨ ∃ im, findChar 'm' (s.take ic) = some im ∧ im < 2) :
    parseTerse s = .error .scsv := by
  unfold parseTerse
  split
  · simp only [h]
    split
    · rfl
    · rcases hm with hm | ⟨im, hm, h2⟩
      · simp [hm]
      · simp [hm, h2]
  · rfl

/-- every error of the terse parser is the SCSV error -/
theorem terseTypeOf_error (code : Str) (e : Err) (h : terseTypeOf code = .error e) : e = .scsv := by
  unfold terseTypeOf at h
  split at h
  · cases h
  · split at h
    · cases h
    · cases h; rfl

theorem terseField_error (name spec : Str) (e : Err) (h : terseField name spec = .error e) : e = .scsv := by
  unfold terseField at h
  simp only [Except.map] at h
  split at h
  · rename_i e' heq; cases h; exact terseTypeOf_error _ _ heq
  · cases h

theorem terseFields_error (raw : List Str) (e : Err) (h : terseFields raw = .error e) : e = .scsv := by
  fun_induction terseFields raw with
  | case1 name spec rest ih =>
    simp only [bind, Except.bind] at h
    split at h
    · rename_i e' heq; cases h; exact terseField_error name spec _ heq
    · rename_i f heq
      split at h
      · rename_i e' heq'; cases h; exact ih heq'
      · cases h
  | case2 raw hne => cases h

theorem parseTerse_error (s : Str) (e : Err) (h : parseTerse s = .error e) : e = .scsv := by
  unfold parseTerse at h
  split at h
  · split at h
    · cases h; rfl
    · split at h
      · cases h; rfl
      · split at h
        · cases h; rfl
        · split at h
          · cases h; rfl
          · dsimp only at h
            split at h
            · cases h; rfl
            · split at h
              · cases h; rfl
              · simp only [Except.map] at h
                split at h
                · rename_i e' heq; cases h; exact terseFields_error _ _ heq
                · cases h
  · cases h; rfl

/-! ## shape of the result -/

theorem terseTypeOf_known (code ty : Str) (h : terseTypeOf code = .ok ty) : ∃ t, typeOf ty = some t := by
  unfold terseTypeOf at h
  split at h
  · cases h; exact ⟨.str, by decide⟩
  · split at h
    · rename_i ty' hty
      cases h
      unfold terseType at hty
      split at hty
      · cases hty; exact ⟨.str, by decide⟩
      · split at hty
        · cases hty; exact ⟨.int, by decide⟩
        · split at hty
          · cases hty; exact ⟨.float, by decide⟩
          · split at hty
            · cases hty; exact ⟨.bool, by decide⟩
            · split at hty
              · cases hty; exact ⟨.complex, by decide⟩
              · cases hty
    · cases h

theorem terseField_shape (name spec : Str) (f : Field) (h : terseField name spec = .ok f) :
    f.name = some name ∧ (∃ t, typeOf f.typeName = some t) ∧ f.fill.isSome = true := by
  unfold terseField at h
  simp only [Except.map] at h
  split at h
  · cases h
  · rename_i ty heq
    cases h
    exact ⟨rfl, by simpa [Field.typeName] using terseTypeOf_known _ ty heq, rfl⟩

theorem terseFields_shape (raw : List Str) (fs : List Field) (h : terseFields raw = .ok fs) :
    ∀ f ∈ fs, f.name.isSome = true ∧ (∃ t, typeOf f.typeName = some t) ∧ f.fill.isSome = true := by
  fun_induction terseFields raw generalizing fs with
  | case1 name spec rest ih =>
    simp only [bind, Except.bind] at h
    split at h
    · cases h
    · rename_i f heq
      split at h
      · cases h
      · rename_i fs' heq'
        simp only [pure, Except.pure] at h
        cases h
        intro g hg
        simp only [List.mem_cons] at hg
        rcases hg with rfl | hg
        · obtain ⟨h1, h2, h3⟩ := terseField_shape name spec _ heq
          exact ⟨by simp [h1], h2, h3⟩
        · exact ih fs' heq' g hg
  | case2 raw hne => cases h; simp

/-- **the terse parser always produces a complete schema**: the three keys, at least one field, and
every field with a name, a known type and a fill (the default fill is the empty string). Hence
`_validate_scsv_schema` can never raise on it; it can only say `False` (non-identifier name,
delimiter equal to / contained in the missing marker). -/
theorem parseTerse_shape (s : Str) (sch : Schema) (h : parseTerse s = .ok sch) :
    ∃ d m fs, sch = ⟨some d, some m, some fs⟩ ∧ fs ≠ [] ∧
      ∀ f ∈ fs, f.name.isSome = true ∧ (∃ t, typeOf f.typeName = some t) ∧ f.fill.isSome = true := by
  unfold parseTerse at h
  split at h
  · split at h
    · cases h
    · split at h
      · cases h
      · split at h
        · cases h
        · split at h
          · cases h
          · dsimp only at h
            split at h
            · cases h
            · split at h
              · cases h
              · rename_i hlen2 hpar
                simp only [Except.map] at h
                split at h
                · cases h
                · rename_i fs heq
                  cases h
                  refine ⟨_, _, fs, rfl, ?_, terseFields_shape _ fs heq⟩
                  intro e; subst e
                  -- at least two raw column specs give at least one field
                  revert heq hlen2
                  generalize (splitParens _).dropLast = raw
                  intro hlen2 heq
                  match raw, hlen2, heq with
                  | [], h2, _ => simp at h2
                  | [_], h2, _ => simp at h2
                  | n :: sp :: rest, _, heq =>
                    simp only [terseFields, bind, Except.bind] at heq
                    split at heq
                    · cases heq
                    · split at heq
                      · cases heq
                      · simp [pure, Except.pure] at heq
  · cases h

theorem validate_parseTerse_total (s : Str) (sch : Schema) (_h : parseTerse s = .ok sch) :
    ∃ b, validate sch = .ok b := validate_total sch

/-! ## what the notation denotes: parser ∘ printer -/

/-- one column of the terse notation: `name(code:fill:unit)`; a unit needs a fill -/
structure TCol where
  name : Str
  code : Str                 -- "" (default string) or one of s i f b c
  fill : Option Str
  unit : Option Str

def TCol.spec (c : TCol) : Str :=
  c.code ++ (match c.fill with
    | none => []
    | some f => ':' :: f ++ (match c.unit with | none => [] | some u => ':' :: u))

def TCol.print (c : TCol) : Str := c.name ++ '(' :: c.spec ++ [')']

/-- the terse notation for a delimiter, a missing marker and columns -/
def printTerse (d m : Str) (cols : List TCol) : Str :=
  'd' :: d ++ 'm' :: m ++ ':' :: cols.flatMap TCol.print

def NoParen (s : Str) : Prop := '(' ∉ s ∧ ')' ∉ s

instance (s : Str) : Decidable (NoParen s) := by unfold NoParen; infer_instance

/-- the column is expressible: known type code, no parentheses anywhere, no colon inside the
type code / fill / unit, and a unit only together with a fill -/
structure TCol.OK (c : TCol) : Prop where
  code : c.code = [] ∨ (terseType c.code).isSome = true
  name : NoParen c.name
  codeChars : NoParen c.code ∧ ':' ∉ c.code
  fill : ∀ f, c.fill = some f → NoParen f ∧ ':' ∉ f
  unit : ∀ u, c.unit = some u → NoParen u ∧ ':' ∉ u
  unitNeedsFill : c.unit.isSome = true → c.fill.isSome = true

/-- the field the column denotes -/
def TCol.field (c : TCol) : Field :=
  ⟨some c.name, some (if c.code = [] then defaultType else (terseType c.code).getD defaultType),
   (if c.fill.isSome then c.unit else none), some (.str (c.fill.getD []))⟩

theorem findChar_append (c : Char) (a b : Str) (h : c ∉ a) : findChar c (a ++ c :: b) = some a.length := by
  induction a with
  | nil => simp [findChar]
  | cons x t ih =>
    have hx : x ≠ c := fun e => h (by simp [e])
    simp [findChar, hx, ih (fun e => h (by simp [e]))]

theorem splitParens_ne_nil (s : Str) : splitParens s ≠ [] := by
  induction s with
  | nil => simp [splitParens]
  | cons c t ih =>
    unfold splitParens
    split
    · simp
    · split <;> simp

theorem splitParens_seg (a rest : Str) (p : Char) (hp : p = '(' ∨ p = ')') (ha : NoParen a) :
    splitParens (a ++ p :: rest) = a :: splitParens rest := by
  induction a with
  | nil =>
    obtain ⟨h, t, ht⟩ := List.exists_cons_of_ne_nil (splitParens_ne_nil rest)
    simp [splitParens, ht, hp]
  | cons c t ih =>
    have hc : ¬ (c = '(' ∨ c = ')') := by
      rintro (e | e) <;> subst e
      · exact ha.1 (by simp)
      · exact ha.2 (by simp)
    have iht := ih ⟨fun e => ha.1 (by simp [e]), fun e => ha.2 (by simp [e])⟩
    simp only [List.cons_append, splitParens, iht, hc, if_false]

theorem splitColon_ne_nil (s : Str) : splitColon s ≠ [] := by
  induction s with
  | nil => simp [splitColon]
  | cons c t ih =>
    unfold splitColon
    split
    · simp
    · split <;> simp

theorem splitColon_seg (a rest : Str) (ha : ':' ∉ a) : splitColon (a ++ ':' :: rest) = a :: splitColon rest := by
  induction a with
  | nil =>
    obtain ⟨h, t, ht⟩ := List.exists_cons_of_ne_nil (splitColon_ne_nil rest)
    simp [splitColon, ht]
  | cons c t ih =>
    have hc : c ≠ ':' := fun e => ha (by simp [e])
    simp only [List.cons_append, splitColon, ih (fun e => ha (by simp [e])), hc, if_false]

theorem splitColon_last (a : Str) (ha : ':' ∉ a) : splitColon a = [a] := by
  induction a with
  | nil => simp [splitColon]
  | cons c t ih =>
    have hc : c ≠ ':' := fun e => ha (by simp [e])
    simp only [splitColon, ih (fun e => ha (by simp [e])), hc, if_false]

theorem splitColon_spec (c : TCol) (h : c.OK) :
    splitColon c.spec = c.code :: (match c.fill with
      | none => []
      | some f => f :: (match c.unit with | none => [] | some u => [u])) := by
  unfold TCol.spec
  cases hf : c.fill with
  | none => simp [splitColon_last _ h.codeChars.2]
  | some f =>
    have hf' := (h.fill f hf).2
    cases hu : c.unit with
    | none => simp [splitColon_seg _ _ h.codeChars.2, splitColon_last _ hf']
    | some u =>
      have hu' := (h.unit u hu).2
      simp [splitColon_seg _ _ h.codeChars.2, splitColon_seg _ _ hf', splitColon_last _ hu']

theorem noParen_append (a b : Str) : NoParen (a ++ b) ↔ NoParen a ∧ NoParen b := by
  simp only [NoParen, List.mem_append, not_or]; constructor
  · rintro ⟨⟨h1, h2⟩, h3, h4⟩; exact ⟨⟨h1, h3⟩, h2, h4⟩
  · rintro ⟨⟨h1, h3⟩, h2, h4⟩; exact ⟨⟨h1, h2⟩, h3, h4⟩

theorem noParen_colon_cons (a : Str) (h : NoParen a) : NoParen (':' :: a) := by
  refine ⟨?_, ?_⟩ <;> simp only [List.mem_cons, not_or]
  · exact ⟨by decide, h.1⟩
  · exact ⟨by decide, h.2⟩

theorem spec_noParen (c : TCol) (h : c.OK) : NoParen c.spec := by
  unfold TCol.spec
  rw [noParen_append]
  refine ⟨h.codeChars.1, ?_⟩
  cases hf : c.fill with
  | none => exact ⟨by simp, by simp⟩
  | some f =>
    have hf' := (h.fill f hf).1
    apply noParen_colon_cons
    show NoParen (f ++ _)
    rw [noParen_append]
    refine ⟨hf', ?_⟩
    cases hu : c.unit with
    | none => exact ⟨by simp, by simp⟩
    | some u => exact noParen_colon_cons u (h.unit u hu).1

theorem terseTypeOf_col (c : TCol) (h : c.OK) :
    terseTypeOf c.code = .ok (if c.code = [] then defaultType else (terseType c.code).getD defaultType) := by
  unfold terseTypeOf
  rcases h.code with hc | hc
  · simp [hc]
  · obtain ⟨ty, hty⟩ := Option.isSome_iff_exists.mp hc
    have hne : c.code ≠ [] := by intro e; rw [e] at hty; simp [terseType] at hty
    simp [hne, hty]

theorem terseField_col (c : TCol) (h : c.OK) : terseField c.name c.spec = .ok c.field := by
  unfold terseField
  rw [splitColon_spec c h]
  simp only [List.headD_cons, terseTypeOf_col c h, Except.map, TCol.field]
  cases hf : c.fill with
  | none =>
    have hu : c.unit = none := by
      cases hu : c.unit with
      | none => rfl
      | some u => have := h.unitNeedsFill (by simp [hu]); simp [hf] at this
    simp [hu]
  | some f =>
    cases hu : c.unit with
    | none => simp
    | some u => simp

theorem splitParens_cols (cols : List TCol) (h : ∀ c ∈ cols, c.OK) :
    splitParens (cols.flatMap TCol.print) = cols.flatMap (fun c => [c.name, c.spec]) ++ [[]] := by
  induction cols with
  | nil => simp [splitParens]
  | cons c t ih =>
    have hc := h c (by simp)
    have e : (c :: t).flatMap TCol.print = c.name ++ '(' :: (c.spec ++ ')' :: t.flatMap TCol.print) := by
      simp [TCol.print]
    rw [e, splitParens_seg _ _ '(' (Or.inl rfl) hc.name, splitParens_seg _ _ ')' (Or.inr rfl) (spec_noParen c hc),
      ih (fun c' hc' => h c' (by simp [hc']))]
    simp

theorem length_pairs (cols : List TCol) : (cols.flatMap (fun c => [c.name, c.spec])).length = 2 * cols.length := by
  induction cols with
  | nil => simp
  | cons c t ih => simp only [List.flatMap_cons, List.length_append, List.length_cons, List.length_nil, ih]; omega

theorem terseFields_cols (cols : List TCol) (h : ∀ c ∈ cols, c.OK) :
    terseFields (cols.flatMap (fun c => [c.name, c.spec])) = .ok (cols.map TCol.field) := by
  induction cols with
  | nil => simp [terseFields]
  | cons c t ih =>
    simp only [List.flatMap_cons, List.cons_append, List.nil_append, terseFields, List.map_cons]
    rw [terseField_col c (h c (by simp)), ih (fun c' hc' => h c' (by simp [hc']))]
    rfl

/-- **the terse notation denotes the schema it spells**: for every delimiter without `m` and `:`, every
missing marker without `:` (delimiter non-empty, together at least two characters), and every
non-empty list of expressible columns, `parse_scsv_schema` returns exactly those fields – type
codes expanded, the default type `string`, the default fill `""`, the unit only when given. -/
theorem parseTerse_printTerse (d m : Str) (cols : List TCol) (hd : d ≠ []) (hdm : 'm' ∉ d) (hdc : ':' ∉ d)
    (hmc : ':' ∉ m) (hlen : 2 ≤ d.length + m.length) (hne : cols ≠ []) (h : ∀ c ∈ cols, c.OK) :
    parseTerse (printTerse d m cols) = .ok ⟨some d, some m, some (cols.map TCol.field)⟩ := by
  have hdlen : 0 < d.length := List.length_pos_iff.mpr hd
  have hcl : 0 < cols.length := List.length_pos_iff.mpr hne
  have e1 : printTerse d m cols = ('d' :: d ++ 'm' :: m) ++ ':' :: cols.flatMap TCol.print := by simp [printTerse]
  -- position of the first colon
  have hcol : findChar ':' (printTerse d m cols) = some (d.length + m.length + 2) := by
    rw [e1, findChar_append]
    · simp; omega
    · simp [hdc, hmc]
  have htake : (printTerse d m cols).take (d.length + m.length + 2) = 'd' :: d ++ 'm' :: m := by
    rw [e1, List.take_left' (by simp; omega)]
  have hm : findChar 'm' ('d' :: d ++ 'm' :: m) = some (d.length + 1) := by
    have : 'd' :: d ++ 'm' :: m = ('d' :: d) ++ 'm' :: m := by simp
    rw [this, findChar_append]
    · simp
    · simp [hdm]
  have hdelim : ((printTerse d m cols).take (d.length + 1)).drop 1 = d := by
    have : printTerse d m cols = ('d' :: d) ++ ('m' :: m ++ ':' :: cols.flatMap TCol.print) := by simp [printTerse]
    rw [this, List.take_left' (by simp)]
    simp
  have hmiss : ('d' :: d ++ 'm' :: m).drop (d.length + 1 + 1) = m := by
    have : 'd' :: d ++ 'm' :: m = ('d' :: d ++ ['m']) ++ m := by simp
    rw [this, List.drop_left' (by simp)]
  have hrest : (printTerse d m cols).drop (d.length + m.length + 2 + 1) = cols.flatMap TCol.print := by
    have : printTerse d m cols = ('d' :: d ++ 'm' :: m ++ [':']) ++ cols.flatMap TCol.print := by simp [printTerse]
    rw [this, List.drop_left' (by simp; omega)]
  have hraw : (splitParens (cols.flatMap TCol.print)).dropLast = cols.flatMap (fun c => [c.name, c.spec]) := by
    rw [splitParens_cols cols h, List.dropLast_concat]
  have hshape : printTerse d m cols = 'd' :: (d ++ 'm' :: m ++ ':' :: cols.flatMap TCol.print) := by simp [printTerse]
  unfold parseTerse
  rw [hshape]
  simp only
  rw [← hshape, hcol]
  simp only [show ¬ (d.length + m.length + 2 < 4) by omega, if_false, htake, hm,
    show ¬ (d.length + 1 < 2) by omega, hdelim, hmiss, hrest, hraw, length_pairs,
    show ¬ (2 * cols.length < 2) by omega]
  rw [if_neg (by simp), terseFields_cols cols h]
  rfl

end Scsv
