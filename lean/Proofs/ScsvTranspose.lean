import ModelD.Scsv
/-! `zip(*xs)` twice: columns → rows (on save) → columns (on read), with a cell-wise map in
between (C16). -/
namespace Scsv

/-- two lists related element by element -/
inductive Forall₂ {α β} (R : α → β → Prop) : List α → List β → Prop
  | nil : Forall₂ R [] []
  | cons {a b l₁ l₂} : R a b → Forall₂ R l₁ l₂ → Forall₂ R (a :: l₁) (b :: l₂)

theorem Forall₂.length_eq {α β} {R : α → β → Prop} {l₁ : List α} {l₂ : List β} (h : Forall₂ R l₁ l₂) :
    l₁.length = l₂.length := by
  induction h with
  | nil => rfl
  | cons _ _ ih => simp [ih]

/-- all columns have length `n` -/
def Rect {α} (n : Nat) (cols : List (List α)) : Prop := ∀ c ∈ cols, c.length = n

theorem zipStar_cons_cons {α} (c c' : List α) (cs : List (List α)) :
    zipStar (c :: c' :: cs) = List.zipWith (fun x r => x :: r) c (zipStar (c' :: cs)) := by
  simp [zipStar]

theorem zipStar_length {α} (n : Nat) (cols : List (List α)) (hne : cols ≠ []) (h : Rect n cols) :
    (zipStar cols).length = n := by
  induction cols with
  | nil => exact absurd rfl hne
  | cons c cs ih =>
    cases cs with
    | nil => simp [zipStar, h c (by simp)]
    | cons c' cs' =>
      rw [zipStar_cons_cons, List.length_zipWith, ih (by simp) (fun x hx => h x (by simp [hx])), h c (by simp)]
      simp

theorem zipStar_row_length {α} (n : Nat) (cols : List (List α)) (h : Rect n cols) :
    ∀ r ∈ zipStar cols, r.length = cols.length := by
  induction cols with
  | nil => simp [zipStar]
  | cons c cs ih =>
    cases cs with
    | nil => simp [zipStar]
    | cons c' cs' =>
      intro r hr
      rw [zipStar_cons_cons] at hr
      obtain ⟨i, hi, rfl⟩ := List.getElem_of_mem hr
      simp only [List.getElem_zipWith, List.length_cons]
      rw [ih (fun x hx => h x (by simp [hx])) _ (List.getElem_mem _)]
      simp

/-- rows that are singletons transpose to one column -/
theorem zipStar_map_singleton {α β} (g : α → β) (l : List α) (hne : l ≠ []) :
    zipStar (l.map (fun x => [g x])) = [l.map g] := by
  induction l with
  | nil => exact absurd rfl hne
  | cons a t ih =>
    cases t with
    | nil => simp [zipStar]
    | cons b t' =>
      have := ih (by simp)
      simp only [List.map_cons] at this ⊢
      rw [zipStar_cons_cons, this]
      simp

/-- prepending a column to the rows prepends it to the transpose -/
theorem zipStar_zipWith_cons {α} (a : List α) (R : List (List α)) (hlen : a.length = R.length) (hne : R ≠ []) :
    zipStar (List.zipWith (fun x r => x :: r) a R) = a :: zipStar R := by
  induction R generalizing a with
  | nil => exact absurd rfl hne
  | cons r R' ih =>
    cases a with
    | nil => simp at hlen
    | cons a1 a' =>
      simp only [List.zipWith_cons_cons]
      cases R' with
      | nil =>
        have : a' = [] := by simpa using hlen
        subst this
        simp [zipStar]
      | cons r2 R'' =>
        have hlen' : a'.length = (r2 :: R'').length := by simpa using hlen
        have ihh := ih a' hlen' (by simp)
        cases a' with
        | nil => simp at hlen'
        | cons a2 a'' =>
          simp only [List.zipWith_cons_cons] at ihh ⊢
          rw [zipStar_cons_cons, ihh, zipStar_cons_cons]
          simp

/-- **transpose twice with a column-indexed cell map in between**: for a rectangular, non-empty
table, transposing, mapping `F tfⱼ` over the j-th cell of every row, and transposing back is the
same as mapping `F tfⱼ` over the j-th column. -/
theorem zipStar_map_zipStar {α β γ} (F : γ → α → β) (n : Nat) (hn : 0 < n) (tfs : List γ) (cols : List (List α))
    (hlen : tfs.length = cols.length) (hne : cols ≠ []) (h : Rect n cols) :
    zipStar ((zipStar cols).map (fun row => List.zipWith F tfs row))
      = List.zipWith (fun tf col => col.map (F tf)) tfs cols := by
  induction cols generalizing tfs with
  | nil => exact absurd rfl hne
  | cons c cs ih =>
    cases tfs with
    | nil => simp at hlen
    | cons tf tfs' =>
      have hc : c.length = n := h c (by simp)
      cases cs with
      | nil =>
        have : tfs' = [] := by simpa using hlen
        subst this
        have hcne : c ≠ [] := by intro e; subst e; simp at hc; omega
        simp only [zipStar, List.map_map, List.zipWith_cons_cons, List.zipWith_nil_right]
        have := zipStar_map_singleton (F tf) c hcne
        simpa [Function.comp_def] using this
      | cons c' cs' =>
        have hrect' : Rect n (c' :: cs') := fun x hx => h x (by simp [hx])
        have hlen' : tfs'.length = (c' :: cs').length := by simpa using hlen
        have ihh := ih tfs' hlen' (by simp) hrect'
        rw [zipStar_cons_cons]
        have hR : (zipStar (c' :: cs')).length = n := zipStar_length n _ (by simp) hrect'
        have e : (List.zipWith (fun x r => x :: r) c (zipStar (c' :: cs'))).map (fun row => List.zipWith F (tf :: tfs') row)
            = List.zipWith (fun x r => x :: r) (c.map (F tf)) ((zipStar (c' :: cs')).map (fun row => List.zipWith F tfs' row)) := by
          apply List.ext_getElem
          · simp
          · intro i h1 h2
            simp
        rw [e, zipStar_zipWith_cons _ _ (by simp [hc, hR]) (by
          intro e0
          have : ((zipStar (c' :: cs')).map (fun row => List.zipWith F tfs' row)).length = 0 := by rw [e0]; rfl
          simp [hR] at this; omega), ihh]
        simp

/-- every cell of a row of the transposed table is a cell of one of the columns -/
theorem zipStar_cells_mem {α} (cols : List (List α)) :
    ∀ row ∈ zipStar cols, ∀ d ∈ row, ∃ col ∈ cols, d ∈ col := by
  induction cols with
  | nil => simp [zipStar]
  | cons c cs ih =>
    cases cs with
    | nil =>
      intro row hrow d hd
      simp only [zipStar, List.mem_map] at hrow
      obtain ⟨x, hx, rfl⟩ := hrow
      simp only [List.mem_singleton] at hd
      subst hd
      exact ⟨c, by simp, hx⟩
    | cons c' cs' =>
      intro row hrow d hd
      rw [zipStar_cons_cons] at hrow
      obtain ⟨i, hi, rfl⟩ := List.getElem_of_mem hrow
      simp only [List.getElem_zipWith, List.mem_cons] at hd
      rcases hd with rfl | hd
      · exact ⟨c, by simp, List.getElem_mem _⟩
      · obtain ⟨col, hcol, hd'⟩ := ih _ (List.getElem_mem _) d hd
        exact ⟨col, by simp [hcol], hd'⟩

end Scsv
