import ModelD.Scsv
import Proofs.ScsvText
import Proofs.Csv
import Proofs.ScsvHeader
import Proofs.ScsvCell
import Proofs.ScsvTranspose
import Proofs.ScsvValidate
/-! Composition of the four layers (C16): `read (save schema data)`. -/
namespace Scsv
open Csv

def Field.ty (f : Field) : Ty := (typeOf f.typeName).getD .str

/-- `t(fill)` of a field (the value missing cells are read back as) -/
def fillValue (E : FloatExt) (f : Field) : Val :=
  match construct E f.ty f.fillVal with
  | .ok v => v
  | .error _ => .str []

/-- what `save_scsv` writes for a cell of the column of field `f` -/
def written (E : FloatExt) (m : Str) (f : Field) (d : Val) : Str :=
  if f.ty ≠ .bool ∧ cellEqFill d (fillValue E f) = true then m else pyStr E d

def FieldFillOK (E : FloatExt) (f : Field) : Prop := f.ty ≠ .bool → FillOK E f.ty f.fillVal (fillValue E f)

/-- a column is representable: its fill is usable and every cell is `CellOK` -/
def ColOK (E : FloatExt) (m : Str) (f : Field) (col : List Val) : Prop :=
  FieldFillOK E f ∧ ∀ d ∈ col, CellOK E m f.ty (fillValue E f) d

def fieldNames (fs : List Field) : List Str := fs.map (fun f => f.name.getD [])
def colSpecs (fs : List Field) : List (Ty × PyVal) := fs.map (fun f => ((typeOf f.typeName).getD .str, f.fillVal))

/-- the table the statement says must be read back -/
def expectedTable (E : FloatExt) (fs : List Field) (data : List (List Val)) : List (List Val) :=
  List.zipWith (fun f col => col.map (expectedCell f.ty (fillValue E f))) fs data

/-! ### save side -/

theorem saveRowCells_ok (E : FloatExt) (hE : FloatSpec E) (m : Str) (fs : List Field) (row : List Val)
    (h : Forall₂ (fun f d => FieldFillOK E f ∧ CellOK E m f.ty (fillValue E f) d) fs row) :
    saveRowCells E m row (colSpecs fs) = .ok (List.zipWith (written E m) fs row) := by
  induction h with
  | nil => simp [saveRowCells, colSpecs]
  | @cons f d fs' row' hfd _ ih =>
    simp only [colSpecs, List.map_cons, saveRowCells, List.zipWith_cons_cons]
    have := saveCell_ok E m f.ty f.fillVal (fillValue E f) d hfd.1 hfd.2 hE
    simp only [Field.ty] at this
    rw [this]
    simp only [colSpecs] at ih
    simp [bind, Except.bind, pure, Except.pure, ih, written, Field.ty]

/-- every row of the transposed data pairs each field with a cell of its own column -/
theorem zipStar_rows_forall₂ {α β} (P : α → β → Prop) (fs : List α) (data : List (List β))
    (h : Forall₂ (fun f col => ∀ d ∈ col, P f d) fs data) :
    ∀ row ∈ zipStar data, Forall₂ P fs row := by
  induction h with
  | nil => simp [zipStar]
  | @cons f c fs' cs hc hrest ih =>
    cases hrest with
    | nil =>
      intro row hrow
      simp only [zipStar, List.mem_map] at hrow
      obtain ⟨x, hx, rfl⟩ := hrow
      exact .cons (hc x hx) .nil
    | @cons f' c' fs'' cs' hc' hrest' =>
      intro row hrow
      rw [zipStar_cons_cons] at hrow
      obtain ⟨i, hi, rfl⟩ := List.getElem_of_mem hrow
      simp only [List.getElem_zipWith]
      exact .cons (hc _ (List.getElem_mem _)) (ih _ (List.getElem_mem _))

theorem saveRows_ok (E : FloatExt) (hE : FloatSpec E) (dc : Char) (m : Str) (fs : List Field) (rows : List (List Val))
    (h : ∀ row ∈ rows, Forall₂ (fun f d => FieldFillOK E f ∧ CellOK E m f.ty (fillValue E f) d) fs row) :
    saveRows E dc m (colSpecs fs) rows = .ok (rows.map (fun row => writeRow dc (List.zipWith (written E m) fs row))) := by
  induction rows with
  | nil => simp [saveRows]
  | cons r rs ih =>
    simp only [saveRows, List.map_cons]
    rw [saveRowCells_ok E hE m fs r (h r (by simp)), ih (fun row hrow => h row (by simp [hrow]))]
    simp [bind, Except.bind, pure, Except.pure]

theorem forall₂_colOK_rows (E : FloatExt) (m : Str) (fs : List Field) (data : List (List Val))
    (h : Forall₂ (ColOK E m) fs data) :
    ∀ row ∈ zipStar data, Forall₂ (fun f d => FieldFillOK E f ∧ CellOK E m f.ty (fillValue E f) d) fs row := by
  apply zipStar_rows_forall₂
  induction h with
  | nil => exact .nil
  | cons hc _ ih => exact .cons (fun d hd => ⟨hc.1, hc.2 d hd⟩) ih

/-- the lines of the file: fence, header, fence, column names, data rows -/
def fileLines (E : FloatExt) (dc : Char) (m : Str) (fs : List Field) (data : List (List Val)) : List Str :=
  fence :: headerLines E [dc] m fs ++
    fence :: writeRow dc (fieldNames fs) ::
      (zipStar data).map (fun row => writeRow dc (List.zipWith (written E m) fs row))

theorem saveLines_ok (E : FloatExt) (hE : FloatSpec E) (dc : Char) (m : Str) (fs : List Field)
    (data : List (List Val)) (n : Nat)
    (hvalid : validate ⟨some [dc], some m, some fs⟩ = .ok true)
    (hrect : Rect n data) (hne : data ≠ []) (hcols : Forall₂ (ColOK E m) fs data) :
    saveLines E ⟨some [dc], some m, some fs⟩ data = .ok (fileLines E dc m fs data) := by
  obtain ⟨c0, cs, rfl⟩ := List.exists_cons_of_ne_nil hne
  have hany : cs.any (fun c => decide (c.length ≠ c0.length)) = false := by
    rw [List.any_eq_false]
    intro c hc
    simp [hrect c (by simp [hc]), hrect c0 (by simp)]
  simp only [saveLines, hany, Bool.false_eq_true, if_false]
  have hsr := saveRows_ok E hE dc m fs _ (forall₂_colOK_rows E m fs _ hcols)
  simp only [colSpecs] at hsr
  simp [saveBody, hvalid, hsr, Except.bind, Except.map, valueToScsv, fileLines, fieldNames]

/-! ### the text of the file and its lines -/

theorem escapeQuotes_chars (f : Str) : ∀ c ∈ escapeQuotes f, c = '"' ∨ c ∈ f := by
  induction f with
  | nil => simp [escapeQuotes]
  | cons a t ih =>
    intro c hc
    by_cases ha : a = '"'
    · subst ha
      simp [escapeQuotes] at hc
      rcases hc with hc | hc
      · exact Or.inl hc
      · rcases ih c hc with h | h
        · exact Or.inl h
        · exact Or.inr (by simp [h])
    · simp [escapeQuotes, ha] at hc
      rcases hc with hc | hc
      · exact Or.inr (by simp [hc])
      · rcases ih c hc with h | h
        · exact Or.inl h
        · exact Or.inr (by simp [h])

theorem writeField_chars (d : Char) (f : Str) : ∀ c ∈ writeField d f, c = '"' ∨ c ∈ f := by
  intro c hc
  unfold writeField at hc
  split at hc
  · simp [quoteField] at hc
    rcases hc with hc | hc | hc
    · exact Or.inl hc
    · exact escapeQuotes_chars f c hc
    · exact Or.inl hc
  · exact Or.inr hc

theorem joinFields_chars (d : Char) (ws : List Str) : ∀ c ∈ joinFields d ws, c = d ∨ ∃ w ∈ ws, c ∈ w := by
  induction ws with
  | nil => simp [joinFields]
  | cons w t ih =>
    cases t with
    | nil => intro c hc; simp [joinFields] at hc; exact Or.inr ⟨w, by simp, hc⟩
    | cons w' t' =>
      intro c hc
      simp only [joinFields, List.mem_append, List.mem_cons] at hc
      rcases hc with hc | hc | hc
      · exact Or.inr ⟨w, by simp, hc⟩
      · exact Or.inl hc
      · rcases ih c hc with h | ⟨x, hx, hcx⟩
        · exact Or.inl h
        · exact Or.inr ⟨x, by simp [hx], hcx⟩

theorem writeRow_chars (d : Char) (fs : List Str) :
    ∀ c ∈ writeRow d fs, c = d ∨ c = '"' ∨ ∃ f ∈ fs, c ∈ f := by
  intro c hc
  unfold writeRow at hc
  split at hc
  · simp at hc; exact Or.inr (Or.inl hc)
  · rcases joinFields_chars d _ c hc with h | ⟨w, hw, hcw⟩
    · exact Or.inl h
    · simp only [List.mem_map] at hw
      obtain ⟨f, hf, rfl⟩ := hw
      rcases writeField_chars d f c hcw with h | h
      · exact Or.inr (Or.inl h)
      · exact Or.inr (Or.inr ⟨f, hf, h⟩)

theorem writeRow_ne_nil (d : Char) (fs : List Str) (hne : fs ≠ []) : writeRow d fs ≠ [] := by
  unfold writeRow
  split
  · simp
  · rename_i hnot
    cases fs with
    | nil => exact absurd rfl hne
    | cons f t =>
      cases t with
      | nil =>
        simp only [List.map_cons, List.map_nil, joinFields]
        have hf : f ≠ [] := by intro e; subst e; exact hnot rfl
        exact writeField_ne_nil d f hf
      | cons g t' => simp [joinFields]

/-- a line without line breaks -/
def NoBreak (l : Str) : Prop := '\n' ∉ l ∧ '\r' ∉ l

theorem writeRow_noBreak (d : Char) (hd : DelimOK d) (fs : List Str) (hf : ∀ f ∈ fs, FieldOK f) :
    NoBreak (writeRow d fs) := by
  constructor
  · intro hc
    rcases writeRow_chars d fs _ hc with h | h | ⟨f, hf', hcf⟩
    · exact hd.1 h.symm
    · cases h
    · exact (hf f hf').1 hcf
  · intro hc
    rcases writeRow_chars d fs _ hc with h | h | ⟨f, hf', hcf⟩
    · exact hd.2.1 h.symm
    · cases h
    · exact (hf f hf').2.1 hcf

theorem yamlSafe_noBreak (v : Str) (hv : YamlSafe v) : NoBreak v :=
  ⟨fun h => by have := (hv _ h).2; simp [Yaml.isYamlBreak] at this,
   fun h => by have := (hv _ h).2; simp [Yaml.isYamlBreak] at this⟩

theorem noBreak_append (a b : Str) (ha : NoBreak a) (hb : NoBreak b) : NoBreak (a ++ b) := by
  unfold NoBreak at *
  simp only [List.mem_append, not_or]
  exact ⟨⟨ha.1, hb.1⟩, ⟨ha.2, hb.2⟩⟩

theorem escapeSQ_chars (v : Str) : ∀ c ∈ Yaml.escapeSQ v, c = '\'' ∨ c ∈ v := by
  induction v with
  | nil => simp [Yaml.escapeSQ]
  | cons a t ih =>
    intro c hc
    by_cases ha : a = '\''
    · subst ha
      simp [Yaml.escapeSQ] at hc
      rcases hc with hc | hc
      · exact Or.inl hc
      · rcases ih c hc with h | h
        · exact Or.inl h
        · exact Or.inr (by simp [h])
    · simp [Yaml.escapeSQ, ha] at hc
      rcases hc with hc | hc
      · exact Or.inr (by simp [hc])
      · rcases ih c hc with h | h
        · exact Or.inl h
        · exact Or.inr (by simp [h])

theorem yamlQuoted_noBreak (v : Str) (hv : YamlSafe v) : NoBreak (Yaml.yamlQuoted v) := by
  have hnb := yamlSafe_noBreak v hv
  constructor <;>
  · intro hc
    simp [Yaml.yamlQuoted] at hc
    rcases escapeSQ_chars v _ hc with h | h
    · cases h
    · first | exact hnb.1 h | exact hnb.2 h

/-! ### the fence loop of `read_scsv` -/

theorem fenceNL_eq : fenceNL = fence ++ ['\n'] := by decide

theorem fenceSplit_done (C : List Str) (h : ∀ c ∈ C, c ≠ ['\n']) : fenceSplit C false true = ([], C) := by
  induction C with
  | nil => rfl
  | cons c t ih =>
    have hc := h c (by simp)
    simp [fenceSplit, hc, ih (fun c' hc' => h c' (by simp [hc']))]

theorem fenceSplit_yaml (H rest : List Str) (h : ∀ l ∈ H, l ≠ ['\n'] ∧ l ≠ fenceNL) :
    fenceSplit (H ++ rest) true false = (H ++ (fenceSplit rest true false).1, (fenceSplit rest true false).2) := by
  induction H with
  | nil => simp
  | cons l t ih =>
    obtain ⟨h1, h2⟩ := h l (by simp)
    simp [fenceSplit, h1, h2, ih (fun l' hl' => h l' (by simp [hl']))]

/-- the header lines go to YAML, everything after the second fence to CSV -/
theorem fenceSplit_file (H C : List Str) (hH : ∀ l ∈ H, l ≠ [] ∧ l ≠ fence) (hC : ∀ c ∈ C, c ≠ []) :
    fenceSplit (((fence :: H ++ fence :: C)).map (· ++ ['\n'])) false false
      = (H.map (· ++ ['\n']), C.map (· ++ ['\n'])) := by
  have hfn : fence ++ ['\n'] ≠ ['\n'] := by decide
  have hH' : ∀ l ∈ H.map (· ++ ['\n']), l ≠ ['\n'] ∧ l ≠ fenceNL := by
    intro l hl
    simp only [List.mem_map] at hl
    obtain ⟨l0, hl0, rfl⟩ := hl
    obtain ⟨h1, h2⟩ := hH l0 hl0
    refine ⟨?_, ?_⟩
    · intro e
      have : (l0 ++ ['\n']).length = 1 := by rw [e]; rfl
      simp at this; exact h1 this
    · rw [fenceNL_eq]
      intro e
      exact h2 (List.append_cancel_right e)
  have hC' : ∀ c ∈ C.map (· ++ ['\n']), c ≠ ['\n'] := by
    intro c hc
    simp only [List.mem_map] at hc
    obtain ⟨c0, hc0, rfl⟩ := hc
    intro e
    have : (c0 ++ ['\n']).length = 1 := by rw [e]; rfl
    simp at this; exact hC c0 hc0 this
  simp only [List.map_cons, List.map_append, List.cons_append]
  have e1 : fenceSplit ((fence ++ ['\n']) :: (H.map (· ++ ['\n']) ++ (fence ++ ['\n']) :: C.map (· ++ ['\n']))) false false
      = fenceSplit (H.map (· ++ ['\n']) ++ (fence ++ ['\n']) :: C.map (· ++ ['\n'])) true false := by
    rw [fenceSplit]
    simp [hfn, fenceNL_eq]
  rw [e1, fenceSplit_yaml _ _ hH']
  have e2 : fenceSplit ((fence ++ ['\n']) :: C.map (· ++ ['\n'])) true false
      = fenceSplit (C.map (· ++ ['\n'])) false true := by
    rw [fenceSplit]
    simp [hfn, fenceNL_eq]
  rw [e2, fenceSplit_done _ hC']
  simp

theorem head_ne_fence (l : Str) (c : Char) (h : l.head? = some c) (hc : c ≠ '-') : l ≠ [] ∧ l ≠ fence := by
  constructor
  · intro e; subst e; simp at h
  · intro e; subst e
    have : fence.head? = some '-' := by decide
    rw [this] at h; cases h; exact hc rfl

theorem optLine_props (pfx : Str) (hp : NoBreak pfx) (hh : pfx.head? = some ' ') (o : Option Str)
    (ho : ∀ x, o = some x → YamlSafe x) :
    ∀ l ∈ optLine pfx o, NoBreak l ∧ l ≠ [] ∧ l ≠ fence := by
  intro l hl
  cases o with
  | none => simp [optLine] at hl
  | some x =>
    simp [optLine] at hl; subst hl
    refine ⟨noBreak_append _ _ hp (yamlQuoted_noBreak x (ho x rfl)), ?_⟩
    apply head_ne_fence _ ' ' _ (by decide)
    cases pfx with
    | nil => simp at hh
    | cons a t => simpa using hh

theorem typeName_noBreak (ty : Str) (t : Ty) (h : typeOf ty = some t) : NoBreak ty := by
  unfold typeOf at h
  split at h
  · rename_i e; subst e; exact ⟨by decide, by decide⟩
  · split at h
    · rename_i e; subst e; exact ⟨by decide, by decide⟩
    · split at h
      · rename_i e; subst e; exact ⟨by decide, by decide⟩
      · split at h
        · rename_i e; subst e; exact ⟨by decide, by decide⟩
        · split at h
          · rename_i e; subst e; exact ⟨by decide, by decide⟩
          · simp at h

theorem headerLines_props (E : FloatExt) (d m : Str) (fs : List Field) (hd : YamlSafe d) (hm : YamlSafe m)
    (hf : ∀ f ∈ fs, FieldHeaderOK E f) :
    ∀ l ∈ headerLines E d m fs, NoBreak l ∧ l ≠ [] ∧ l ≠ fence := by
  intro l hl
  simp only [headerLines, List.mem_cons, List.mem_flatMap] at hl
  rcases hl with hl | hl | hl | hl | ⟨f, hfm, hl⟩
  · subst hl; exact ⟨⟨by decide, by decide⟩, by decide, by decide⟩
  · subst hl
    exact ⟨noBreak_append _ _ ⟨by decide, by decide⟩ (yamlQuoted_noBreak d hd),
      head_ne_fence _ ' ' (by rw [show pfxDelim = ' ' :: ' ' :: "delimiter: ".toList by decide]; rfl) (by decide)⟩
  · subst hl
    exact ⟨noBreak_append _ _ ⟨by decide, by decide⟩ (yamlQuoted_noBreak m hm),
      head_ne_fence _ ' ' (by rw [show pfxMissing = ' ' :: ' ' :: "missing: ".toList by decide]; rfl) (by decide)⟩
  · subst hl; exact ⟨⟨by decide, by decide⟩, by decide, by decide⟩
  · have hok := hf f hfm
    obtain ⟨n, hn, hns⟩ := hok.name
    obtain ⟨ty, hty⟩ := hok.type
    simp only [fieldLines, List.mem_cons, List.mem_append] at hl
    rcases hl with hl | hl | hl | hl
    · subst hl
      rw [hn]
      exact ⟨noBreak_append _ _ ⟨by decide, by decide⟩ (yamlQuoted_noBreak n hns),
        head_ne_fence _ ' ' (by rw [pfxName_eq]; rfl) (by decide)⟩
    · subst hl
      exact ⟨noBreak_append _ _ ⟨by decide, by decide⟩ (typeName_noBreak _ ty hty),
        head_ne_fence _ ' ' (by rw [pfxType_eq]; rfl) (by decide)⟩
    · exact optLine_props pfxUnit ⟨by decide, by decide⟩ (by decide) f.unit hok.unit l hl
    · refine optLine_props pfxFill ⟨by decide, by decide⟩ (by decide) _ ?_ l hl
      intro x hx
      cases hfl : f.fill with
      | none => simp [hfl] at hx
      | some v => simp [hfl] at hx; subst hx; exact hok.fill v hfl

/-- reading the text is reading its lines -/
theorem read_joinLines (E : FloatExt) (L : List Str) (h : ∀ l ∈ L, NoBreak l) :
    read E (joinLines L) = readLines E (L.map (· ++ ['\n'])) := by
  unfold read joinLines
  rw [universalNewlines_eq_self, splitLines_flatMap L (fun l hl => (h l hl).1)]
  intro hc
  simp only [List.mem_flatMap, List.mem_append, List.mem_singleton] at hc
  obtain ⟨l, hl, hcl | hcl⟩ := hc
  · exact (h l hl).2 hcl
  · cases hcl

/-! ### identifiers in the header and in the CSV header row -/

theorem idContinue_yaml (c : Char) (h : isIdContinue c = true) :
    Yaml.isYamlPrintable c = true ∧ Yaml.isYamlBreak c = false := by
  have hr := idContinue_range c h
  have h1 : c ≠ '\n' := fun e => by subst e; exact absurd hr (by decide)
  have h2 : c ≠ '\r' := fun e => by subst e; exact absurd hr (by decide)
  constructor
  · simp [Yaml.isYamlPrintable]; omega
  · simp [Yaml.isYamlBreak, h1, h2]; omega

theorem identifier_yamlSafe (n : Str) (h : isIdentifier n = true) : YamlSafe n :=
  fun c hc => idContinue_yaml c (isIdentifier_chars n h c hc)

theorem fieldOK_of_no_space (s : Str) (h : ∀ c ∈ s, isSpacePy c = false) : FieldOK s := by
  refine ⟨fun hc => ?_, fun hc => ?_, fun hh => ?_⟩
  · have := h _ hc; revert this; decide
  · have := h _ hc; revert this; decide
  · have := h _ (List.mem_of_mem_head? hh); revert this; decide

theorem identifier_fieldOK (n : Str) (h : isIdentifier n = true) : FieldOK n :=
  fieldOK_of_no_space n (fun c hc => isSpacePy_of_idContinue c (isIdentifier_chars n h c hc))

/-! ### what the reader sees of a written field -/

theorem normField_typeName (E : FloatExt) (f : Field) : (normField E f).typeName = f.typeName := by
  simp [normField, Field.typeName]

theorem normField_fillVal (E : FloatExt) (f : Field) : (normField E f).fillVal = .str (pyStrP E f.fillVal) := by
  cases hf : f.fill <;> simp [normField, Field.fillVal, hf, defaultFill, pyStrP]

theorem normField_name (E : FloatExt) (f : Field) : (normField E f).name = f.name := rfl

theorem fieldValid_norm (E : FloatExt) (f : Field) (h : FieldValid f) : FieldValid (normField E f) := by
  obtain ⟨hn, t, ht, hfill⟩ := h
  refine ⟨hn, t, by rw [normField_typeName]; exact ht, ?_⟩
  intro h2
  have := hfill h2
  cases hf : f.fill <;> simp_all [normField]

theorem fieldNames_norm (E : FloatExt) (fs : List Field) : fieldNames (fs.map (normField E)) = fieldNames fs := by
  simp [fieldNames, normField]

theorem colSpecs_norm (E : FloatExt) (fs : List Field) :
    colSpecs (fs.map (normField E)) = fs.map (fun f => (f.ty, PyVal.str (pyStrP E f.fillVal))) := by
  simp only [colSpecs, List.map_map]
  apply List.map_congr_left
  intro f _
  simp [normField_typeName, normField_fillVal, Field.ty]

/-! ### typed parsing of the columns -/

theorem parseColumn_written (E : FloatExt) (hE : FloatSpec E) (m : Str) (hm : strip m = m) (f : Field)
    (col : List Val) (h : ColOK E m f col) :
    parseColumn E m f.ty (.str (pyStrP E f.fillVal)) (col.map (written E m f))
      = .ok (col.map (expectedCell f.ty (fillValue E f))) := by
  induction col with
  | nil => simp [parseColumn]
  | cons d t ih =>
    have hd := h.2 d (by simp)
    have iht := ih ⟨h.1, fun d' hd' => h.2 d' (by simp [hd'])⟩
    simp only [List.map_cons, parseColumn]
    rw [show written E m f d = (if f.ty ≠ .bool ∧ cellEqFill d (fillValue E f) = true then m else pyStr E d) from rfl,
      parseCell_written E m f.ty f.fillVal (fillValue E f) d hm h.1 hd hE]
    simp [bind, Except.bind, pure, Except.pure, iht]

theorem parseColumns_written (E : FloatExt) (hE : FloatSpec E) (m : Str) (hm : strip m = m) (fs : List Field)
    (data : List (List Val)) (h : Forall₂ (ColOK E m) fs data) :
    parseColumns E m (fs.map (fun f => (f.ty, PyVal.str (pyStrP E f.fillVal))))
        (List.zipWith (fun f col => col.map (written E m f)) fs data)
      = .ok (expectedTable E fs data) := by
  induction h with
  | nil => simp [parseColumns, expectedTable]
  | @cons f col fs' data' hc _ ih =>
    simp only [List.map_cons, List.zipWith_cons_cons, parseColumns, expectedTable]
    rw [parseColumn_written E hE m hm f col hc]
    simp only [expectedTable] at ih
    simp [bind, Except.bind, pure, Except.pure, ih]

/-! ### the composed round trip -/

/-- conditions on the header scalars. Beyond the stated domain of the property the proof forces:
the delimiter is not a quote / line break and is YAML-printable (a blank delimiter additionally needs
non-empty written fields, see `read_save`); the missing marker is its
own `strip()` and YAML-safe; the names are acceptable to `collections.namedtuple`; units and fills
are YAML-safe. Each has been replayed on the real code (see `known_findings/C16.json`). -/
structure HeaderOK (E : FloatExt) (dc : Char) (m : Str) (fs : List Field) : Prop where
  delim : DelimOK dc
  delimYaml : YamlSafe [dc]
  missingStrip : strip m = m
  missingYaml : YamlSafe m
  names : namedtupleOK (fieldNames fs) = true
  units : ∀ f ∈ fs, ∀ u, f.unit = some u → YamlSafe u
  fills : ∀ f ∈ fs, ∀ v, f.fill = some v → YamlSafe (pyStrP E v)

theorem fieldHeaderOK_of (E : FloatExt) (dc : Char) (m : Str) (fs : List Field) (hh : HeaderOK E dc m fs)
    (hv : ∀ f ∈ fs, FieldValid f) : ∀ f ∈ fs, FieldHeaderOK E f := by
  intro f hf
  obtain ⟨⟨n, hn, hid⟩, t, ht, _⟩ := hv f hf
  exact ⟨⟨n, hn, identifier_yamlSafe n hid⟩, ⟨t, ht⟩, hh.units f hf, hh.fills f hf⟩

theorem fieldNames_ok (fs : List Field) (hv : ∀ f ∈ fs, FieldValid f) :
    (∀ n ∈ fieldNames fs, FieldOK n) ∧ (fieldNames fs).map strip = fieldNames fs := by
  constructor
  · intro n hn
    simp only [fieldNames, List.mem_map] at hn
    obtain ⟨f, hf, rfl⟩ := hn
    obtain ⟨⟨n, hn, hid⟩, _⟩ := hv f hf
    rw [hn]; exact identifier_fieldOK n hid
  · simp only [fieldNames, List.map_map]
    apply List.map_congr_left
    intro f hf
    obtain ⟨⟨n, hn, hid⟩, _⟩ := hv f hf
    simp [hn, strip_identifier n hid]

theorem forall₂_of_mem_zipWith {α β γ} (P : γ → Prop) (F : α → β → γ) (l₁ : List α) (l₂ : List β)
    (Q : α → β → Prop) (h : Forall₂ Q l₁ l₂) (hq : ∀ a b, a ∈ l₁ → Q a b → P (F a b)) :
    ∀ c ∈ List.zipWith F l₁ l₂, P c := by
  induction h with
  | nil => simp
  | @cons a b t₁ t₂ hab _ ih =>
    intro c hc
    simp only [List.zipWith_cons_cons, List.mem_cons] at hc
    rcases hc with hc | hc
    · subst hc; exact hq a b (by simp) hab
    · exact ih (fun a' b' ha' => hq a' b' (by simp [ha'])) c hc

/-- **`save_read_roundtrip`** – for every valid schema (any number of fields), every rectangular
data set with `n ≥ 1` rows whose columns are representable, and any externals satisfying
`FloatSpec`: `save_scsv` succeeds and `read_scsv` of the written text returns the field names in
order and exactly the written values, with cells equal to the fill read back as the fill value. -/
theorem read_save (E : FloatExt) (hE : FloatSpec E) (dc : Char) (m : Str) (fs : List Field)
    (data : List (List Val)) (n : Nat)
    (hvalid : SchemaValid ⟨some [dc], some m, some fs⟩) (hh : HeaderOK E dc m fs)
    (hn : 0 < n) (hrect : Rect n data) (hcols : Forall₂ (ColOK E m) fs data)
    (hblank : dc = ' ' → m ≠ [] ∧ ∀ col ∈ data, ∀ d ∈ col, pyStr E d ≠ []) :
    ∃ txt, save E ⟨some [dc], some m, some fs⟩ data = .ok txt ∧
      read E txt = .ok (fieldNames fs, expectedTable E fs data) := by
  have hval := (validate_iff _).2 hvalid
  obtain ⟨d', m', fs', hd', hm', hfs', hfsne, hdm, hinf, hfv⟩ := hvalid
  simp only [Option.some.injEq] at hd' hm' hfs'
  subst hd' hm' hfs'
  have hlen : fs.length = data.length := hcols.length_eq
  have hdne : data ≠ [] := by
    intro e; subst e
    cases fs with
    | nil => exact hfsne rfl
    | cons _ _ => simp at hlen
  have hfho := fieldHeaderOK_of E dc m fs hh hfv
  have hmOK : FieldOK m := by
    have := yamlSafe_noBreak m hh.missingYaml
    exact ⟨this.1, this.2, head_ne_space_of_strip m hh.missingStrip⟩
  obtain ⟨hnamesOK, hnamesStrip⟩ := fieldNames_ok fs hfv
  -- save
  have hsave := saveLines_ok E hE dc m fs data n hval hrect hdne hcols
  refine ⟨joinLines (fileLines E dc m fs data), by simp [save, hsave, Except.map], ?_⟩
  -- the rows of cells
  have hrows := forall₂_colOK_rows E m fs data hcols
  have hrowFields : ∀ row ∈ zipStar data, ∀ w ∈ List.zipWith (written E m) fs row, FieldOK w := by
    intro row hrow
    refine forall₂_of_mem_zipWith FieldOK (written E m) fs row _ (hrows row hrow) ?_
    intro f d _ hfd
    exact written_fieldOK E m f.ty (fillValue E f) d hmOK hfd.2 hE
  have hrowLen : ∀ row ∈ zipStar data, row.length = fs.length := by
    intro row hrow
    rw [zipStar_row_length n data hrect row hrow, hlen]
  have hfs0 : 0 < fs.length := List.length_pos_iff.mpr hfsne
  -- the CSV part: names row and data rows
  let csvRows : List (List Str) := fieldNames fs :: (zipStar data).map (fun row => List.zipWith (written E m) fs row)
  have hcsvne : ∀ r ∈ csvRows, r ≠ [] := by
    intro r hr
    simp only [csvRows, List.mem_cons, List.mem_map] at hr
    rcases hr with hr | ⟨row, hrow, rfl⟩
    · subst hr
      intro e
      exact hfsne (by simpa [fieldNames] using e)
    · intro e
      have h0 : (List.zipWith (written E m) fs row).length = 0 := by rw [e]; rfl
      rw [List.length_zipWith, hrowLen row hrow] at h0
      omega
  have hcsvOK : ∀ r ∈ csvRows, ∀ f ∈ r, FieldOK f := by
    intro r hr
    simp only [csvRows, List.mem_cons, List.mem_map] at hr
    rcases hr with hr | ⟨row, hrow, rfl⟩
    · subst hr; exact hnamesOK
    · exact hrowFields row hrow
  have hcsvBlank : ∀ r ∈ csvRows, ∀ f ∈ r, BlankOK dc f := by
    intro r hr f hf hsp
    obtain ⟨hmne, hcells⟩ := hblank hsp
    simp only [csvRows, List.mem_cons, List.mem_map] at hr
    rcases hr with hr | ⟨row, hrow, rfl⟩
    · subst hr
      simp only [fieldNames, List.mem_map] at hf
      obtain ⟨fld, hfld, rfl⟩ := hf
      obtain ⟨⟨n', hn', hid⟩, _⟩ := hfv fld hfld
      rw [hn']
      intro e
      have e' : n' = [] := by simpa using e
      subst e'; simp [isIdentifier] at hid
    · -- a written cell: the missing marker or the text of a cell of the data
      have hmem : ∀ w ∈ List.zipWith (written E m) fs row, w ≠ [] := by
        intro w hw
        obtain ⟨i, hi, rfl⟩ := List.getElem_of_mem hw
        simp only [List.getElem_zipWith, written]
        split
        · exact hmne
        · obtain ⟨col, hcol, hd'⟩ := zipStar_cells_mem data row hrow _ (List.getElem_mem (l := row) _)
          exact hcells col hcol _ hd'
      exact hmem f hf
  have hfile : fileLines E dc m fs data = fence :: headerLines E [dc] m fs ++ fence :: csvRows.map (writeRow dc) := by
    simp [fileLines, csvRows]
  -- no line breaks inside any line
  have hHprops := headerLines_props E [dc] m fs hh.delimYaml hh.missingYaml hfho
  have hnb : ∀ l ∈ fileLines E dc m fs data, NoBreak l := by
    intro l hl
    rw [hfile] at hl
    simp only [List.cons_append, List.mem_cons, List.mem_append, List.mem_map] at hl
    rcases hl with hl | hl | hl | ⟨r, hr, rfl⟩
    · subst hl; exact ⟨by decide, by decide⟩
    · exact (hHprops l hl).1
    · subst hl; exact ⟨by decide, by decide⟩
    · exact writeRow_noBreak dc hh.delim r (hcsvOK r hr)
  rw [read_joinLines E _ hnb, hfile]
  -- fence loop
  have hsplit := fenceSplit_file (headerLines E [dc] m fs) (csvRows.map (writeRow dc))
    (fun l hl => (hHprops l hl).2)
    (by
      intro c hc
      simp only [List.mem_map] at hc
      obtain ⟨r, hr, rfl⟩ := hc
      exact writeRow_ne_nil dc r (hcsvne r hr))
  -- header
  have hheader := parseHeader_headerLines E [dc] m fs hh.delimYaml hh.missingYaml hfsne hfho
  -- validation of the reconstructed schema
  have hval' : validate ⟨some [dc], some m, some (fs.map (normField E))⟩ = .ok true := by
    rw [validate_iff]
    refine ⟨[dc], m, fs.map (normField E), rfl, rfl, rfl, by simpa using hfsne, hdm, hinf, ?_⟩
    intro f hf
    simp only [List.mem_map] at hf
    obtain ⟨f0, hf0, rfl⟩ := hf
    exact fieldValid_norm E f0 (hfv f0 hf0)
  -- csv reader
  have hread : readRows dc ((csvRows.map (writeRow dc)).map (· ++ ['\n'])) = some csvRows := by
    have := readRows_writeRows dc hh.delim csvRows hcsvne hcsvOK hcsvBlank
    simpa [List.map_map, Function.comp_def] using this
  -- transposition back to columns
  have hrowsEq : ∀ r ∈ (zipStar data).map (fun row => List.zipWith (written E m) fs row), r.length = fs.length := by
    intro r hr
    simp only [List.mem_map] at hr
    obtain ⟨row, hrow, rfl⟩ := hr
    simp [hrowLen row hrow]
  have hzlen : (zipStar data).length = n := zipStar_length n data hdne hrect
  have hstrict : zipStarStrict ((zipStar data).map (fun row => List.zipWith (written E m) fs row))
      = some (List.zipWith (fun f col => col.map (written E m f)) fs data) := by
    rw [← zipStar_map_zipStar (written E m) n hn fs data hlen hdne hrect]
    unfold zipStarStrict
    split
    · rename_i heq
      have : ((zipStar data).map (fun row => List.zipWith (written E m) fs row)).length = 0 := by rw [heq]; rfl
      simp [hzlen] at this; omega
    · rename_i r rs heq
      have hall : rs.all (fun x => decide (x.length = r.length)) = true := by
        rw [List.all_eq_true]
        intro x hx
        have h1 := hrowsEq x (by rw [heq]; simp [hx])
        have h2 := hrowsEq r (by rw [heq]; simp)
        simp [h1, h2]
      rw [heq] at *
      simp [hall]
  have hparse := parseColumns_written E hE m hh.missingStrip fs data hcols
  -- assemble
  unfold readLines
  rw [hsplit]
  simp only [hheader, Except.bind, hval', Bool.not_true, Bool.false_eq_true, if_false, readBody, hread, optErr, csvRows]
  rw [← colSpecs, ← fieldNames, fieldNames_norm, colSpecs_norm]
  simp only [hnamesStrip, ne_eq, not_true_eq_false, if_false, hh.names, Bool.not_true, Bool.false_eq_true,
    readTyped, hstrict, optErr, Except.bind, hparse, valueToScsv, Except.map]

end Scsv
