import Proofs.ScsvFaults
/-! Which Python exception classes `save_scsv` / `read_scsv` can end in (C16, extension). -/
namespace Scsv

/-- every error of `r` is one of `allowed` -/
def ErrIn {α} (allowed : List Err) (r : Except Err α) : Prop := ∀ e, r = .error e → e ∈ allowed

theorem ErrIn.ok {α} (allowed : List Err) (a : α) : ErrIn allowed (.ok a : Except Err α) := by
  intro e h; cases h

theorem ErrIn.error {α} (allowed : List Err) (e0 : Err) (h : e0 ∈ allowed) :
    ErrIn allowed (.error e0 : Except Err α) := by
  intro e he; cases he; exact h

theorem ErrIn.mono {α} {a b : List Err} {r : Except Err α} (h : ErrIn a r) (hab : ∀ e ∈ a, e ∈ b) : ErrIn b r :=
  fun e he => hab e (h e he)

theorem ErrIn.bind {α β} {allowed : List Err} {r : Except Err α} {f : α → Except Err β}
    (hr : ErrIn allowed r) (hf : ∀ a, ErrIn allowed (f a)) : ErrIn allowed (r.bind f) := by
  intro e h
  cases r with
  | error e' => simp [Except.bind] at h; subst h; exact hr e' rfl
  | ok a => exact hf a e h

theorem ErrIn.map {α β} {allowed : List Err} {r : Except Err α} (f : α → β) (hr : ErrIn allowed r) :
    ErrIn allowed (r.map f) := by
  intro e h
  cases r with
  | error e' => simp [Except.map] at h; subst h; exact hr e' rfl
  | ok a => simp [Except.map] at h

theorem optErr_errIn {α} (e0 : Err) (o : Option α) : ErrIn [e0] (optErr e0 o) := by
  intro e h; cases o <;> simp [optErr] at h; simp [h]

theorem construct_errIn (E : FloatExt) (t : Ty) (f : PyVal) : ErrIn [.value, .unmodelled] (construct E t f) := by
  have hopt : ∀ {α β} (o : Option α) (g : α → β), ErrIn [.value, .unmodelled] ((optErr Err.value o).map g) :=
    fun o g => ErrIn.map g ((optErr_errIn .value o).mono (by simp))
  cases t <;> cases f <;> simp only [construct] <;>
    first
    | exact ErrIn.ok _ _
    | exact ErrIn.error _ _ (by simp)
    | exact hopt _ _

theorem parseCell_errIn (E : FloatExt) (t : Ty) (data m : Str) (fill : PyVal) :
    ErrIn [.value, .unmodelled] (parseCell E t data m fill) := by
  unfold parseCell
  split
  · exact construct_errIn E t fill
  · split
    · exact ErrIn.ok _ _
    · exact construct_errIn E t _

theorem trialParse_errIn (E : FloatExt) (m : Str) (t : Ty) (fill : PyVal) (d : Val) :
    ErrIn [.scsv, .unmodelled] (trialParse E m t fill d) := by
  unfold trialParse
  split
  · exact ErrIn.error _ _ (by simp)
  · rename_i e hne hpe
    have := parseCell_errIn E t (pyStr E d) m fill e hpe
    simp at this
    rcases this with rfl | rfl
    · exact absurd rfl hne
    · exact ErrIn.error _ _ (by simp)
  · exact ErrIn.ok _ _

theorem substitute_errIn (E : FloatExt) (m : Str) (t : Ty) (fill : PyVal) (d : Val) :
    ErrIn [.value, .type, .unmodelled] (substitute E m t fill d) := by
  have hc : ∀ t, ErrIn [.value, .type, .unmodelled] (construct E t fill) :=
    fun t => (construct_errIn E t fill).mono (by simp)
  unfold substitute
  cases t <;> simp only
  · cases d <;> exact ErrIn.ok _ _
  · apply ErrIn.bind (hc _)
    intro tf
    cases d <;> cases tf <;> first | exact ErrIn.ok _ _ | exact ErrIn.error _ _ (by simp)
  · cases d <;> first
      | exact ErrIn.error _ _ (by simp)
      | (apply ErrIn.bind (hc _); intro tf; cases tf <;> first | exact ErrIn.ok _ _ | exact ErrIn.error _ _ (by simp))
  · exact ErrIn.ok _ _
  · cases d <;> first
      | exact ErrIn.error _ _ (by simp)
      | (apply ErrIn.bind (hc _); intro tf; cases tf <;> first | exact ErrIn.ok _ _ | exact ErrIn.error _ _ (by simp))

theorem saveCell_errIn (E : FloatExt) (m : Str) (t : Ty) (fill : PyVal) (d : Val) :
    ErrIn [.scsv, .value, .type, .unmodelled] (saveCell E m t fill d) := by
  unfold saveCell
  exact ErrIn.bind ((trialParse_errIn E m t fill d).mono (by simp))
    (fun _ => (substitute_errIn E m t fill d).mono (by simp))

theorem saveRowCells_errIn (E : FloatExt) (m : Str) (row : List Val) (tfs : List (Ty × PyVal)) :
    ErrIn [.scsv, .value, .type, .unmodelled] (saveRowCells E m row tfs) := by
  induction row generalizing tfs with
  | nil => cases tfs <;> simp only [saveRowCells] <;> first | exact ErrIn.ok _ _ | exact ErrIn.error _ _ (by simp)
  | cons d ds ih =>
    cases tfs with
    | nil => simp only [saveRowCells]; exact ErrIn.error _ _ (by simp)
    | cons tf tfs' =>
      obtain ⟨t, f⟩ := tf
      simp only [saveRowCells]
      exact ErrIn.bind (saveCell_errIn E m t f d) (fun w => ErrIn.bind (ih tfs') (fun r => ErrIn.ok _ _))

theorem saveRows_errIn (E : FloatExt) (dc : Char) (m : Str) (tfs : List (Ty × PyVal)) (rows : List (List Val)) :
    ErrIn [.scsv, .value, .type, .unmodelled] (saveRows E dc m tfs rows) := by
  induction rows with
  | nil => exact ErrIn.ok _ _
  | cons r rs ih =>
    simp only [saveRows]
    exact ErrIn.bind (saveRowCells_errIn E m r tfs) (fun c => ErrIn.bind ih (fun r => ErrIn.ok _ _))

theorem valueToScsv_errIn {α} (allowed : List Err) (r : Except Err α) (h : ErrIn (.value :: allowed) r)
    (hs : Err.scsv ∈ allowed) : ErrIn allowed (valueToScsv r) := by
  intro e he
  unfold valueToScsv at he
  split at he
  · cases he; exact hs
  · rename_i hne
    have := h e he
    simp only [List.mem_cons] at this
    rcases this with rfl | this
    · exact absurd he (hne)
    · exact this

theorem validate_errIn (s : Schema) : ErrIn [] (validate s) := by
  intro e h
  exact absurd h (fun h => validate_error s e h)

theorem saveBody_errIn (E : FloatExt) (s : Schema) (data : List (List Val)) :
    ErrIn [.value, .scsv, .type, .unmodelled] (saveBody E s data) := by
  unfold saveBody
  apply ErrIn.bind ((validate_errIn s).mono (by simp))
  intro ok
  split
  · exact ErrIn.error _ _ (by simp)
  · split
    · split
      · exact ErrIn.map _ ((saveRows_errIn E _ _ _ _).mono (by simp))
      · exact ErrIn.error _ _ (by simp)
    · exact ErrIn.error _ _ (by simp)

theorem saveLines_errIn (E : FloatExt) (s : Schema) (data : List (List Val)) :
    ErrIn [.scsv, .type, .unmodelled] (saveLines E s data) := by
  unfold saveLines
  split
  · exact ErrIn.error _ _ (by simp)
  · split
    · exact ErrIn.error _ _ (by simp)
    · exact valueToScsv_errIn _ _ (saveBody_errIn E s _) (by simp)

/-- **`save_scsv` ends in SCSVError or TypeError (delimiter that is not one character, `np.isnan(str)`)
– never in a bare ValueError, KeyError or IndexError** -/
theorem save_errIn (E : FloatExt) (s : Schema) (data : List (List Val)) :
    ErrIn [.scsv, .type, .unmodelled] (save E s data) :=
  ErrIn.map _ (saveLines_errIn E s data)

/-! ### read side -/

theorem parseQuotedValue_errIn (rest : Str) : ErrIn [.unmodelled] (parseQuotedValue rest) := by
  unfold parseQuotedValue
  split
  · split
    · exact ErrIn.ok _ _
    · exact ErrIn.error _ _ (by simp)
  · exact ErrIn.error _ _ (by simp)

theorem parseOptLine_errIn (pfx : Str) (ls : List Str) : ErrIn [.unmodelled] (parseOptLine pfx ls) := by
  unfold parseOptLine
  split
  · split
    · exact ErrIn.map _ (parseQuotedValue_errIn _)
    · exact ErrIn.ok _ _
  · exact ErrIn.ok _ _

theorem parseTypeValue_errIn (ty : Str) : ErrIn [.unmodelled] (parseTypeValue ty) := by
  unfold parseTypeValue
  split
  · exact ErrIn.error _ _ (by simp)
  · split
    · exact ErrIn.ok _ _
    · exact ErrIn.error _ _ (by simp)

theorem parseFieldLines_errIn (fuel : Nat) (ls : List Str) : ErrIn [.unmodelled] (parseFieldLines fuel ls) := by
  induction fuel generalizing ls with
  | zero => unfold parseFieldLines; exact ErrIn.error _ _ (by simp)
  | succ k ih =>
    unfold parseFieldLines
    split
    · exact ErrIn.ok _ _
    · split
      · exact ErrIn.bind (parseQuotedValue_errIn _) (fun name =>
          ErrIn.bind (parseTypeValue_errIn _) (fun ty =>
            ErrIn.bind (parseOptLine_errIn _ _) (fun u =>
              ErrIn.bind (parseOptLine_errIn _ _) (fun f =>
                ErrIn.bind (ih _) (fun fs => ErrIn.ok _ _)))))
      · exact ErrIn.error _ _ (by simp)
    · exact ErrIn.error _ _ (by simp)

theorem parseHeader_errIn (ls : List Str) : ErrIn [.type, .yaml, .unmodelled] (parseHeader ls) := by
  unfold parseHeader
  split
  · exact ErrIn.error _ _ (by simp)
  · split
    · exact ErrIn.error _ _ (by simp)
    · split
      · split
        · exact ErrIn.error _ _ (by simp)
        · split
          · apply ErrIn.bind ((parseQuotedValue_errIn _).mono (by simp))
            intro d
            apply ErrIn.bind ((parseQuotedValue_errIn _).mono (by simp))
            intro m
            split
            · exact ErrIn.error _ _ (by simp)
            · exact ErrIn.bind ((parseFieldLines_errIn _ _).mono (by simp)) (fun fs => ErrIn.ok _ _)
          · exact ErrIn.error _ _ (by simp)
      · exact ErrIn.error _ _ (by simp)

theorem parseColumn_errIn (E : FloatExt) (m : Str) (t : Ty) (fill : PyVal) (col : List Str) :
    ErrIn [.value, .unmodelled] (parseColumn E m t fill col) := by
  induction col with
  | nil => exact ErrIn.ok _ _
  | cons x xs ih =>
    simp only [parseColumn]
    exact ErrIn.bind (parseCell_errIn E t x m fill) (fun v => ErrIn.bind ih (fun vs => ErrIn.ok _ _))

theorem parseColumns_errIn (E : FloatExt) (m : Str) (tfs : List (Ty × PyVal)) (cols : List (List Str)) :
    ErrIn [.value, .unmodelled] (parseColumns E m tfs cols) := by
  induction tfs generalizing cols with
  | nil => cases cols <;> simp only [parseColumns] <;> first | exact ErrIn.ok _ _ | exact ErrIn.error _ _ (by simp)
  | cons tf tfs' ih =>
    obtain ⟨t, f⟩ := tf
    cases cols with
    | nil => simp only [parseColumns]; exact ErrIn.error _ _ (by simp)
    | cons c cs =>
      simp only [parseColumns]
      exact ErrIn.bind (parseColumn_errIn E m t f c) (fun v => ErrIn.bind (ih cs) (fun vs => ErrIn.ok _ _))

theorem readTyped_errIn (E : FloatExt) (m : Str) (tfs : List (Ty × PyVal)) (rows : List (List Str)) :
    ErrIn [.scsv, .unmodelled] (readTyped E m tfs rows) := by
  unfold readTyped
  apply valueToScsv_errIn _ _ _ (by simp)
  exact ErrIn.bind ((optErr_errIn .value _).mono (by simp)) (fun cols => (parseColumns_errIn E m tfs cols).mono (by simp))

/-- **`read_scsv` never ends in a bare ValueError except from `collections.namedtuple`**: the errors of
the model are SCSVError, the YAML error, TypeError (empty header / multi-character delimiter),
StopIteration (no CSV lines), KeyError (field without name in the header), and `ValueError` only
when the field names are rejected by `namedtuple` -/
theorem readBody_errIn (E : FloatExt) (s : Schema) (csvLines : List Str) :
    ErrIn [.scsv, .type, .csv, .stopIteration, .value, .unmodelled] (readBody E s csvLines) := by
  unfold readBody
  split
  · split
    · apply ErrIn.bind ((optErr_errIn .csv _).mono (by simp))
      intro rows
      split
      · exact ErrIn.error _ _ (by simp)
      · split
        · exact ErrIn.error _ _ (by simp)
        · split
          · exact ErrIn.error _ _ (by simp)
          · exact ErrIn.map _ ((readTyped_errIn E _ _ _).mono (by simp))
    · exact ErrIn.error _ _ (by simp)
  · exact ErrIn.error _ _ (by simp)

theorem readBody_value (E : FloatExt) (s : Schema) (csvLines : List Str)
    (h : readBody E s csvLines = .error .value) :
    ∃ fs, s.fields = some fs ∧ namedtupleOK (fs.map (fun f => f.name.getD [])) = false := by
  unfold readBody at h
  split at h
  · rename_i dl m fs hd hm hf
    split at h
    · cases hr : optErr Err.csv (Csv.readRows _ csvLines) with
      | error e =>
        rw [hr] at h; simp [Except.bind] at h
        have := optErr_errIn .csv _ e hr
        simp at this; subst this; cases h
      | ok rows =>
        rw [hr] at h
        simp only [Except.bind] at h
        split at h
        · cases h
        · split at h
          · cases h
          · split at h
            · rename_i hnt
              exact ⟨fs, hf, by simpa using hnt⟩
            · exfalso
              rename_i hdr rows' _ _
              cases hrt : readTyped E m (fs.map (fun f => ((typeOf f.typeName).getD .str, f.fillVal))) rows' with
              | error e =>
                rw [hrt] at h; simp [Except.map] at h; subst h
                have := readTyped_errIn E _ _ _ _ hrt
                simp at this
              | ok v => rw [hrt] at h; simp [Except.map] at h
    · cases h
  · cases h

theorem readLines_errIn (E : FloatExt) (lines : List Str) :
    ErrIn [.scsv, .yaml, .type, .csv, .stopIteration, .value, .unmodelled] (readLines E lines) := by
  unfold readLines
  apply ErrIn.bind ((parseHeader_errIn _).mono (by simp))
  intro s
  apply ErrIn.bind ((validate_errIn s).mono (by simp))
  intro ok
  split
  · exact ErrIn.error _ _ (by simp)
  · exact (readBody_errIn E s _).mono (by simp)

theorem readLines_value (E : FloatExt) (lines : List Str) (h : readLines E lines = .error .value) :
    ∃ s fs, parseHeader (fenceSplit lines false false).1 = .ok s ∧ s.fields = some fs ∧
      namedtupleOK (fs.map (fun f => f.name.getD [])) = false := by
  unfold readLines at h
  cases hp : parseHeader (fenceSplit lines false false).1 with
  | error e =>
    rw [hp] at h; simp [Except.bind] at h; subst h
    have := parseHeader_errIn _ _ hp
    simp at this
  | ok s =>
    rw [hp] at h
    simp only [Except.bind] at h
    cases hv : validate s with
    | error e => exact absurd hv (fun h => validate_error s e h)
    | ok ok =>
      rw [hv] at h
      simp only at h
      split at h
      · cases h
      · obtain ⟨fs, hf, hnt⟩ := readBody_value E s _ h
        exact ⟨s, fs, rfl, hf, hnt⟩

end Scsv
