import Proofs.Geom
/-! Helper lemmas for the density clauses of C20 (`stats.point_density` and its kernels). -/
namespace ModelR.Density
open ModelR.Diag ModelR.Geom

/-! ### normalisation and clipping -/

theorem divMean_eq (t : List ℝ) : divMean t = t.map (· / (t.sum / t.length)) := by
  simp [divMean, RofNat]

/-- `totals / totals.mean()` has mean 1 whenever the mean is not 0 -/
theorem divMean_mean_one (t : List ℝ) (hm : t.sum / t.length ≠ 0) :
    (divMean t).sum / (divMean t).length = 1 := by
  rw [divMean_eq, sum_map_div, List.length_map]
  have hlen : (t.length : ℝ) ≠ 0 := by
    intro h; apply hm; rw [h]; simp
  have hsum : t.sum ≠ 0 := by
    intro h; apply hm; rw [h]; simp
  field_simp

theorem clipNeg_nonneg (t : List ℝ) : ∀ x ∈ clipNeg t, 0 ≤ x := by
  intro x hx
  simp only [clipNeg, List.mem_map] at hx
  obtain ⟨y, _, rfl⟩ := hx
  split_ifs with h
  · exact le_refl _
  · exact not_lt.mp h

theorem clipNeg_length (t : List ℝ) : (clipNeg t).length = t.length := by simp [clipNeg]

/-- clipping never lowers an entry, so it never lowers the mean -/
theorem clipNeg_sum_ge (t : List ℝ) : t.sum ≤ (clipNeg t).sum := by
  have := sum_map_le_sum_map t (fun x => x) (fun x => if x < 0 then 0 else x)
    (by intro x _; split_ifs with h <;> linarith)
  simpa [clipNeg] using this

/-- clipping is the identity on a non-negative list -/
theorem clipNeg_id (t : List ℝ) (h : ∀ x ∈ t, 0 ≤ x) : clipNeg t = t := by
  simp only [clipNeg]
  conv_rhs => rw [← List.map_id t]
  apply List.map_congr_left
  intro x hx
  simp [not_lt.mpr (h x hx)]

/-! ### data order and sign -/

theorem products_perm {data data' : List Vec3} (h : data.Perm data') (c : Vec3) (axial : Bool) :
    (products data c axial).Perm (products data' c axial) := h.map _

theorem kernelEval_perm (k : Kernel) (σ : ℝ) (axial : Bool) {c c' : List ℝ} (h : c.Perm c') :
    (kernelEval k σ axial c).1.Perm (kernelEval k σ axial c').1
    ∧ (kernelEval k σ axial c).2 = (kernelEval k σ axial c').2 := by
  cases k <;> simp only [kernelEval, h.length_eq] <;> (try split_ifs) <;>
    first
    | exact ⟨h.map _, rfl⟩
    | exact ⟨h.map _, trivial⟩
    | exact ⟨(h.filter _).map _, rfl⟩
    | exact ⟨(h.filter _).map _, trivial⟩

/-- with a scalar weight, the total at a counter does not depend on the order of the data -/
theorem total_perm (k : Kernel) (σ : ℝ) (axial : Bool) (w : ℝ) {data data' : List Vec3}
    (h : data.Perm data') (c : Vec3) :
    total k σ axial (.scalar w) data c = total k σ axial (.scalar w) data' c := by
  obtain ⟨h1, h2⟩ := kernelEval_perm k σ axial (products_perm h c axial)
  simp only [total, applyWeights, listSum_eq_sum, h2]
  rw [(h1.map _).sum_eq]

/-- `b` is `a` or `-a` -/
def SignFlip (a b : Vec3) : Prop := b = a ∨ b = fun i => - a i

theorem products_sign {data data' : List Vec3} (h : List.Forall₂ SignFlip data data') (c : Vec3) :
    products data' c true = products data c true := by
  induction h with
  | nil => rfl
  | cons hab _ ih =>
    simp only [products, List.map_cons, if_true] at ih ⊢
    rw [ih]
    congr 1
    rcases hab with rfl | rfl
    · rfl
    · simp only [Rabs]
      rw [← abs_neg]; congr 1; ring

/-! ### the counting grid -/

theorem counters_unit (g : ℕ) : ∀ c ∈ counters g, c 0 * c 0 + c 1 * c 1 + c 2 * c 2 = 1 := by
  intro c hc
  simp only [counters, List.mem_flatMap, List.mem_map] at hc
  obtain ⟨i, _, j, _, rfl⟩ := hc
  have := toCartesian_normsq (Rpi / 2 - gridCoord g i (-Rpi) Rpi) (Rpi / 2 - Rasin (gridCoord g j (-1) 1)) 1
  simp only [vec3]
  linear_combination this

/-! ### the normalisation constants (`scale`) of the kernels -/

theorem kambRadius_axial (n σ : ℝ) (hn : 0 < n) (hσ : σ ≠ 0) :
    0 < kambRadius n σ true ∧ kambRadius n σ true < 1 := by
  have hs : 0 < σ * σ := mul_self_pos.mpr hσ
  have hd : 0 < n + σ * σ := by linarith
  simp only [kambRadius, if_true]
  constructor
  · rw [sub_pos, div_lt_one hd]; linarith
  · have : 0 < σ * σ / (n + σ * σ) := div_pos hs hd
    linarith

theorem kambRadius_nonaxial (n σ : ℝ) (hσ : σ ≠ 0) (hn : σ * σ < n) :
    0 < kambRadius n σ false ∧ kambRadius n σ false < 1 := by
  have hs : 0 < σ * σ := mul_self_pos.mpr hσ
  have hd : 0 < n + σ * σ := by linarith
  simp only [kambRadius]
  constructor
  · have : σ * σ / (n + σ * σ) < 1 / 2 := by rw [div_lt_iff₀ hd]; linarith
    simp; linarith
  · have : 0 < σ * σ / (n + σ * σ) := div_pos hs hd
    simp; linarith

theorem kambUnits_pos (n r : ℝ) (hn : 0 < n) (h0 : 0 < r) (h1 : r < 1) : 0 < kambUnits n r := by
  simp only [kambUnits, Rsqrt]
  apply Real.sqrt_pos.mpr
  have : 0 < 1 - r := by linarith
  positivity

/-- non-axial mode with `n ≤ σ²`: the argument of the square root in `_kamb_units` is `≤ 0`
(the real code then returns NaN, or divides by 0 when `n = σ²`) -/
theorem kambUnits_arg_nonpos_of_non_axial_small_n (n σ : ℝ) (hn : 0 < n) (hσ : n ≤ σ * σ) :
    n * kambRadius n σ false * (1 - kambRadius n σ false) ≤ 0 := by
  have hd : 0 < n + σ * σ := by nlinarith [mul_self_nonneg σ]
  have hr : kambRadius n σ false ≤ 0 := by
    simp only [kambRadius]
    have : 1 / 2 ≤ σ * σ / (n + σ * σ) := by rw [le_div_iff₀ hd]; linarith
    simp; linarith
  have h1 : 0 ≤ 1 - kambRadius n σ false := by linarith
  have : n * kambRadius n σ false ≤ 0 := mul_nonpos_of_nonneg_of_nonpos hn.le hr
  exact mul_nonpos_of_nonpos_of_nonneg this h1

/-- **the scale of every kernel is positive** for a non-empty data set when `axial = True`, or when
`axial = False` and `n > σ²` -/
theorem scale_pos (k : Kernel) (σ : ℝ) (axial : Bool) (c : List ℝ) (hc : c ≠ []) (hσ : σ ≠ 0)
    (hdom : axial = true ∨ σ * σ < (c.length : ℝ)) : 0 < (kernelEval k σ axial c).2 := by
  have hn : (0 : ℝ) < c.length := by
    have : 0 < c.length := List.length_pos_iff.mpr hc
    exact_mod_cast this
  have hs : 0 < σ * σ := mul_self_pos.mpr hσ
  have hrad : 0 < kambRadius c.length σ axial ∧ kambRadius c.length σ axial < 1 := by
    rcases hdom with h | h
    · subst h; exact kambRadius_axial _ σ hn hσ
    · cases axial
      · exact kambRadius_nonaxial _ σ hσ h
      · exact kambRadius_axial _ σ hn hσ
  cases k <;> simp only [kernelEval, RofNat]
  · exact kambUnits_pos _ _ hn hrad.1 hrad.2
  · positivity
  · split_ifs
    · simp only [Rsqrt]; apply Real.sqrt_pos.mpr
      have h1 : (0:ℝ) < c.length / (σ * σ) := div_pos hn hs
      have : 2 * (1 + (c.length : ℝ) / (σ * σ)) / 2 - 1 = c.length / (σ * σ) := by ring
      rw [this]; positivity
    · simp only [Rsqrt]; apply Real.sqrt_pos.mpr
      have h1 : (0:ℝ) < c.length / (σ * σ) := div_pos hn hs
      have : 1 + (c.length : ℝ) / (σ * σ) - 1 = c.length / (σ * σ) := by ring
      rw [this]; positivity
  · exact kambUnits_pos _ _ hn hrad.1 hrad.2
  · exact kambUnits_pos _ _ hn hrad.1 hrad.2

/-! ### the Schmidt kernel with no datum inside any counting circle -/

theorem sum_map_const (c : List ℝ) (a : ℝ) : (c.map fun _ => a).sum = c.length * a := by
  induction c with
  | nil => simp
  | cons x xs ih => rw [List.map_cons, List.sum_cons, ih, List.length_cons]; push_cast; ring

/-- if no datum lies within the 1 % circle of a counter, the Schmidt total at that counter (unit
weight) is exactly 0 -/
theorem schmidt_total_zero (σ : ℝ) (axial : Bool) (data : List Vec3) (counter : Vec3) (hne : data ≠ [])
    (hfar : ∀ p ∈ products data counter axial, ¬ (1 - p ≤ 0.01)) :
    total .schmidtCount σ axial (.scalar 1) data counter = .ok 0 := by
  have hlen : (products data counter axial).length = data.length := by simp [products]
  have hn : ((products data counter axial).length : ℝ) ≠ 0 := by
    rw [hlen]
    have : 0 < data.length := List.length_pos_iff.mpr hne
    exact_mod_cast this.ne'
  have hcounts : (kernelEval .schmidtCount σ axial (products data counter axial)).1
      = (products data counter axial).map fun _ => 0.5 / ((products data counter axial).length : ℝ) := by
    simp only [kernelEval, RofNat]
    apply List.map_congr_left
    intro p hp
    simp [hfar p hp]
  simp only [total, applyWeights, hcounts, listSum_eq_sum, List.map_map]
  have : ((fun x : ℝ => x * 1) ∘ fun _ : ℝ => 0.5 / ((products data counter axial).length : ℝ))
      = fun _ => 0.5 / ((products data counter axial).length : ℝ) := by funext _; simp
  rw [this, sum_map_const]
  congr 1
  have : ((products data counter axial).length : ℝ) * (0.5 / ((products data counter axial).length : ℝ)) = 0.5 := by
    field_simp
  rw [this]; simp

end ModelR.Density
