import ModelR.Resample
import Mathlib.Tactic.Linarith
import Mathlib.Algebra.Order.BigOperators.Group.List
import Mathlib.MeasureTheory.Measure.Lebesgue.Basic
import Mathlib.MeasureTheory.Integral.Bochner.Set
/-! Helper lemmas for C15 (`stats.resample_orientations`): the linear-scan specification of
`searchsorted`, numpy's binary search agrees with it on ascending arrays, prefix sums,
`gather`, the stable argsort. -/
namespace ModelR
open List MeasureTheory Set

theorem ss_le_length (c : List ℝ) (u : ℝ) : searchsortedLeft c u ≤ c.length := by
  induction c with
  | nil => simp [searchsortedLeft]
  | cons x xs ih => simp only [searchsortedLeft]; split_ifs <;> simp; omega

/-- everything before the returned position is `< u` -/
theorem ss_before (c : List ℝ) (u : ℝ) (j : ℕ) (hj : j < searchsortedLeft c u)
    (hj' : j < c.length) : c[j] < u := by
  induction c generalizing j with
  | nil => simp at hj'
  | cons x xs ih =>
    simp only [searchsortedLeft] at hj
    split_ifs at hj with h
    · cases j with
      | zero => simpa using h
      | succ k => simp only [getElem_cons_succ]; exact ih k (by omega) _
    · omega

/-- the entry at the returned position (if any) is `≥ u` -/
theorem ss_at (c : List ℝ) (u : ℝ) (h : searchsortedLeft c u < c.length) :
    u ≤ c[searchsortedLeft c u] := by
  induction c with
  | nil => simp at h
  | cons x xs ih =>
    simp only [searchsortedLeft] at h ⊢
    split_ifs at h ⊢ with hx
    · simp only [getElem_cons_succ]; exact ih (by simpa using h)
    · simpa using hx

theorem ss_unique (c : List ℝ) (u : ℝ) (i : ℕ) (hi : i < c.length)
    (hb : ∀ j (hj : j < i), c[j] < u) (ha : u ≤ c[i]) : searchsortedLeft c u = i := by
  induction c generalizing i with
  | nil => simp at hi
  | cons x xs ih =>
    simp only [searchsortedLeft]
    cases i with
    | zero => simp only [getElem_cons_zero] at ha; simp [not_lt.mpr ha]
    | succ k =>
      have h0 := hb 0 (by omega)
      simp only [getElem_cons_zero] at h0
      simp only [h0, if_true, Nat.add_right_cancel_iff]
      apply ih k (by simpa using hi)
      · intro j hj; have := hb (j+1) (by omega); simpa using this
      · simpa using ha
/-- prefix sum of the first `i` entries -/
noncomputable def pre (fa : List ℝ) (i : ℕ) : ℝ := (fa.take i).sum

@[simp] theorem length_cumsumFrom (a : ℝ) (l : List ℝ) : (cumsumFrom a l).length = l.length := by
  induction l generalizing a with
  | nil => rfl
  | cons x xs ih => simp [cumsumFrom, ih]

@[simp] theorem length_cumsum (l : List ℝ) : (cumsum l).length = l.length := by
  cases l <;> simp [cumsum]

@[simp] theorem length_setLast1 (l : List ℝ) : (setLast1 l).length = l.length := by
  induction l with
  | nil => rfl
  | cons x xs ih =>
    cases xs with
    | nil => rfl
    | cons y ys => simp only [setLast1, length_cons] at ih ⊢; omega

@[simp] theorem length_cumfrac (l : List ℝ) : (cumfrac l).length = l.length := by
  simp [cumfrac]

theorem getElem_cumsumFrom (a : ℝ) (l : List ℝ) (i : ℕ) (h : i < (cumsumFrom a l).length) :
    (cumsumFrom a l)[i] = a + (l.take (i + 1)).sum := by
  induction l generalizing a i with
  | nil => simp [cumsumFrom] at h
  | cons x xs ih =>
    cases i with
    | zero => simp [cumsumFrom]
    | succ k =>
      simp only [cumsumFrom, getElem_cons_succ]
      rw [ih]; simp [add_assoc]

theorem getElem_cumsum (l : List ℝ) (i : ℕ) (h : i < (cumsum l).length) :
    (cumsum l)[i] = pre l (i + 1) := by
  cases l with
  | nil => simp [cumsum] at h
  | cons x xs =>
    cases i with
    | zero => simp [cumsum, pre]
    | succ k => simp only [cumsum, getElem_cons_succ, pre]; rw [getElem_cumsumFrom]; simp

theorem getElem_setLast1 (l : List ℝ) (i : ℕ) (h : i < (setLast1 l).length) :
    (setLast1 l)[i] = if i + 1 = l.length then 1 else l[i]'(by simpa using h) := by
  induction l generalizing i with
  | nil => simp [setLast1] at h
  | cons x xs ih =>
    cases xs with
    | nil =>
      have : i = 0 := by simp [setLast1] at h; omega
      subst this; simp [setLast1]
    | cons y ys =>
      cases i with
      | zero => simp [setLast1]
      | succ k =>
        simp only [setLast1, getElem_cons_succ]
        rw [ih]; simp

/-- entries of the searched array: prefix sums, the last one replaced by 1 -/
theorem getElem_cumfrac (fa : List ℝ) (i : ℕ) (h : i < (cumfrac fa).length) :
    (cumfrac fa)[i] = if i + 1 = fa.length then 1 else pre fa (i + 1) := by
  simp only [cumfrac, getElem_setLast1, length_cumsum, getElem_cumsum]

theorem pre_zero (fa : List ℝ) : pre fa 0 = 0 := by simp [pre]
theorem pre_succ (fa : List ℝ) (i : ℕ) (h : i < fa.length) : pre fa (i + 1) = pre fa i + fa[i] := by
  unfold pre
  rw [List.take_add_one, List.sum_append]
  simp [h]
theorem pre_length (fa : List ℝ) : pre fa fa.length = fa.sum := by simp [pre]
theorem pre_mono (fa : List ℝ) (hpos : ∀ x ∈ fa, 0 ≤ x) (i j : ℕ) (hij : i ≤ j) : pre fa i ≤ pre fa j := by
  induction j with
  | zero => have : i = 0 := by omega
            subst this; exact le_refl _
  | succ k ih =>
    rcases Nat.lt_or_ge i (k + 1) with h | h
    · have := ih (by omega)
      by_cases hk : k < fa.length
      · rw [pre_succ fa k hk]; have := hpos _ (getElem_mem hk); linarith
      · have e : pre fa (k+1) = pre fa k := by simp [pre, List.take_of_length_le (by omega : fa.length ≤ k), List.take_of_length_le (by omega : fa.length ≤ k+1)]
        linarith
    · have : i = k + 1 := by omega
      subst this; exact le_refl _

/-! ### gather -/

theorem gather_length {α : Type} (xs : List α) (idx : List ℕ) (h : ∀ k ∈ idx, k < xs.length) :
    (gather xs idx).length = idx.length := by
  induction idx with
  | nil => rfl
  | cons k ks ih =>
    have hk := h k (by simp)
    simp only [gather, filterMap_cons, getElem?_eq_getElem hk, length_cons]
    exact congrArg (· + 1) (ih (fun j hj => h j (by simp [hj])))

theorem getElem_gather {α : Type} (xs : List α) (idx : List ℕ) (h : ∀ k ∈ idx, k < xs.length)
    (j : ℕ) (hj : j < (gather xs idx).length) :
    (gather xs idx)[j] = xs[idx[j]'(by rw [gather_length xs idx h] at hj; exact hj)]'(h _ (getElem_mem _)) := by
  induction idx generalizing j with
  | nil => simp [gather] at hj
  | cons k ks ih =>
    have hk := h k (by simp)
    have hks : ∀ j ∈ ks, j < xs.length := fun j hj => h j (by simp [hj])
    have e : gather xs (k :: ks) = xs[k] :: gather xs ks := by
      simp [gather, getElem?_eq_getElem hk]
    cases j with
    | zero => simp [e]
    | succ m =>
      simp only [e, getElem_cons_succ]
      exact ih hks m _

theorem mem_gather {α : Type} (xs : List α) (idx : List ℕ) (x : α) (hx : x ∈ gather xs idx) : x ∈ xs := by
  simp only [gather, mem_filterMap] at hx
  obtain ⟨k, _, hk⟩ := hx
  exact mem_of_getElem? hk

theorem gather_range {α : Type} (xs : List α) : gather xs (List.range xs.length) = xs := by
  apply List.ext_getElem?
  intro i
  simp only [gather]
  by_cases h : i < xs.length
  · have hl : (filterMap (fun x => xs[x]?) (range xs.length)).length = xs.length := by
      have := gather_length xs (range xs.length) (by intro k hk; simpa using hk)
      simpa [gather] using this
    rw [getElem?_eq_getElem (by omega), getElem?_eq_getElem h]
    have := getElem_gather xs (range xs.length) (by intro k hk; simpa using hk) i (by simpa [gather] using (by omega : i < (filterMap (fun x => xs[x]?) (range xs.length)).length))
    simp only [gather] at this
    rw [this]; simp
  · have hl : (filterMap (fun x => xs[x]?) (range xs.length)).length = xs.length := by
      have := gather_length xs (range xs.length) (by intro k hk; simpa using hk)
      simpa [gather] using this
    rw [getElem?_eq_none (by omega), getElem?_eq_none (by omega)]

/-- gathering along a permutation of `0..n-1` permutes the array -/
theorem gather_perm {α : Type} (xs : List α) (p : List ℕ) (hp : p.Perm (List.range xs.length)) :
    (gather xs p).Perm xs := by
  have := hp.filterMap (fun k => xs[k]?)
  rw [show filterMap (fun k => xs[k]?) (range xs.length) = xs from gather_range xs] at this
  exact this

theorem perm_index_lt {n : ℕ} (p : List ℕ) (hp : p.Perm (List.range n)) : ∀ k ∈ p, k < n := by
  intro k hk; have := hp.mem_iff.mp hk; simpa using this


/-! ### selection intervals and their measure -/

/-- the searched array is ascending when the volumes are non-negative and the partial sums stay ≤ 1 -/
theorem cumfrac_sorted (fa : List ℝ) (hpos : ∀ x ∈ fa, 0 ≤ x) (hle : fa.sum ≤ 1) :
    (cumfrac fa).Pairwise (· ≤ ·) := by
  rw [List.pairwise_iff_getElem]
  intro i j hi hj hij
  rw [getElem_cumfrac, getElem_cumfrac]
  simp only [length_cumfrac] at hi hj
  have hi' : ¬ (i + 1 = fa.length) := by omega
  simp only [hi', if_false]
  split_ifs with h
  · calc pre fa (i+1) ≤ pre fa fa.length := pre_mono fa hpos _ _ (by omega)
      _ = fa.sum := pre_length fa
      _ ≤ 1 := hle
  · exact pre_mono fa hpos _ _ (by omega)

/-- a variate below 1 always selects an existing grain (because the last entry is forced to 1) -/
theorem ss_cumfrac_lt (fa : List ℝ) (hne : fa ≠ []) (u : ℝ) (hu : u ≤ 1) :
    searchsortedLeft (cumfrac fa) u < fa.length := by
  by_contra hcon
  have hn : 0 < fa.length := List.length_pos_iff.mpr hne
  have h1 := ss_before (cumfrac fa) u (fa.length - 1) (by omega) (by simp; omega)
  rw [getElem_cumfrac] at h1
  simp only [show fa.length - 1 + 1 = fa.length by omega, if_true] at h1
  linarith

/-- **which variates select position `i`** (normalised non-negative volumes): exactly those in
`(pre i, pre (i+1)]` — for `i = 0` there is no lower bound. -/
theorem select_iff (fa : List ℝ) (hpos : ∀ x ∈ fa, 0 ≤ x) (hsum : fa.sum = 1) (u : ℝ)
    (i : ℕ) (hi : i < fa.length) :
    searchsortedLeft (cumfrac fa) u = i ↔ (i = 0 ∨ pre fa i < u) ∧ u ≤ pre fa (i + 1) := by
  have hc : ∀ j (hj : j < fa.length), (cumfrac fa)[j]'(by simpa using hj) = pre fa (j + 1) := by
    intro j hj
    rw [getElem_cumfrac]
    split_ifs with h
    · rw [h, pre_length, hsum]
    · rfl
  constructor
  · intro h
    constructor
    · rcases Nat.eq_zero_or_pos i with h0 | h0
      · left; exact h0
      · right
        have := ss_before (cumfrac fa) u (i - 1) (by omega) (by simp; omega)
        rw [hc (i - 1) (by omega)] at this
        rwa [show i - 1 + 1 = i by omega] at this
    · have := ss_at (cumfrac fa) u (by rw [h]; simpa using hi)
      simp only [h] at this
      rwa [hc i hi] at this
  · rintro ⟨hlo, hhi⟩
    apply ss_unique _ _ _ (by simpa using hi)
    · intro j hj
      rw [hc j (by omega)]
      rcases hlo with h0 | h0
      · omega
      · exact lt_of_le_of_lt (pre_mono fa hpos _ _ (by omega)) h0
    · rw [hc i hi]; exact hhi

theorem volume_sandwich (S : Set ℝ) (a b : ℝ) (h1 : Ioo a b ⊆ S) (h2 : S ⊆ Icc a b) :
    volume S = ENNReal.ofReal (b - a) := by
  apply le_antisymm
  · calc volume S ≤ volume (Icc a b) := measure_mono h2
      _ = ENNReal.ofReal (b - a) := Real.volume_Icc
  · calc ENNReal.ofReal (b - a) = volume (Ioo a b) := Real.volume_Ioo.symm
      _ ≤ volume S := measure_mono h1

/-- Lebesgue measure of the set of variates in `[0,1)` that select position `i` is `fa[i]`. -/
theorem volume_select (fa : List ℝ) (hpos : ∀ x ∈ fa, 0 ≤ x) (hsum : fa.sum = 1)
    (i : ℕ) (hi : i < fa.length) :
    volume {u : ℝ | u ∈ Ico (0:ℝ) 1 ∧ searchsortedLeft (cumfrac fa) u = i} = ENNReal.ofReal fa[i] := by
  have hfi : fa[i] = pre fa (i + 1) - pre fa i := by rw [pre_succ fa i hi]; ring
  rw [hfi]
  have h0 : 0 ≤ pre fa i := by simpa [pre_zero] using pre_mono fa hpos 0 i (by omega)
  have h1 : pre fa (i + 1) ≤ 1 := by
    calc pre fa (i+1) ≤ pre fa fa.length := pre_mono fa hpos _ _ (by omega)
      _ = 1 := by rw [pre_length, hsum]
  apply volume_sandwich
  · intro u hu
    simp only [mem_Ioo] at hu
    simp only [mem_ofPred_eq, mem_Ico]
    refine ⟨⟨by linarith, by linarith⟩, ?_⟩
    rw [select_iff fa hpos hsum u i hi]
    exact ⟨Or.inr hu.1, hu.2.le⟩
  · intro u hu
    simp only [mem_ofPred_eq, mem_Ico] at hu
    obtain ⟨⟨hu0, hu1⟩, hsel⟩ := hu
    rw [select_iff fa hpos hsum u i hi] at hsel
    simp only [mem_Icc]
    refine ⟨?_, hsel.2⟩
    rcases hsel.1 with h | h
    · subst h; rw [pre_zero]; exact hu0
    · exact h.le

/-! ### numpy's binary search -/

theorem ss_unique' (c : List ℝ) (u : ℝ) (i : ℕ) (hi : i ≤ c.length)
    (hb : ∀ j (hj : j < i), c[j] < u) (ha : ∀ h : i < c.length, u ≤ c[i]) :
    searchsortedLeft c u = i := by
  rcases Nat.lt_or_ge i c.length with h | h
  · exact ss_unique c u i h hb (ha h)
  · have hi' : i = c.length := by omega
    subst hi'
    apply le_antisymm (ss_le_length c u)
    by_contra hcon
    have := ss_at c u (by omega)
    have := hb _ (by omega : searchsortedLeft c u < c.length)
    linarith

/-- numpy's binary search returns the linear-scan position on an ascending array -/
theorem bsearchLeft_eq (c : List ℝ) (hs : c.Pairwise (· ≤ ·)) (u : ℝ) (fuel lo hi : ℕ)
    (hlh : lo ≤ hi) (hh : hi ≤ c.length) (hf : hi - lo ≤ fuel)
    (hlo : ∀ j (hj : j < c.length), j < lo → c[j] < u)
    (hhi : ∀ j (hj : j < c.length), hi ≤ j → u ≤ c[j]) :
    bsearchLeft c u fuel lo hi = searchsortedLeft c u := by
  induction fuel generalizing lo hi with
  | zero =>
    have : lo = hi := by omega
    subst this
    simp only [bsearchLeft]
    exact (ss_unique' c u lo hh (fun j hj => hlo j (by omega) hj) (fun h => hhi lo h (le_refl _))).symm
  | succ n ih =>
    simp only [bsearchLeft]
    split_ifs with h1 h2
    · -- c[mid] < u
      have hmid : lo + (hi - lo) / 2 < c.length := by omega
      rw [← List.getElem_eq_getD (h := hmid)] at h2
      apply ih _ _ (by omega) hh (by omega)
      · intro j hj hjm
        have : c[j] ≤ c[lo + (hi - lo) / 2] := by
          rcases Nat.lt_or_ge j (lo + (hi - lo) / 2) with h | h
          · exact (List.pairwise_iff_getElem.mp hs) j _ hj hmid h
          · have : j = lo + (hi - lo) / 2 := by omega
            subst this; exact le_refl _
        linarith
      · exact hhi
    · have hmid : lo + (hi - lo) / 2 < c.length := by omega
      rw [← List.getElem_eq_getD (h := hmid)] at h2
      apply ih _ _ (by omega) (by omega) (by omega) hlo
      intro j hj hjm
      have : c[lo + (hi - lo) / 2] ≤ c[j] := by
        rcases Nat.lt_or_ge (lo + (hi - lo) / 2) j with h | h
        · exact (List.pairwise_iff_getElem.mp hs) _ j hmid hj h
        · have : j = lo + (hi - lo) / 2 := by omega
          subst this; exact le_refl _
      linarith
    · have : lo = hi := by omega
      subst this
      exact (ss_unique' c u lo hh (fun j hj => hlo j (by omega) hj) (fun h => hhi lo h (le_refl _))).symm

theorem bsearchLeft_full (c : List ℝ) (hs : c.Pairwise (· ≤ ·)) (u : ℝ) :
    bsearchLeft c u c.length 0 c.length = searchsortedLeft c u :=
  bsearchLeft_eq c hs u _ _ _ (by omega) (le_refl _) (by omega) (by intro j _ h; omega)
    (by intro j hj h; omega)

/-! ### stable argsort -/
theorem insertIdx_perm (key : ℕ → ℝ) (i : ℕ) (l : List ℕ) : (insertIdx key i l).Perm (i :: l) := by
  induction l with
  | nil => simp [insertIdx]
  | cons j js ih =>
    simp only [insertIdx]
    split_ifs
    · exact Perm.refl _
    · exact (Perm.cons j ih).trans (Perm.swap i j js)

theorem insertIdx_sorted (key : ℕ → ℝ) (i : ℕ) (l : List ℕ)
    (hl : l.Pairwise (fun a b => key a ≤ key b)) :
    (insertIdx key i l).Pairwise (fun a b => key a ≤ key b) := by
  induction l with
  | nil => simp [insertIdx]
  | cons j js ih =>
    simp only [insertIdx]
    rw [pairwise_cons] at hl
    split_ifs with h
    · rw [pairwise_cons]
      refine ⟨?_, pairwise_cons.mpr hl⟩
      intro b hb
      rcases mem_cons.mp hb with rfl | hb
      · exact h.le
      · exact le_trans h.le (hl.1 b hb)
    · rw [pairwise_cons]
      refine ⟨?_, ih hl.2⟩
      intro b hb
      rcases mem_cons.mp ((insertIdx_perm key i js).mem_iff.mp hb) with rfl | hb
      · exact not_lt.mp h
      · exact hl.1 b hb

theorem foldl_insertIdx (key : ℕ → ℝ) (l acc : List ℕ)
    (hacc : acc.Pairwise (fun a b => key a ≤ key b)) :
    (l.foldl (fun acc i => insertIdx key i acc) acc).Perm (l ++ acc) ∧
    (l.foldl (fun acc i => insertIdx key i acc) acc).Pairwise (fun a b => key a ≤ key b) := by
  induction l generalizing acc with
  | nil => exact ⟨Perm.refl _, hacc⟩
  | cons i is ih =>
    simp only [foldl_cons]
    obtain ⟨h1, h2⟩ := ih (insertIdx key i acc) (insertIdx_sorted key i acc hacc)
    refine ⟨h1.trans ?_, h2⟩
    calc is ++ insertIdx key i acc ~ is ++ (i :: acc) := Perm.append_left _ (insertIdx_perm key i acc)
      _ ~ i :: (is ++ acc) := perm_middle
      _ = i :: is ++ acc := rfl

theorem argsortStable_perm (f : List ℝ) : (argsortStable f).Perm (List.range f.length) := by
  have := (foldl_insertIdx (fun k => f.getD k 0) (List.range f.length) [] Pairwise.nil).1
  simpa [argsortStable] using this

theorem gather_eq_map (f : List ℝ) (p : List ℕ) (h : ∀ k ∈ p, k < f.length) :
    gather f p = p.map (fun k => f.getD k 0) := by
  induction p with
  | nil => rfl
  | cons k ks ih =>
    have hk := h k (by simp)
    have e := ih (fun j hj => h j (by simp [hj]))
    simp only [gather] at e
    simp only [gather, filterMap_cons, getElem?_eq_getElem hk, map_cons, e]
    rw [← List.getElem_eq_getD (h := hk)]

/-- the model's own argsort returns an ascending arrangement -/
theorem argsortStable_sorted (f : List ℝ) : (gather f (argsortStable f)).Pairwise (· ≤ ·) := by
  rw [gather_eq_map f _ (perm_index_lt _ (argsortStable_perm f))]
  rw [List.pairwise_map]
  exact (foldl_insertIdx (fun k => f.getD k 0) (List.range f.length) [] Pairwise.nil).2

/-! ### selecting sets are measurable -/
/-- the set of variates in `[0,1)` selecting position `i` -/
def selSet (fa : List ℝ) (i : ℕ) : Set ℝ := {u : ℝ | u ∈ Ico (0:ℝ) 1 ∧ searchsortedLeft (cumfrac fa) u = i}

theorem selSet_eq (fa : List ℝ) (hpos : ∀ x ∈ fa, 0 ≤ x) (hsum : fa.sum = 1) (i : ℕ) (hi : i < fa.length) :
    selSet fa i = Ico (0:ℝ) 1 ∩ {u | (i = 0 ∨ pre fa i < u) ∧ u ≤ pre fa (i + 1)} := by
  ext u
  simp only [selSet, mem_ofPred_eq, mem_inter_iff]
  constructor
  · rintro ⟨hu, hs⟩; exact ⟨hu, (select_iff fa hpos hsum u i hi).mp hs⟩
  · rintro ⟨hu, hs⟩; exact ⟨hu, (select_iff fa hpos hsum u i hi).mpr hs⟩

theorem measurableSet_selSet (fa : List ℝ) (hpos : ∀ x ∈ fa, 0 ≤ x) (hsum : fa.sum = 1) (i : ℕ) (hi : i < fa.length) :
    MeasurableSet (selSet fa i) := by
  rw [selSet_eq fa hpos hsum i hi]
  apply MeasurableSet.inter measurableSet_Ico
  by_cases h0 : i = 0
  · have : {u : ℝ | (i = 0 ∨ pre fa i < u) ∧ u ≤ pre fa (i + 1)} = Iic (pre fa (i + 1)) := by
      ext u; simp [h0]
    rw [this]; exact measurableSet_Iic
  · have : {u : ℝ | (i = 0 ∨ pre fa i < u) ∧ u ≤ pre fa (i + 1)} = Ioc (pre fa i) (pre fa (i + 1)) := by
      ext u; simp [h0]
    rw [this]; exact measurableSet_Ioc


end ModelR
