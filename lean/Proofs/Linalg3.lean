import Proofs.Basic
import Mathlib.Tactic.FinCases
/-! Self-contained 3×3 matrix algebra over `ModelR.Mat3` (entrywise `ring` proofs). -/
namespace ModelR

theorem mmul_assoc (A B C : Mat3) : mmul (mmul A B) C = mmul A (mmul B C) := by
  funext i j; simp only [mmul, sum3]; ring

@[simp] theorem one_mmul (A : Mat3) : mmul one3 A = A := by
  funext i j; fin_cases i <;> simp [mmul, sum3, one3]

@[simp] theorem mmul_one (A : Mat3) : mmul A one3 = A := by
  funext i j; fin_cases j <;> simp [mmul, sum3, one3]

theorem tr_mmul (A B : Mat3) : tr (mmul A B) = mmul (tr B) (tr A) := by
  funext i j; simp only [mmul, tr, sum3]; ring

@[simp] theorem tr_tr (A : Mat3) : tr (tr A) = A := rfl

@[simp] theorem tr_one : tr one3 = one3 := by
  funext i j; fin_cases i <;> fin_cases j <;> simp [tr, one3]

theorem trace_mmul_comm (A B : Mat3) : trace3 (mmul A B) = trace3 (mmul B A) := by
  simp only [trace3, mmul, sum3]; ring

theorem inner3_eq_trace (A B : Mat3) : inner3 A B = trace3 (mmul (tr A) B) := by
  simp only [inner3, trace3, mmul, tr, sum3]; ring

theorem inner3_comm (A B : Mat3) : inner3 A B = inner3 B A := by
  simp only [inner3, sum3]; ring

theorem inner3_tr_tr (A B : Mat3) : inner3 (tr A) (tr B) = inner3 A B := by
  simp only [inner3, tr, sum3]; ring

theorem mmul_madd (A B C : Mat3) : mmul A (madd B C) = madd (mmul A B) (mmul A C) := by
  funext i j; simp only [mmul, madd, sum3]; ring
theorem madd_mmul (A B C : Mat3) : mmul (madd A B) C = madd (mmul A C) (mmul B C) := by
  funext i j; simp only [mmul, madd, sum3]; ring
theorem mmul_msub (A B C : Mat3) : mmul A (msub B C) = msub (mmul A B) (mmul A C) := by
  funext i j; simp only [mmul, msub, sum3]; ring
theorem msub_mmul (A B C : Mat3) : mmul (msub A B) C = msub (mmul A C) (mmul B C) := by
  funext i j; simp only [mmul, msub, sum3]; ring
theorem mmul_smul3 (c : ℝ) (A B : Mat3) : mmul A (smul3 c B) = smul3 c (mmul A B) := by
  funext i j; simp only [mmul, smul3, sum3]; ring
theorem smul3_mmul (c : ℝ) (A B : Mat3) : mmul (smul3 c A) B = smul3 c (mmul A B) := by
  funext i j; simp only [mmul, smul3, sum3]; ring
theorem tr_smul3 (c : ℝ) (A : Mat3) : tr (smul3 c A) = smul3 c (tr A) := rfl
theorem tr_madd (A B : Mat3) : tr (madd A B) = madd (tr A) (tr B) := rfl
theorem tr_msub (A B : Mat3) : tr (msub A B) = msub (tr A) (tr B) := rfl

/-- conjugation `Q X Qᵀ` (change of the external reference frame) -/
def conj (Q X : Mat3) : Mat3 := mmul (mmul Q X) (tr Q)

/-- `Q` is orthogonal: `Qᵀ Q = 1` (then also `Q Qᵀ = 1`, but only this direction is used) -/
def IsOrth (Q : Mat3) : Prop := mmul (tr Q) Q = one3

theorem tr_conj (Q X : Mat3) : tr (conj Q X) = conj Q (tr X) := by
  simp only [conj, tr_mmul, tr_tr, mmul_assoc]

theorem conj_madd (Q X Y : Mat3) : conj Q (madd X Y) = madd (conj Q X) (conj Q Y) := by
  simp only [conj, mmul_madd, madd_mmul]
theorem conj_msub (Q X Y : Mat3) : conj Q (msub X Y) = msub (conj Q X) (conj Q Y) := by
  simp only [conj, mmul_msub, msub_mmul]
theorem conj_smul3 (Q : Mat3) (c : ℝ) (X : Mat3) : conj Q (smul3 c X) = smul3 c (conj Q X) := by
  simp only [conj, mmul_smul3, smul3_mmul]

theorem conj_mmul (Q X Y : Mat3) (hQ : IsOrth Q) : mmul (conj Q X) (conj Q Y) = conj Q (mmul X Y) := by
  unfold conj
  calc mmul (mmul (mmul Q X) (tr Q)) (mmul (mmul Q Y) (tr Q))
      = mmul (mmul Q X) (mmul (mmul (tr Q) Q) (mmul Y (tr Q))) := by simp only [mmul_assoc]
    _ = mmul (mmul Q (mmul X Y)) (tr Q) := by rw [hQ, one_mmul]; simp only [mmul_assoc]

theorem trace_conj (Q X : Mat3) (hQ : IsOrth Q) : trace3 (conj Q X) = trace3 X := by
  unfold conj
  rw [trace_mmul_comm, ← mmul_assoc, hQ, one_mmul]

theorem inner3_conj (Q X Y : Mat3) (hQ : IsOrth Q) : inner3 (conj Q X) (conj Q Y) = inner3 X Y := by
  rw [inner3_eq_trace, tr_conj, conj_mmul Q _ _ hQ, trace_conj Q _ hQ, ← inner3_eq_trace]

theorem symm_eq (A : Mat3) : symm A = smul3 (1 / 2) (madd A (tr A)) := by
  funext i j; simp only [symm, smul3, madd, tr]; ring
theorem skew_eq (A : Mat3) : skew A = smul3 (1 / 2) (msub A (tr A)) := by
  funext i j; simp only [skew, smul3, msub, tr]; ring

theorem symm_conj (Q X : Mat3) : symm (conj Q X) = conj Q (symm X) := by
  rw [symm_eq, symm_eq, tr_conj, ← conj_madd, conj_smul3]
theorem skew_conj (Q X : Mat3) : skew (conj Q X) = conj Q (skew X) := by
  rw [skew_eq, skew_eq, tr_conj, ← conj_msub, conj_smul3]

end ModelR
