import ModelD.Scsv
import Proofs.ScsvText
/-! Round trip of the SCSV header codec (C16, layer 4): what `parseHeader` (the model of
`yaml.safe_load(...)["schema"]` on writer-shaped text) reconstructs from `headerLines`. -/
namespace Scsv
open Yaml

/-- a scalar the YAML layer can carry verbatim inside single quotes on one line -/
def YamlSafe (s : Str) : Prop := ∀ c ∈ s, isYamlPrintable c = true ∧ isYamlBreak c = false

instance (s : Str) : Decidable (YamlSafe s) := by unfold YamlSafe; infer_instance

theorem scanSingleQuoted_escapeSQ (v : Str) (hv : ∀ c ∈ v, isYamlBreak c = false) :
    scanSingleQuoted (escapeSQ v ++ ['\'']) = some (v, []) := by
  induction v with
  | nil => simp [escapeSQ, scanSingleQuoted]
  | cons c t ih =>
    have ht := ih (fun c' hc' => hv c' (by simp [hc']))
    by_cases hc : c = '\''
    · subst hc
      simp [escapeSQ, scanSingleQuoted, ht]
    · have hb := hv c (by simp)
      simp only [escapeSQ, hc, if_false, List.cons_append]
      unfold scanSingleQuoted
      split
      · rename_i heq; simp at heq
      · rename_i heq; simp at heq; exact absurd heq.1 hc
      · rename_i heq; simp at heq; exact absurd heq.1 hc
      · rename_i heq
        simp at heq
        obtain ⟨h1, h2⟩ := heq
        subst h1 h2
        simp [hb, ht]

/-- **a quoted scalar is read back verbatim** -/
theorem parseQuotedValue_yamlQuoted (v : Str) (hv : YamlSafe v) :
    parseQuotedValue (yamlQuoted v) = .ok v := by
  simp [parseQuotedValue, yamlQuoted, scanSingleQuoted_escapeSQ v (fun c hc => (hv c hc).2)]

theorem escapeSQ_printable (v : Str) (hv : ∀ c ∈ v, isYamlPrintable c = true) :
    ∀ c ∈ escapeSQ v, isYamlPrintable c = true := by
  induction v with
  | nil => simp [escapeSQ]
  | cons a t ih =>
    intro c hc
    have ht := ih (fun c' hc' => hv c' (by simp [hc']))
    by_cases ha : a = '\''
    · subst ha
      simp [escapeSQ] at hc
      rcases hc with hc | hc
      · subst hc; decide
      · exact ht c hc
    · simp [escapeSQ, ha] at hc
      rcases hc with hc | hc
      · subst hc; exact hv _ (by simp)
      · exact ht c hc

theorem yamlQuoted_printable (v : Str) (hv : YamlSafe v) : (yamlQuoted v).all isYamlPrintable = true := by
  simp only [yamlQuoted, List.all_cons, List.all_append, List.all_nil, Bool.and_true]
  have : (escapeSQ v).all isYamlPrintable = true := by
    rw [List.all_eq_true]; exact escapeSQ_printable v (fun c hc => (hv c hc).1)
  simp [this]; decide

theorem stripPrefix?_append (p x : Str) : stripPrefix? p (p ++ x) = some x := by
  unfold stripPrefix?
  have : p.isPrefixOf (p ++ x) = true := by
    induction p with
    | nil => simp
    | cons a t ih => simp [List.isPrefixOf, ih]
  simp [this]

theorem dropNL_append (l : Str) : dropNL (l ++ ['\n']) = l := by
  simp [dropNL]

theorem parseTypeValue_ok (ty : Str) (h1 : ty.all isAsciiLetter = true) (h2 : resolvePlain ty = .str ty) :
    parseTypeValue ty = .ok ty := by
  simp [parseTypeValue, h1, h2]

/-- the type names of `SCSV_TYPEMAP` are plain scalars that YAML resolves to strings -/
theorem parseTypeValue_of_typeOf (ty : Str) (t : Ty) (h : typeOf ty = some t) :
    parseTypeValue ty = .ok ty ∧ ty.all isYamlPrintable = true := by
  unfold typeOf at h
  split at h
  · rename_i e; subst e; exact ⟨parseTypeValue_ok _ (by decide) (by decide), by decide⟩
  · split at h
    · rename_i e; subst e; exact ⟨parseTypeValue_ok _ (by decide) (by decide), by decide⟩
    · split at h
      · rename_i e; subst e; exact ⟨parseTypeValue_ok _ (by decide) (by decide), by decide⟩
      · split at h
        · rename_i e; subst e; exact ⟨parseTypeValue_ok _ (by decide) (by decide), by decide⟩
        · split at h
          · rename_i e; subst e; exact ⟨parseTypeValue_ok _ (by decide) (by decide), by decide⟩
          · simp at h

/-- header normal form: what the reader reconstructs for a written field -/
def normField (E : FloatExt) (f : Field) : Field :=
  ⟨f.name, some f.typeName, f.unit, f.fill.map (fun v => PyVal.str (pyStrP E v))⟩

/-- conditions on one field for the header round trip -/
structure FieldHeaderOK (E : FloatExt) (f : Field) : Prop where
  name : ∃ n, f.name = some n ∧ YamlSafe n
  type : ∃ t, typeOf f.typeName = some t
  unit : ∀ u, f.unit = some u → YamlSafe u
  fill : ∀ v, f.fill = some v → YamlSafe (pyStrP E v)

theorem parseOptLine_some (pfx v : Str) (rest : List Str) (hv : YamlSafe v) :
    parseOptLine pfx ((pfx ++ yamlQuoted v) :: rest) = .ok (some v, rest) := by
  simp [parseOptLine, stripPrefix?_append, parseQuotedValue_yamlQuoted v hv, Except.map]

theorem parseOptLine_none (pfx : Str) (ls : List Str)
    (h : ∀ l, ls.head? = some l → pfx.isPrefixOf l = false) :
    parseOptLine pfx ls = .ok (none, ls) := by
  cases ls with
  | nil => rfl
  | cons l rest =>
    have := h l rfl
    simp [parseOptLine, stripPrefix?, this]

/-- the lines of the following fields start with a `- name:` line (or there are none) -/
def StartsWithName (ls : List Str) : Prop := ∀ l, ls.head? = some l → ∃ x, l = pfxName ++ x

theorem fieldLines_head (E : FloatExt) (fs : List Field) : StartsWithName (fs.flatMap (fieldLines E)) := by
  intro l hl
  cases fs with
  | nil => simp at hl
  | cons f t =>
    simp [fieldLines] at hl
    exact ⟨_, hl.symm⟩

theorem pfxName_eq : pfxName = [' ',' ',' ',' ','-',' ','n','a','m','e',':',' '] := by decide
theorem pfxUnit_eq : pfxUnit = [' ',' ',' ',' ',' ',' ','u','n','i','t',':',' '] := by decide
theorem pfxFill_eq : pfxFill = [' ',' ',' ',' ',' ',' ','f','i','l','l',':',' '] := by decide
theorem pfxType_eq : pfxType = [' ',' ',' ',' ',' ',' ','t','y','p','e',':',' '] := by decide

theorem pfxUnit_not_name (x : Str) : pfxUnit.isPrefixOf (pfxName ++ x) = false := by
  rw [pfxUnit_eq, pfxName_eq]; simp [List.isPrefixOf]
theorem pfxUnit_not_fill (x : Str) : pfxUnit.isPrefixOf (pfxFill ++ x) = false := by
  rw [pfxUnit_eq, pfxFill_eq]; simp [List.isPrefixOf]
theorem pfxFill_not_name (x : Str) : pfxFill.isPrefixOf (pfxName ++ x) = false := by
  rw [pfxFill_eq, pfxName_eq]; simp [List.isPrefixOf]

theorem parseOptLine_unit (u : Option Str) (v : Option Str) (rest : List Str) (hu : ∀ x, u = some x → YamlSafe x)
    (hrest : StartsWithName rest) :
    parseOptLine pfxUnit (optLine pfxUnit u ++ (optLine pfxFill v ++ rest))
      = .ok (u, optLine pfxFill v ++ rest) := by
  cases u with
  | some x => simpa [optLine] using parseOptLine_some pfxUnit x _ (hu x rfl)
  | none =>
    simp only [optLine, List.nil_append]
    apply parseOptLine_none
    intro l hl
    cases v with
    | some y =>
      simp [optLine] at hl
      rw [← hl]; exact pfxUnit_not_fill _
    | none =>
      simp [optLine] at hl
      obtain ⟨x, rfl⟩ := hrest l hl
      exact pfxUnit_not_name _

theorem parseOptLine_fill (v : Option Str) (rest : List Str) (hv : ∀ x, v = some x → YamlSafe x)
    (hrest : StartsWithName rest) :
    parseOptLine pfxFill (optLine pfxFill v ++ rest) = .ok (v, rest) := by
  cases v with
  | some x => simpa [optLine] using parseOptLine_some pfxFill x _ (hv x rfl)
  | none =>
    simp only [optLine, List.nil_append]
    apply parseOptLine_none
    intro l hl
    obtain ⟨x, rfl⟩ := hrest l hl
    exact pfxFill_not_name _

theorem parseFieldLines_fieldLines (E : FloatExt) (fs : List Field) (hf : ∀ f ∈ fs, FieldHeaderOK E f)
    (fuel : Nat) (hfuel : fs.length < fuel) :
    parseFieldLines fuel (fs.flatMap (fieldLines E)) = .ok (fs.map (normField E)) := by
  induction fs generalizing fuel with
  | nil =>
    cases fuel with
    | zero => omega
    | succ k => simp [parseFieldLines]
  | cons f t ih =>
    cases fuel with
    | zero => omega
    | succ k =>
      have hok := hf f (by simp)
      obtain ⟨n, hn, hns⟩ := hok.name
      obtain ⟨ty, hty⟩ := hok.type
      have iht := ih (fun f' hf' => hf f' (by simp [hf'])) k (by simp at hfuel; omega)
      have hhead := fieldLines_head E t
      have hpt := (parseTypeValue_of_typeOf f.typeName ty hty).1
      have hfillsafe : ∀ x, f.fill.map (pyStrP E) = some x → YamlSafe x := by
        intro x hx
        cases hfl : f.fill with
        | none => simp [hfl] at hx
        | some v => simp [hfl] at hx; subst hx; exact hok.fill v hfl
      simp only [List.flatMap_cons, fieldLines, hn, Option.getD_some, List.cons_append, List.append_assoc]
      unfold parseFieldLines
      simp only [stripPrefix?_append, parseQuotedValue_yamlQuoted n hns, hpt,
        parseOptLine_unit f.unit _ _ hok.unit hhead, parseOptLine_fill _ _ hfillsafe hhead, iht,
        bind, Except.bind, pure, Except.pure]
      simp [normField, hn, Option.map_map, Function.comp_def]

theorem all_printable_append (a b : Str) (ha : a.all isYamlPrintable = true) (hb : b.all isYamlPrintable = true) :
    (a ++ b).all isYamlPrintable = true := by simp [List.all_append, ha, hb]

theorem optLine_printable (pfx : Str) (hp : pfx.all isYamlPrintable = true) (o : Option Str)
    (ho : ∀ x, o = some x → YamlSafe x) : ∀ l ∈ optLine pfx o, l.all isYamlPrintable = true := by
  intro l hl
  cases o with
  | none => simp [optLine] at hl
  | some x =>
    simp [optLine] at hl; subst hl
    exact all_printable_append _ _ hp (yamlQuoted_printable x (ho x rfl))

theorem fieldLines_printable (E : FloatExt) (f : Field) (hok : FieldHeaderOK E f) :
    ∀ l ∈ fieldLines E f, l.all isYamlPrintable = true := by
  obtain ⟨n, hn, hns⟩ := hok.name
  obtain ⟨ty, hty⟩ := hok.type
  intro l hl
  simp only [fieldLines, List.mem_cons, List.mem_append] at hl
  rcases hl with hl | hl | hl | hl
  · subst hl
    rw [hn]
    exact all_printable_append _ _ (by decide) (yamlQuoted_printable n hns)
  · subst hl
    exact all_printable_append _ _ (by decide) (parseTypeValue_of_typeOf _ ty hty).2
  · exact optLine_printable pfxUnit (by decide) f.unit hok.unit l hl
  · refine optLine_printable pfxFill (by decide) _ ?_ l hl
    intro x hx
    cases hfl : f.fill with
    | none => simp [hfl] at hx
    | some v => simp [hfl] at hx; subst hx; exact hok.fill v hfl

theorem fieldLines_length (E : FloatExt) (fs : List Field) : fs.length ≤ (fs.flatMap (fieldLines E)).length := by
  induction fs with
  | nil => simp
  | cons f t ih =>
    simp only [List.flatMap_cons, List.length_append, List.length_cons, fieldLines]
    omega

/-- **`header_roundtrip`**: the schema reconstructed from the written header is the written schema
with every scalar as the string `str()` gave (`normField`), for every number of fields. -/
theorem parseHeader_headerLines (E : FloatExt) (d m : Str) (fs : List Field) (hd : YamlSafe d) (hm : YamlSafe m)
    (hne : fs ≠ []) (hf : ∀ f ∈ fs, FieldHeaderOK E f) :
    parseHeader ((headerLines E d m fs).map (· ++ ['\n']))
      = .ok ⟨some d, some m, some (fs.map (normField E))⟩ := by
  have hprint : ((headerLines E d m fs).map (· ++ ['\n'])).all (·.all isYamlPrintable) = true := by
    rw [List.all_eq_true]
    intro l hl
    simp only [List.mem_map] at hl
    obtain ⟨l0, hl0, rfl⟩ := hl
    apply all_printable_append _ _ _ (by decide)
    simp only [headerLines, List.mem_cons, List.mem_flatMap] at hl0
    rcases hl0 with hl0 | hl0 | hl0 | hl0 | ⟨f, hfm, hl0⟩
    · subst hl0; decide
    · subst hl0; exact all_printable_append _ _ (by decide) (yamlQuoted_printable d hd)
    · subst hl0; exact all_printable_append _ _ (by decide) (yamlQuoted_printable m hm)
    · subst hl0; decide
    · exact fieldLines_printable E f (hf f hfm) l0 hl0
  have hdrop : ((headerLines E d m fs).map (· ++ ['\n'])).map dropNL = headerLines E d m fs := by
    rw [List.map_map]
    conv => rhs; rw [← List.map_id (headerLines E d m fs)]
    apply List.map_congr_left
    intro l _
    simp [dropNL_append]
  have hrest : (fs.flatMap (fieldLines E)).isEmpty = false := by
    cases fs with
    | nil => exact absurd rfl hne
    | cons f t => simp [fieldLines]
  have hfl := fieldLines_length E fs
  have hfuel : fs.length < (fs.flatMap (fieldLines E)).length + 1 := by omega
  unfold parseHeader
  rw [if_neg (by simp [headerLines])]
  rw [hprint, hdrop]
  simp only [Bool.not_true, Bool.false_eq_true, if_false, headerLines]
  simp only [ne_eq, not_true_eq_false, or_self, if_false, stripPrefix?_append,
    parseQuotedValue_yamlQuoted d hd, parseQuotedValue_yamlQuoted m hm, hrest,
    parseFieldLines_fieldLines E fs hf _ hfuel, bind, Except.bind, pure, Except.pure]
  simp

end Scsv
