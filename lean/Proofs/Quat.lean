import ModelR.Quat
import ModelD.MIndex
import Mathlib.Tactic.Ring
import Mathlib.Tactic.Linarith
import Mathlib.Tactic.FinCases
import Mathlib.Tactic.FieldSimp
import Mathlib.Tactic.Positivity
import Mathlib.Tactic.NormNum
import Mathlib.Algebra.Order.BigOperators.Group.List
import Mathlib.Analysis.SpecialFunctions.Trigonometric.Basic
import Mathlib.Analysis.SpecialFunctions.Trigonometric.Inverse
import Mathlib.Algebra.Order.Floor.Semiring
/-! Helper lemmas for C14: quaternion algebra in the scalar-last layout, `listMin`, sums. -/
namespace ModelR
open Real

@[simp] theorem mkQuat_0 (x y z w : ℝ) : mkQuat x y z w 0 = x := rfl
@[simp] theorem mkQuat_1 (x y z w : ℝ) : mkQuat x y z w 1 = y := rfl
@[simp] theorem mkQuat_2 (x y z w : ℝ) : mkQuat x y z w 2 = z := rfl
@[simp] theorem mkQuat_3 (x y z w : ℝ) : mkQuat x y z w 3 = w := rfl

theorem quat_ext {p q : Quat} (h0 : p 0 = q 0) (h1 : p 1 = q 1) (h2 : p 2 = q 2) (h3 : p 3 = q 3) :
    p = q := by
  funext i; fin_cases i <;> assumption

@[simp] theorem memo_eq (q : Quat) : q.memo = q := by
  apply quat_ext <;> simp [Quat.memo]

/-- componentwise negation (the same rotation) -/
def qneg (p : Quat) : Quat := fun i => -p i

theorem hamilton_assoc' (p q r : Quat) : hamilton (hamilton p q) r = hamilton p (hamilton q r) := by
  apply quat_ext <;> simp [hamilton] <;> ring

theorem dot4_hamilton_right (p q r : Quat) :
    dot4 (hamilton p r) (hamilton q r) = dot4 p q * normSq4 r := by
  simp [normSq4, dot4, hamilton]; ring

theorem dot4_hamilton_left (s p q : Quat) :
    dot4 (hamilton s p) (hamilton s q) = normSq4 s * dot4 p q := by
  simp [normSq4, dot4, hamilton]; ring

theorem dot4_comm (p q : Quat) : dot4 p q = dot4 q p := by simp [dot4]; ring

theorem dot4_qneg_left (p q : Quat) : dot4 (qneg p) q = -dot4 p q := by simp [dot4, qneg]; ring

theorem hamilton_qneg_left (p q : Quat) : hamilton (qneg p) q = qneg (hamilton p q) := by
  apply quat_ext <;> simp [hamilton, qneg] <;> ring

theorem clip1_neg (x : ℝ) : clip1 (-x) = -clip1 x := by
  unfold clip1
  split_ifs <;> first | rfl | linarith

theorem pairAngle_qneg_left (p q : Quat) : pairAngle (qneg p) q = pairAngle p q := by
  simp [pairAngle, dot4_qneg_left, clip1_neg, Rabs]

theorem pairAngle_comm (p q : Quat) : pairAngle p q = pairAngle q p := by
  simp [pairAngle, dot4_comm]

theorem pairAngle_hamilton_right (p q r : Quat) (hr : normSq4 r = 1) :
    pairAngle (hamilton p r) (hamilton q r) = pairAngle p q := by
  simp [pairAngle, dot4_hamilton_right, hr]

theorem pairAngle_hamilton_left (s p q : Quat) (hs : normSq4 s = 1) :
    pairAngle (hamilton s p) (hamilton s q) = pairAngle p q := by
  simp [pairAngle, dot4_hamilton_left, hs]

/-! ### `listMin` -/

theorem foldl_min_le_init (l : List ℝ) (m : ℝ) :
    l.foldl (fun m y => if y < m then y else m) m ≤ m := by
  induction l generalizing m with
  | nil => simp
  | cons x xs ih =>
    simp only [List.foldl_cons]
    split_ifs with h
    · exact le_trans (ih x) h.le
    · exact ih m

theorem foldl_min_le_of_mem (l : List ℝ) (m x : ℝ) (hx : x ∈ l) :
    l.foldl (fun m y => if y < m then y else m) m ≤ x := by
  induction l generalizing m with
  | nil => simp at hx
  | cons y ys ih =>
    simp only [List.foldl_cons]
    rcases List.mem_cons.mp hx with rfl | h
    · split_ifs with h1
      · exact foldl_min_le_init ys x
      · exact le_trans (foldl_min_le_init ys m) (not_lt.mp h1)
    · exact ih _ h

theorem foldl_min_mem (l : List ℝ) (m : ℝ) :
    l.foldl (fun m y => if y < m then y else m) m = m ∨
      l.foldl (fun m y => if y < m then y else m) m ∈ l := by
  induction l generalizing m with
  | nil => simp
  | cons y ys ih =>
    simp only [List.foldl_cons]
    split_ifs with h
    · rcases ih y with h1 | h1
      · right; rw [h1]; simp
      · right; exact List.mem_cons_of_mem _ h1
    · rcases ih m with h1 | h1
      · left; exact h1
      · right; exact List.mem_cons_of_mem _ h1

theorem listMin_mem {l : List ℝ} (hl : l ≠ []) : listMin l ∈ l := by
  cases l with
  | nil => exact absurd rfl hl
  | cons x xs =>
    simp only [listMin]
    rcases foldl_min_mem xs x with h | h
    · rw [h]; simp
    · exact List.mem_cons_of_mem _ h

theorem listMin_le {l : List ℝ} {x : ℝ} (hx : x ∈ l) : listMin l ≤ x := by
  cases l with
  | nil => simp at hx
  | cons y ys =>
    simp only [listMin]
    rcases List.mem_cons.mp hx with rfl | h
    · exact foldl_min_le_init ys x
    · exact foldl_min_le_of_mem ys y x h

/-- `np.min` depends only on the SET of values -/
theorem listMin_congr_set {l l' : List ℝ} (hl : l ≠ []) (h : ∀ x, x ∈ l ↔ x ∈ l') :
    listMin l = listMin l' := by
  have hl' : l' ≠ [] := by
    intro e
    have := (h (listMin l)).mp (listMin_mem hl)
    rw [e] at this; simp at this
  apply le_antisymm
  · exact listMin_le ((h _).mpr (listMin_mem hl'))
  · exact listMin_le ((h _).mp (listMin_mem hl))

/-! ### sums -/

theorem foldl_add_eq' (l : List ℝ) (a : ℝ) : l.foldl (· + ·) a = a + l.sum := by
  induction l generalizing a with
  | nil => simp
  | cons x xs ih => simp [List.foldl, ih, add_assoc]

theorem listSum_eq_sum' (l : List ℝ) : listSum l = l.sum := by
  simp [listSum, foldl_add_eq']

theorem sum_abs_sub_le (T O : List ℝ) (hT : ∀ t ∈ T, 0 ≤ t) (hO : ∀ o ∈ O, 0 ≤ o) :
    (List.zipWith (fun t o => |t - o|) T O).sum ≤ T.sum + O.sum := by
  induction T generalizing O with
  | nil =>
    simp only [List.zipWith_nil_left, List.sum_nil, zero_add]
    exact List.sum_nonneg hO
  | cons t ts ih =>
    cases O with
    | nil =>
      simp only [List.zipWith_nil_right, List.sum_nil, add_zero]
      exact List.sum_nonneg hT
    | cons o os =>
      simp only [List.zipWith_cons_cons, List.sum_cons]
      have h1 := ih os (fun x hx => hT x (List.mem_cons_of_mem _ hx))
        (fun x hx => hO x (List.mem_cons_of_mem _ hx))
      have ht := hT t (by simp)
      have ho := hO o (by simp)
      have : |t - o| ≤ t + o := by
        rw [abs_le]; constructor <;> linarith
      linarith

theorem sum_abs_sub_nonneg (T O : List ℝ) :
    0 ≤ (List.zipWith (fun t o => |t - o|) T O).sum := by
  induction T generalizing O with
  | nil => simp
  | cons t ts ih =>
    cases O with
    | nil => simp
    | cons o os =>
      simp only [List.zipWith_cons_cons, List.sum_cons]
      have := ih os
      have := abs_nonneg (t - o)
      linarith

/-! ### operator lists -/

/-- the rotation quaternions of an operator list -/
def rotPart : List SymOp → List Quat
  | [] => []
  | .rot q :: rest => q :: rotPart rest
  | .diag _ :: rest => rotPart rest


/-- at most one non-zero vector component: a rotation about a Cartesian axis (or the identity) -/
def SingleAxis (q : Quat) : Prop :=
  (q 0 = 0 ∧ q 1 = 0) ∨ (q 0 = 0 ∧ q 2 = 0) ∨ (q 1 = 0 ∧ q 2 = 0)

theorem singleAxis_rotvec (ax : Fin 3) (θ : ℝ) : SingleAxis (rotvecQuat ax θ) := by
  fin_cases ax <;> simp [SingleAxis, rotvecQuat]

theorem singleAxis_identity : SingleAxis quatIdentity := by simp [SingleAxis, quatIdentity]

theorem rotPart_append (l l' : List SymOp) : rotPart (l ++ l') = rotPart l ++ rotPart l' := by
  induction l with
  | nil => rfl
  | cons x xs ih => cases x <;> simp [rotPart, ih]

theorem rotPart_map_rot (qs : List Quat) : rotPart (qs.map SymOp.rot) = qs := by
  induction qs with
  | nil => rfl
  | cons x xs ih => simp [rotPart, ih]

theorem mem_rotPart_axisRotations (m : List ℕ) (d : ℕ) (q : Quat)
    (h : q ∈ rotPart (axisRotations m d)) : SingleAxis q := by
  unfold axisRotations at h
  simp only [List.flatMap_cons, List.flatMap_nil, List.append_nil, rotPart_append] at h
  have e : ∀ ax : Fin 3, (m.map fun i => SymOp.rot (rotvecQuat ax (RofNat i * Rpi / RofNat d)))
      = (m.map fun i => rotvecQuat ax (RofNat i * Rpi / RofNat d)).map SymOp.rot := by
    intro ax; rw [List.map_map]; rfl
  simp only [e, rotPart_map_rot, List.mem_append, List.mem_map] at h
  rcases h with ⟨i, _, rfl⟩ | ⟨i, _, rfl⟩ | ⟨i, _, rfl⟩ <;> exact singleAxis_rotvec _ _

theorem axis_lists_singleAxis (sys : Lattice)
    (hs : sys = .rhombohedral ∨ sys = .tetragonal ∨ sys = .hexagonal) :
    ∀ q ∈ rotPart (symmetryOperations sys), SingleAxis q := by
  intro q hq
  rcases hs with rfl | rfl | rfl <;>
    simp only [symmetryOperations, rotPart_append, rotPart, List.mem_append, List.mem_cons, List.not_mem_nil, or_false] at hq
  · rcases hq with rfl | h
    · exact singleAxis_identity
    · exact mem_rotPart_axisRotations _ _ _ h
  · rcases hq with rfl | h
    · exact singleAxis_identity
    · exact mem_rotPart_axisRotations _ _ _ h
  · rcases hq with (rfl | h) | h
    · exact singleAxis_identity
    · exact mem_rotPart_axisRotations _ _ _ h
    · exact mem_rotPart_axisRotations _ _ _ h

/-- product of the rotations by `θ` about x and about z -/
theorem product_not_singleAxis (θ : ℝ) (h0 : 0 < θ / 2) (h1 : θ / 2 < π / 2) :
    ¬ SingleAxis (hamilton (rotvecQuat 0 θ) (rotvecQuat 2 θ)) ∧
    ¬ SingleAxis (qneg (hamilton (rotvecQuat 0 θ) (rotvecQuat 2 θ))) := by
  have hs : 0 < Real.sin (θ / 2) := Real.sin_pos_of_pos_of_lt_pi h0 (by linarith [pi_pos])
  have hc : 0 < Real.cos (θ / 2) := Real.cos_pos_of_mem_Ioo ⟨by linarith [pi_pos], h1⟩
  have hx : Real.cos (θ / 2) * Real.sin (θ / 2) ≠ 0 := (mul_pos hc hs).ne'
  have hy : Real.sin (θ / 2) * Real.sin (θ / 2) ≠ 0 := (mul_pos hs hs).ne'
  constructor <;>
    simp [SingleAxis, hamilton, rotvecQuat, qneg, Rsin, Rcos, hx, hy]

theorem qneg_qneg (q : Quat) : qneg (qneg q) = q := by funext i; simp [qneg]

theorem mem_rotPart_axisRotations_of (m : List ℕ) (d : ℕ) (ax : Fin 3) (i : ℕ) (hi : i ∈ m) :
    rotvecQuat ax (RofNat i * Rpi / RofNat d) ∈ rotPart (axisRotations m d) := by
  unfold axisRotations
  simp only [List.flatMap_cons, List.flatMap_nil, List.append_nil, rotPart_append]
  have e : ∀ ax : Fin 3, (m.map fun i => SymOp.rot (rotvecQuat ax (RofNat i * Rpi / RofNat d)))
      = (m.map fun i => rotvecQuat ax (RofNat i * Rpi / RofNat d)).map SymOp.rot := by
    intro ax; rw [List.map_map]; rfl
  simp only [e, rotPart_map_rot, List.mem_append, List.mem_map]
  fin_cases ax
  · right; right; exact ⟨i, hi, rfl⟩
  · right; left; exact ⟨i, hi, rfl⟩
  · left; exact ⟨i, hi, rfl⟩


/-! ### histogram bins -/

theorem clip1_mem (x : ℝ) : -1 ≤ clip1 x ∧ clip1 x ≤ 1 := by
  unfold clip1; split_ifs <;> constructor <;> linarith

theorem natSum_eq (l : List ℕ) : natSum l = l.sum := by
  unfold natSum
  have : ∀ a, l.foldl (· + ·) a = a + l.sum := by
    induction l with
    | nil => simp
    | cons x xs ih => intro a; simp [List.foldl, ih, Nat.add_assoc]
  simpa using this 0

theorem inBin_iff (n b : ℕ) (x : ℝ) :
    inBin n b x = true ↔
      (if b + 1 = n then (b : ℝ) ≤ x ∧ x ≤ (n : ℝ) else (b : ℝ) ≤ x ∧ x < ((b + 1 : ℕ) : ℝ)) := by
  have d : ∀ (p : Prop) [inst : Decidable p], (@decide p inst = true) ↔ p :=
    fun p _ => decide_eq_true_iff
  unfold inBin
  split_ifs <;> simp only [RofNat, Bool.and_eq_true] <;> exact and_congr (d _) (d _)

/-- a value of `[0, n]` lies in exactly one of the `n` unit bins (the last one closed) -/
theorem inBin_unique (n : ℕ) (hn : 0 < n) (x : ℝ) (h0 : 0 ≤ x) (hx : x ≤ n) :
    ∃ k < n, ∀ b < n, (inBin n b x = true ↔ b = k) := by
  by_cases hlast : x < n
  · refine ⟨⌊x⌋₊, (Nat.floor_lt h0).mpr hlast, ?_⟩
    intro b hb
    have hfl := Nat.floor_le h0
    have hlt := Nat.lt_floor_add_one x
    rw [inBin_iff]
    split_ifs with hbl
    · constructor
      · rintro ⟨h1, _⟩
        have h2 : b ≤ ⌊x⌋₊ := Nat.le_floor h1
        have h3 : ⌊x⌋₊ < n := (Nat.floor_lt h0).mpr hlast
        omega
      · rintro rfl; exact ⟨hfl, hx⟩
    · constructor
      · rintro ⟨h1, h2⟩
        have h3 : b ≤ ⌊x⌋₊ := Nat.le_floor h1
        have h4 : ⌊x⌋₊ < b + 1 := by
          rw [Nat.floor_lt h0]; exact_mod_cast h2
        omega
      · rintro rfl
        refine ⟨hfl, ?_⟩
        exact_mod_cast hlt
  · have hxn : x = n := le_antisymm hx (not_lt.mp hlast)
    refine ⟨n - 1, by omega, ?_⟩
    intro b hb
    rw [inBin_iff]
    split_ifs with hbl
    · constructor
      · intro _; omega
      · intro _
        refine ⟨?_, hx⟩
        rw [hxn]; exact_mod_cast (by omega : b ≤ n)
    · constructor
      · rintro ⟨_, h2⟩
        exfalso
        rw [hxn] at h2
        have : n < b + 1 := by exact_mod_cast h2
        omega
      · intro h; omega

theorem countP_range_eq_one (n : ℕ) (p : ℕ → Bool) (k : ℕ) (hk : k < n)
    (h : ∀ b < n, (p b = true ↔ b = k)) : (List.range n).countP p = 1 := by
  have gen : ∀ m ≤ n, (List.range m).countP p = if k < m then 1 else 0 := by
    intro m
    induction m with
    | zero => intro _; simp
    | succ m ih =>
      intro hm
      rw [List.range_succ, List.countP_append, ih (by omega)]
      have hm' := h m (by omega)
      by_cases hmk : m = k
      · have : p m = true := hm'.mpr hmk
        subst hmk
        simp [this]
      · have : p m = false := by
          cases hp : p m with
          | false => rfl
          | true => exact absurd (hm'.mp hp) hmk
        have : (if k < m then 1 else 0) = (if k < m + 1 then 1 else 0) := by
          split_ifs <;> omega
        simp [*]
  rw [gen n le_rfl, if_pos hk]

theorem sum_map_indicator (l : List ℕ) (q : ℕ → Bool) :
    (l.map fun b => if q b = true then 1 else 0).sum = l.countP q := by
  induction l with
  | nil => simp
  | cons b bs ih => simp only [List.map_cons, List.sum_cons, List.countP_cons, ih]; omega


end ModelR
