import ModelR.TensorsSym
import Proofs.TensorsAvg
/-! Helper lemmas for `diagnostics.elasticity_components` (C12). -/
set_option linter.unusedSimpArgs false
set_option linter.unusedTactic false
set_option linter.unreachableTactic false
set_option linter.unusedVariables false
namespace ModelR.Tensors

/-! ### norms -/
theorem sum21_sq (x : Vec21) : (sum21 fun k => x k * x k) = dot21 x x := rfl
theorem norm21_eq (x : Vec21) : norm21 x = Real.sqrt (dot21 x x) := rfl
theorem dot21_self_nonneg (x : Vec21) : 0 ≤ dot21 x x := by
  simp only [dot21]
  linarith [mul_self_nonneg (x 0), mul_self_nonneg (x 1), mul_self_nonneg (x 2), mul_self_nonneg (x 3), mul_self_nonneg (x 4), mul_self_nonneg (x 5), mul_self_nonneg (x 6), mul_self_nonneg (x 7), mul_self_nonneg (x 8), mul_self_nonneg (x 9), mul_self_nonneg (x 10), mul_self_nonneg (x 11), mul_self_nonneg (x 12), mul_self_nonneg (x 13), mul_self_nonneg (x 14), mul_self_nonneg (x 15), mul_self_nonneg (x 16), mul_self_nonneg (x 17), mul_self_nonneg (x 18), mul_self_nonneg (x 19), mul_self_nonneg (x 20)]
theorem norm21_sq (x : Vec21) : norm21 x * norm21 x = dot21 x x := by
  rw [norm21_eq]; exact Real.mul_self_sqrt (dot21_self_nonneg x)
theorem norm21_nonneg (x : Vec21) : 0 ≤ norm21 x := by rw [norm21_eq]; exact Real.sqrt_nonneg _

theorem dot21_comm (x y : Vec21) : dot21 x y = dot21 y x := by simp only [dot21]; ring
theorem dot21_sub_left (x y z : Vec21) : dot21 (sub21 x y) z = dot21 x z - dot21 y z := by
  simp only [dot21, sub21]; ring
theorem dot21_sub_right (x y z : Vec21) : dot21 x (sub21 y z) = dot21 x y - dot21 x z := by
  simp only [dot21, sub21]; ring

/-- Pythagoras for a residual orthogonal to the subtracted vector -/
theorem pythagoras21 (x y : Vec21) (h : dot21 (sub21 x y) y = 0) :
    dot21 x x = dot21 y y + dot21 (sub21 x y) (sub21 x y) := by
  rw [dot21_sub_left] at h
  rw [dot21_sub_left, dot21_sub_right, dot21_sub_right, dot21_comm y x]
  linarith

/-! ### K and G -/
theorem bulkModulus_eq_bulkOf (M : Mat6) : bulkModulus M = bulkOf M := rfl
theorem shearModulus_eq_shearOf (M : Mat6) : shearModulus M = shearOf M := rfl

theorem bulkModulus_formula (M : Mat6) :
    bulkModulus M = (M 0 0 + M 1 1 + M 2 2 + (M 0 1 + M 1 0) + (M 0 2 + M 2 0) + (M 1 2 + M 2 1)) / 9 := by
  simp [bulkModulus, trace3, voigtDilat, col3sum]; ring
theorem trDeviat_formula (M : Mat6) :
    trace3 (voigtDeviat M) = M 0 0 + M 1 1 + M 2 2 + 2 * (M 3 3 + M 4 4 + M 5 5) := by
  simp [trace3, voigtDeviat, upperTri_apply, voigtDeviatUpper]; ring

/-- `K = C_iijj / 9`, `G = (C_ijij − C_iijj / 3) / 10` for the tensor of a symmetric matrix -/
theorem KG_contractions (M : Mat6) (hM : IsSymm6 M) :
    bulkModulus M = iijj (voigtToTensor M) / 9 ∧
    shearModulus M = (ijij (voigtToTensor M) - iijj (voigtToTensor M) / 3) / 10 := by
  constructor
  · exact (bulkOf_eq M hM).symm
  · rw [shearModulus_eq_shearOf, ← shearOf_eq M hM]; ring

theorem rot6_symm (Q : Mat3) (M : Mat6) : IsSymm6 (rot6 Q M) := by
  intro i j; simp only [rot6, tensorToVoigt]; ring

theorem trDilat_rot6 (Q : Mat3) (hQ : IsOrtho Q) (M : Mat6) (hM : IsSymm6 M) :
    trace3 (voigtDilat (rot6 Q M)) = trace3 (voigtDilat M) := by
  have hel := rotate_elastic _ (voigtToTensor_elastic M hM) Q
  rw [voigtDilat_eq _ (rot6_symm Q M), rot6, tensor_roundtrip _ hel, dilat4_rotate hQ, trace3_conj hQ,
    voigtDilat_eq M hM]
theorem trDeviat_rot6 (Q : Mat3) (hQ : IsOrtho Q) (M : Mat6) (hM : IsSymm6 M) :
    trace3 (voigtDeviat (rot6 Q M)) = trace3 (voigtDeviat M) := by
  have hel := rotate_elastic _ (voigtToTensor_elastic M hM) Q
  rw [voigtDeviat_eq _ (rot6_symm Q M), rot6, tensor_roundtrip _ hel, deviat4_rotate hQ, trace3_conj hQ,
    voigtDeviat_eq M hM]

theorem bulkModulus_rot6 (Q : Mat3) (hQ : IsOrtho Q) (M : Mat6) (hM : IsSymm6 M) :
    bulkModulus (rot6 Q M) = bulkModulus M := by
  simp only [bulkModulus, trDilat_rot6 Q hQ M hM]
theorem shearModulus_rot6 (Q : Mat3) (hQ : IsOrtho Q) (M : Mat6) (hM : IsSymm6 M) :
    shearModulus (rot6 Q M) = shearModulus M := by
  simp only [shearModulus, bulkModulus, trDilat_rot6 Q hQ M hM, trDeviat_rot6 Q hQ M hM]

/-! ### the isotropic vector is the orthogonal projection onto the isotropic subspace -/
theorem iso_residual_orthogonal (M : Mat6) (hM : IsSymm6 M) (K' G' : ℝ) :
    dot21 (sub21 (matrixToVector M) (isoVector (bulkModulus M) (shearModulus M))) (isoVector K' G') = 0 := by
  have h := sqrt2_sq
  simp only [shearModulus, trDeviat_formula, bulkModulus_formula]
  simp [dot21, sub21, isoVector, matrixToVector, mod3, lo3, up3, nxt, nxt2]
  rw [hM 1 0, hM 2 0, hM 2 1]
  grind


/-! ### percent anisotropy -/
theorem aniso_pythagoras (M : Mat6) (hM : IsSymm6 M) :
    dot21 (matrixToVector M) (matrixToVector M)
      = dot21 (isoVector (bulkModulus M) (shearModulus M)) (isoVector (bulkModulus M) (shearModulus M))
        + dot21 (sub21 (matrixToVector M) (isoVector (bulkModulus M) (shearModulus M)))
            (sub21 (matrixToVector M) (isoVector (bulkModulus M) (shearModulus M))) :=
  pythagoras21 _ _ (iso_residual_orthogonal M hM _ _)

theorem norm21_le_of_dot_le {x y : Vec21} (h : dot21 x x ≤ dot21 y y) : norm21 x ≤ norm21 y := by
  rw [norm21_eq, norm21_eq]; exact Real.sqrt_le_sqrt h

/-- percent anisotropy lies in `[0, 100]` (for a non-zero tensor; the code divides by its norm) -/
theorem percentAnisotropy_range (M : Mat6) (hM : IsSymm6 M) (hv : norm21 (matrixToVector M) ≠ 0) :
    0 ≤ percentAnisotropy M ∧ percentAnisotropy M ≤ 100 := by
  have hpos : 0 < norm21 (matrixToVector M) := lt_of_le_of_ne (norm21_nonneg _) (Ne.symm hv)
  have hle : norm21 (sub21 (matrixToVector M) (isoVector (bulkModulus M) (shearModulus M))) ≤ norm21 (matrixToVector M) := by
    apply norm21_le_of_dot_le
    have := aniso_pythagoras M hM
    have h2 := dot21_self_nonneg (isoVector (bulkModulus M) (shearModulus M))
    linarith
  simp only [percentAnisotropy]
  constructor
  · have := norm21_nonneg (sub21 (matrixToVector M) (isoVector (bulkModulus M) (shearModulus M)))
    positivity
  · have : norm21 (sub21 (matrixToVector M) (isoVector (bulkModulus M) (shearModulus M))) / norm21 (matrixToVector M) ≤ 1 :=
      (div_le_one hpos).mpr hle
    linarith

/-- the 21-vector norm of a stiffness matrix is unchanged by an orthogonal change of frame -/
theorem dot21_rot6 (Q : Mat3) (hQ : IsOrtho Q) (M : Mat6) (hM : IsSymm6 M) :
    dot21 (matrixToVector (rot6 Q M)) (matrixToVector (rot6 Q M)) = dot21 (matrixToVector M) (matrixToVector M) := by
  have hel := rotate_elastic _ (voigtToTensor_elastic M hM) Q
  rw [vector_isometry _ (rot6_symm Q M), rot6, tensor_roundtrip _ hel, frob4_rotate hQ, ← vector_isometry M hM]

/-- **percent anisotropy is frame independent** -/
theorem percentAnisotropy_rot6 (Q : Mat3) (hQ : IsOrtho Q) (M : Mat6) (hM : IsSymm6 M) :
    percentAnisotropy (rot6 Q M) = percentAnisotropy M := by
  have hs := rot6_symm Q M
  have e1 := dot21_rot6 Q hQ M hM
  have p1 := aniso_pythagoras M hM
  have p2 := aniso_pythagoras (rot6 Q M) hs
  rw [bulkModulus_rot6 Q hQ M hM, shearModulus_rot6 Q hQ M hM] at p2
  simp only [percentAnisotropy, bulkModulus_rot6 Q hQ M hM, shearModulus_rot6 Q hQ M hM, norm21_eq, e1]
  congr 3
  linarith

/-! ### Pythagoras over the nested class projectors -/
theorem iso_in_hex (K G : ℝ) : hexProject (isoVector K G) = isoVector K G := by
  have h := sqrt2_sq
  funext k; fin_cases k <;> simp [hexProject, isoVector, div_sqrt2] <;> grind

/-- for ANY vector `x` (the tensor in any candidate frame) and any isotropic vector: the five parts
computed by `elasticity_components` are mutually orthogonal and add up to `x − iso` -/
theorem classes_pythagoras (x : Vec21) (K G : ℝ) :
    let monoH := monoProject x
    let orthoH := orthoProject monoH
    let tetrH := tetrProject orthoH
    let hexH := hexProject tetrH
    dot21 (sub21 x monoH) (sub21 x monoH) + dot21 (sub21 monoH orthoH) (sub21 monoH orthoH)
      + dot21 (sub21 orthoH tetrH) (sub21 orthoH tetrH) + dot21 (sub21 tetrH hexH) (sub21 tetrH hexH)
      + dot21 (sub21 hexH (isoVector K G)) (sub21 hexH (isoVector K G))
      = dot21 (sub21 x (isoVector K G)) (sub21 x (isoVector K G)) := by
  have h := sqrt2_sq
  simp [dot21, sub21, monoProject, orthoProject, tetrProject, hexProject, isoVector, div_sqrt2, half_eq]
  grind

/-- if the tensor is orthorhombic in the candidate frame (components 9..20 vanish) the triclinic
and monoclinic parts are zero -/
theorem ortho_in_frame (x : Vec21) (h : ∀ k : Fin 21, 9 ≤ k.val → x k = 0) :
    sub21 x (monoProject x) = (fun _ => 0) ∧
    sub21 (monoProject x) (orthoProject (monoProject x)) = (fun _ => 0) := by
  constructor <;> funext k <;> fin_cases k <;>
    simp [sub21, monoProject, orthoProject] <;> (apply h; simp)



/-! ### the contractions and their eigen-pairs co-rotate -/
theorem mulVec_mmul (A B : Mat3) (v : Vec3) : mulVec (mmul A B) v = mulVec A (mulVec B v) := by
  funext i; simp only [mulVec, mmul, sum3]; ring
theorem mulVec_one (v : Vec3) : mulVec one3 v = v := by
  funext i; fin_cases i <;> simp [mulVec, one3, sum3]
theorem mulVec_smul (A : Mat3) (c : ℝ) (v : Vec3) : mulVec A (fun i => c * v i) = fun i => c * mulVec A v i := by
  funext i; simp only [mulVec, sum3]; ring

/-- the matrices handed to `la.eigh` for the tensor in a frame rotated by `Q` are `Q D Qᵀ`, `Q V Qᵀ` -/
theorem voigtDecompose_rot6 (Q : Mat3) (hQ : IsOrtho Q) (M : Mat6) (hM : IsSymm6 M) :
    voigtDecompose (rot6 Q M)
      = (mmul Q (mmul (voigtDecompose M).1 (tr Q)), mmul Q (mmul (voigtDecompose M).2 (tr Q))) := by
  have hel := rotate_elastic _ (voigtToTensor_elastic M hM) Q
  have h1 : voigtDilat (rot6 Q M) = mmul Q (mmul (voigtDilat M) (tr Q)) := by
    rw [voigtDilat_eq _ (rot6_symm Q M), rot6, tensor_roundtrip _ hel, dilat4_rotate hQ, voigtDilat_eq M hM]
  have h2 : voigtDeviat (rot6 Q M) = mmul Q (mmul (voigtDeviat M) (tr Q)) := by
    rw [voigtDeviat_eq _ (rot6_symm Q M), rot6, tensor_roundtrip _ hel, deviat4_rotate hQ, voigtDeviat_eq M hM]
  simp only [voigtDecompose, h1, h2]

/-- an eigen-pair `(λ, u)` of `X` becomes the eigen-pair `(λ, Q u)` of `Q X Qᵀ` -/
theorem eigenpair_corotates (Q : Mat3) (hQ : IsOrtho Q) (X : Mat3) (u : Vec3) (lam : ℝ)
    (h : mulVec X u = fun i => lam * u i) :
    mulVec (mmul Q (mmul X (tr Q))) (mulVec Q u) = fun i => lam * mulVec Q u i := by
  rw [mulVec_mmul, mulVec_mmul, ← mulVec_mmul (tr Q) Q, hQ, mulVec_one, h, mulVec_smul]

/-! ### the pairing loop when the two eigenbases agree -/
theorem norm3_unit (v : Vec3) (h : dot3 v v = 1) : norm3 v = 1 := by
  simp [norm3, Rsqrt, h]

theorem rad2deg_pi : Real.pi * (180 / Real.pi) = 180 := by
  have := Real.pi_ne_zero; field_simp

theorem clip1_one : clip1 1 = 1 := by unfold clip1; norm_num
theorem clip1_neg_one : clip1 (-1) = -1 := by unfold clip1; norm_num
theorem clip1_zero : clip1 0 = 0 := by unfold clip1; norm_num

theorem smallestAngle_parallel (d v : Vec3) (hd : dot3 d d = 1) (hv : dot3 v v = 1)
    (h : dot3 d v = 1 ∨ dot3 d v = -1) : smallestAngle d v = 0 := by
  rcases h with h | h
  · simp only [smallestAngle, norm3_unit d hd, norm3_unit v hv, h, mul_one, div_one, clip1_one, Racos,
      Real.arccos_one, zero_mul]
    norm_num
  · simp only [smallestAngle, norm3_unit d hd, norm3_unit v hv, h, mul_one, div_one, clip1_neg_one, Racos,
      Real.arccos_neg_one, Rpi, rad2deg_pi]
    norm_num

theorem smallestAngle_perp (d v : Vec3) (hd : dot3 d d = 1) (hv : dot3 v v = 1)
    (h : dot3 d v = 0) : smallestAngle d v = 90 := by
  have e : Real.pi / 2 * (180 / Real.pi) = 90 := by
    have := Real.pi_ne_zero; field_simp; norm_num
  simp only [smallestAngle, norm3_unit d hd, norm3_unit v hv, h, mul_one, div_one, clip1_zero, Racos,
    Real.arccos_zero, Rpi, e]
  norm_num



theorem col_dot (E : Mat3) (hE : IsOrtho E) (a b : Fin 3) :
    dot3 (col3 E a) (col3 E b) = if a = b then 1 else 0 := by
  have := IsOrtho.col E hE a b
  simpa [dot3, col3, sum3] using this

/-- the aligned situation: `d = σ · (column js of eigV)`, `σ = ±1`, `eigV` orthonormal -/
theorem aligned_dot (E : Mat3) (hE : IsOrtho E) (js : Fin 3) (σ : ℝ) (j : Fin 3) :
    dot3 (fun k => σ * E k js) (col3 E j) = σ * (if js = j then 1 else 0) := by
  have := col_dot E hE js j
  simp only [dot3, col3, sum3] at this ⊢
  linear_combination σ * this

theorem aligned_unit (E : Mat3) (hE : IsOrtho E) (js : Fin 3) (σ : ℝ) (hσ : σ = 1 ∨ σ = -1) :
    dot3 (fun k => σ * E k js) (fun k => σ * E k js) = 1 := by
  have := col_dot E hE js js
  simp only [dot3, col3, sum3, if_true] at this ⊢
  rcases hσ with rfl | rfl <;> linarith

theorem sgn_one : sgn 1 = 1 := by unfold sgn; norm_num
theorem sgn_neg_one : sgn (-1) = -1 := by unfold sgn; norm_num

theorem pairStep_skip (d : Vec3) (E : Mat3) (st : PairState) (j : Fin 3)
    (ha : smallestAngle d (col3 E j) = 90) (hst : st.angle ≤ 90) : pairStep d E st j = st := by
  simp only [pairStep, ha]
  rw [if_neg (not_lt.mpr hst)]

theorem pairStep_hit (d : Vec3) (E : Mat3) (st : PairState) (j : Fin 3) (σ : ℝ) (hσ : σ = 1 ∨ σ = -1)
    (ha : smallestAngle d (col3 E j) = 0) (hdot : dot3 d (col3 E j) = σ) (hst : 0 < st.angle) :
    pairStep d E st j = ⟨0, σ * RofNat j.val, j⟩ := by
  simp only [pairStep, ha, hdot, if_pos hst]
  rcases hσ with rfl | rfl
  · simp [sgn_one]
  · simp [sgn_neg_one]

theorem pairLoop_aligned (E : Mat3) (hE : IsOrtho E) (js : Fin 3) (σ : ℝ) (hσ : σ = 1 ∨ σ = -1) :
    pairLoop (fun k => σ * E k js) E = ⟨0, σ * RofNat js.val, js⟩ := by
  have hd := aligned_unit E hE js σ hσ
  have hc : ∀ j, dot3 (col3 E j) (col3 E j) = 1 := fun j => by simpa using col_dot E hE j j
  have hdot := aligned_dot E hE js σ
  have hdj : dot3 (fun k => σ * E k js) (col3 E js) = σ := by rw [hdot js]; simp
  have hpar : smallestAngle (fun k => σ * E k js) (col3 E js) = 0 := by
    apply smallestAngle_parallel _ _ hd (hc js)
    rw [hdj]; exact hσ
  have hperp : ∀ j, js ≠ j → smallestAngle (fun k => σ * E k js) (col3 E j) = 90 := by
    intro j hj
    apply smallestAngle_perp _ _ hd (hc j)
    rw [hdot j]; simp [hj]
  have hjs : js = 0 ∨ js = 1 ∨ js = 2 := by fin_cases js <;> simp
  unfold pairLoop
  rcases hjs with rfl | rfl | rfl
  · rw [pairStep_hit _ E _ 0 σ hσ hpar hdj (by norm_num),
      pairStep_skip _ E _ 1 (hperp 1 (by decide)) (by norm_num),
      pairStep_skip _ E _ 2 (hperp 2 (by decide)) (by norm_num)]
  · rw [pairStep_skip _ E _ 0 (hperp 0 (by decide)) (by norm_num),
      pairStep_hit _ E _ 1 σ hσ hpar hdj (by norm_num),
      pairStep_skip _ E _ 2 (hperp 2 (by decide)) (by norm_num)]
  · rw [pairStep_skip _ E _ 0 (hperp 0 (by decide)) (by norm_num),
      pairStep_skip _ E _ 1 (hperp 1 (by decide)) (by norm_num),
      pairStep_hit _ E _ 2 σ hσ hpar hdj (by norm_num)]

theorem norm3_smul (c : ℝ) (hc : 0 ≤ c) (d : Vec3) (hd : dot3 d d = 1) : norm3 (fun k => c * d k) = c := by
  have : dot3 (fun k => c * d k) (fun k => c * d k) = c ^ 2 := by
    simp only [dot3, sum3] at hd ⊢; linear_combination (c ^ 2) * hd
  rw [norm3, Rsqrt, this, Real.sqrt_sq hc]

/-- **the pairing loop in the aligned case**: when the `d_ij` eigenvector is (up to sign) one of the
orthonormal `v_ij` eigenvectors, whatever its index, the averaged and normalised SCCS axis is the
`d_ij` eigenvector itself (index 0: no averaging; 1: equal weights; 2: weights 1:2) -/
theorem sccsAxis_aligned (E : Mat3) (hE : IsOrtho E) (js : Fin 3) (σ : ℝ) (hσ : σ = 1 ∨ σ = -1) :
    sccsAxis (fun k => σ * E k js) E = fun k => σ * E k js := by
  have hd := aligned_unit E hE js σ hσ
  have hσ2 : σ * σ = 1 := by rcases hσ with rfl | rfl <;> norm_num
  have hw : (fun k => ((fun k => σ * E k js) k + (σ * RofNat js.val) * E k js) / 2)
      = fun k => ((1 + RofNat js.val) / 2) * (fun k => σ * E k js) k := by
    funext k; ring
  have hc : (0 : ℝ) < (1 + RofNat js.val) / 2 := by
    have : (0 : ℝ) ≤ RofNat js.val := by simp [RofNat]
    positivity
  funext k
  simp only [sccsAxis, pairLoop_aligned E hE js σ hσ]
  rw [hw, norm3_smul _ hc.le _ hd]
  rw [div_eq_iff hc.ne']; ring


/-- if every `d_ij` eigenvector is, up to sign, one of the orthonormal `v_ij` eigenvectors, the
SCCS found by the pairing loop is the matrix of `d_ij` eigenvectors -/
theorem sccs_aligned (eigD eigV : Mat3) (hV : IsOrtho eigV)
    (h : ∀ i, ∃ (js : Fin 3) (σ : ℝ), (σ = 1 ∨ σ = -1) ∧ col3 eigD i = fun k => σ * eigV k js) :
    sccs eigD eigV = eigD := by
  funext k i
  obtain ⟨js, σ, hσ, hcol⟩ := h i
  simp only [sccs, hcol, sccsAxis_aligned eigV hV js σ hσ]
  exact (congrFun hcol k).symm


/-! ### orthorhombic form is preserved by signed permutations of the axes -/
/-- signed permutation matrix: row `i` has `ε i` in column `π i` -/
def sperm (π : Fin 3 → Fin 3) (ε : Fin 3 → ℝ) : Mat3 := fun i j => if π i = j then ε i else 0

/-- the index pairs of an orthorhombic 4th-order tensor: `C_aabb`, `C_abab`, `C_abba` -/
def Paired (a b c d : Fin 3) : Prop := (a = b ∧ c = d) ∨ (a = c ∧ b = d) ∨ (a = d ∧ b = c)
instance (a b c d : Fin 3) : Decidable (Paired a b c d) := by unfold Paired; infer_instance

/-- orthorhombic in the coordinate frame: only paired components are non-zero -/
def OrthoForm (T : Ten4) : Prop := ∀ a b c d, ¬ Paired a b c d → T a b c d = 0

theorem sum3_ite (p : Fin 3) (c : ℝ) (f : Fin 3 → ℝ) :
    (sum3 fun a => (if p = a then c else 0) * f a) = c * f p := by
  fin_cases p <;> simp [sum3]

theorem rotate_sperm (T : Ten4) (π : Fin 3 → Fin 3) (ε : Fin 3 → ℝ) :
    rotate T (sperm π ε) = fun i j k l => ε i * ε j * ε k * ε l * T (π i) (π j) (π k) (π l) := by
  rw [rotate_eq_con]
  funext i j k l
  simp only [con1, con2, con3, con4, sperm, sum3_ite]
  ring

theorem orthoForm_rotate_sperm (T : Ten4) (hT : OrthoForm T) (π : Fin 3 → Fin 3)
    (hπ : Function.Injective π) (ε : Fin 3 → ℝ) : OrthoForm (rotate T (sperm π ε)) := by
  intro a b c d hp
  rw [rotate_sperm]
  have : ¬ Paired (π a) (π b) (π c) (π d) := by
    intro h; apply hp
    rcases h with ⟨h1, h2⟩ | ⟨h1, h2⟩ | ⟨h1, h2⟩
    · exact Or.inl ⟨hπ h1, hπ h2⟩
    · exact Or.inr (Or.inl ⟨hπ h1, hπ h2⟩)
    · exact Or.inr (Or.inr ⟨hπ h1, hπ h2⟩)
  simp only [hT _ _ _ _ this, mul_zero]

/-- the Voigt pattern of an orthorhombic stiffness matrix (nine non-zero entries of 21) -/
def OrthoPat (M : Mat6) : Prop :=
  ∀ i j : Fin 6, ((i.val < 3 ∧ 3 ≤ j.val) ∨ (3 ≤ i.val ∧ j.val < 3) ∨ (3 ≤ i.val ∧ 3 ≤ j.val ∧ i ≠ j)) → M i j = 0

theorem orthoForm_of_pat (M : Mat6) (h : OrthoPat M) : OrthoForm (voigtToTensor M) := by
  intro a b c d hp
  simp only [voigtToTensor]
  apply h
  revert hp
  fin_cases a <;> fin_cases b <;> fin_cases c <;> fin_cases d <;> simp [Paired]

set_option maxHeartbeats 1000000 in
/-- the 21-vector of an orthorhombic-form tensor has no monoclinic/triclinic components -/
theorem vector_of_orthoForm (T : Ten4) (hT : OrthoForm T) (k : Fin 21) (hk : 9 ≤ k.val) :
    matrixToVector (tensorToVoigt T) k = 0 := by
  have e : T = fun a b c d => if Paired a b c d then T a b c d else 0 := by
    funext a b c d
    by_cases hp : Paired a b c d
    · simp [hp]
    · simp [hp, hT a b c d hp]
  rw [e]
  fin_cases k <;> simp at hk <;>
    simp [matrixToVector, tensorToVoigt, accum, accumCount, sum81, sum3, mod3, lo3, up3, nxt, nxt2, Paired]


/-- **an orthorhombic tensor seen from a candidate frame whose axes are ± its principal axes (in any
order) has no monoclinic and no triclinic part**: `M = rot6 R M0` with `M0` of orthorhombic Voigt
pattern, candidate frame `P` with `Pᵀ = S Rᵀ`, `S` a signed permutation -/
theorem orthorhombic_candidate_frame (M0 : Mat6) (hS : IsSymm6 M0) (hpat : OrthoPat M0) (R : Mat3)
    (hR : IsOrtho R) (π : Fin 3 → Fin 3) (hπ : Function.Injective π) (ε : Fin 3 → ℝ) (P : Mat3)
    (hP : tr P = mmul (sperm π ε) (tr R)) (iso : Vec21) (nv : ℝ) :
    (decompIn (voigtToTensor (rot6 R M0)) iso nv P).tric = 0 ∧
    (decompIn (voigtToTensor (rot6 R M0)) iso nv P).mono = 0 := by
  have hel0 := voigtToTensor_elastic M0 hS
  have hel := rotate_elastic _ hel0 R
  have hrot : rotate (voigtToTensor (rot6 R M0)) (tr P) = rotate (voigtToTensor M0) (sperm π ε) := by
    rw [rot6, tensor_roundtrip _ hel, rotate_comp, hP, mmul_assoc, hR, mmul_one]
  have hform : OrthoForm (rotate (voigtToTensor M0) (sperm π ε)) :=
    orthoForm_rotate_sperm _ (orthoForm_of_pat M0 hpat) π hπ ε
  have hvec := vector_of_orthoForm _ hform
  obtain ⟨h1, h2⟩ := ortho_in_frame _ hvec
  simp only [decompIn, ofA21_memoA21, ofA6_memoA6, ofA4_memoA4, hrot, h1, h2]
  simp [norm21, sum21, Rsqrt]


end ModelR.Tensors
