import Proofs.DrexAlgebra
/-! Crystal symmetry: replacing a grain's orientation by `S·A` with `S = diag(±1, ±1, ±1)`
(row sign flips; the three two-fold rotations are the cases with exactly two minus signs). -/
namespace ModelR

/-- `S · A` for a diagonal sign matrix -/
def rowScale (s : Fin 3 → ℝ) (A : Mat3) : Mat3 := fun i j => s i * A i j

/-- a vector of signs -/
def IsSign (s : Fin 3 → ℝ) : Prop := ∀ i, s i * s i = 1

theorem abs_of_sq_one (c : ℝ) (h : c * c = 1) : |c| = 1 := by
  have : |c| * |c| = 1 := by rw [← abs_mul, h, abs_one]
  nlinarith [abs_nonneg c]

theorem Rabs_sign_mul (c x : ℝ) (h : c * c = 1) : Rabs (c * x) = Rabs x := by
  simp [Rabs, abs_mul, abs_of_sq_one c h]

/-- sign picked up by slip system `s` -/
def sysSign (s : Fin 3 → ℝ) (k : Fin 4) : ℝ := s (slipL k) * s (slipN k)

theorem sysSign_sq (s : Fin 3 → ℝ) (hs : IsSign s) (k : Fin 4) : sysSign s k * sysSign s k = 1 := by
  have h1 := hs (slipL k)
  have h2 := hs (slipN k)
  unfold sysSign
  calc s (slipL k) * s (slipN k) * (s (slipL k) * s (slipN k))
      = (s (slipL k) * s (slipL k)) * (s (slipN k) * s (slipN k)) := by ring
    _ = 1 := by rw [h1, h2]; ring

theorem slipInvariants_rowScale (s : Fin 3 → ℝ) (D A : Mat3) (k : Fin 4) :
    slipInvariants D (rowScale s A) k = sysSign s k * slipInvariants D A k := by
  simp only [slipInvariants, rowScale, sysSign, sum3]; ring

theorem divByTau_mul (c x : ℝ) (t : Tau) : divByTau (c * x) t = c * divByTau x t := by
  unfold divByTau; split_ifs <;> ring

/-- the sort keys `|I_s / τ_s|` are unchanged -/
theorem keys_rowScale (s : Fin 3 → ℝ) (hs : IsSign s) (D A : Mat3) (crss : Crss) :
    (fun k => Rabs (divByTau (slipInvariants D (rowScale s A) k) (crss k)))
      = (fun k => Rabs (divByTau (slipInvariants D A k) (crss k))) := by
  funext k
  rw [slipInvariants_rowScale, divByTau_mul, Rabs_sign_mul _ _ (sysSign_sq s hs k)]

theorem allZero4_rowScale (s : Fin 3 → ℝ) (hs : IsSign s) (D A : Mat3) :
    allZero4 (slipInvariants D (rowScale s A)) = allZero4 (slipInvariants D A) := by
  have hz : ∀ k, (slipInvariants D (rowScale s A) k = 0) ↔ (slipInvariants D A k = 0) := by
    intro k
    rw [slipInvariants_rowScale]
    have hne : sysSign s k ≠ 0 := by
      intro h0; have := sysSign_sq s hs k; rw [h0] at this; norm_num at this
    simp [hne]
  simp only [allZero4, Req, hz]

/-- odd power law `x ↦ x·|x|^(n−1)` commutes with a sign -/
theorem oddpow_sign (c x e : ℝ) (h : c * c = 1) :
    (c * x) * Rpow (Rabs (c * x)) e = c * (x * Rpow (Rabs x) e) := by
  rw [Rabs_sign_mul c x h]; ring

theorem tauDiv_sign (c x : ℝ) (t : Tau) (h : c * c = 1) : tauDiv t (c * x) = c * tauDiv t x := by
  unfold tauDiv
  split_ifs
  · ring
  · by_cases hx : x = 0
    · simp [hx]
    · have hc : c ≠ 0 := by intro h0; rw [h0] at h; norm_num at h
      have hinv : c⁻¹ = c := by
        field_simp; linarith
      rw [div_eq_mul_inv, mul_inv, hinv, div_eq_mul_inv]; ring

/-- the olivine slip rates pick up `σ_max σ_s` -/
theorem slipRatesOlivine_sign (sg : Fin 4 → ℝ) (hsg : ∀ k, sg k * sg k = 1) (I : Fin 4 → ℝ)
    (perm : Fin 4 → Fin 4) (crss : Crss) (n : ℝ) (k : Fin 4) :
    slipRatesOlivine (fun j => sg j * I j) perm crss n k
      = sg (perm 3) * sg k * slipRatesOlivine I perm crss n k := by
  have hm := hsg (perm 3)
  simp only [slipRatesOlivine]
  have e1 : ∀ j, divByTau (tauDiv (crss (perm 3)) (sg (perm 3) * I (perm 3)) * (sg j * I j)) (crss j)
      = (sg (perm 3) * sg j) * divByTau (tauDiv (crss (perm 3)) (I (perm 3)) * I j) (crss j) := by
    intro j
    rw [tauDiv_sign _ _ _ hm, ← divByTau_mul]; congr 1; ring
  have hprod : ∀ j, (sg (perm 3) * sg j) * (sg (perm 3) * sg j) = 1 := by
    intro j
    calc sg (perm 3) * sg j * (sg (perm 3) * sg j)
        = (sg (perm 3) * sg (perm 3)) * (sg j * sg j) := by ring
      _ = 1 := by rw [hm, hsg j]; ring
  split_ifs with h3 h2 h1
  · subst h3; rw [hm]; ring
  · subst h2; rw [e1, oddpow_sign _ _ _ (hprod _)]
  · subst h1; rw [e1, oddpow_sign _ _ _ (hprod _)]
  · ring

theorem deformationRate_rowScale (s : Fin 3 → ℝ) (hs : IsSign s) (c : ℝ) (A : Mat3) (r : Fin 4 → ℝ) :
    deformationRate (rowScale s A) (fun k => c * sysSign s k * r k) = smul3 c (deformationRate A r) := by
  funext i j
  have h0 := hs 0
  have h1 := hs 1
  have h2 := hs 2
  simp only [deformationRate, rowScale, sysSign, smul3, slipL, slipN]
  have e01 : c * (s 0 * s 1) * r 0 * (s 0 * A 0 i) * (s 1 * A 1 j) = c * ((s 0 * s 0) * (s 1 * s 1)) * r 0 * A 0 i * A 1 j := by ring
  have e02 : c * (s 0 * s 2) * r 1 * (s 0 * A 0 i) * (s 2 * A 2 j) = c * ((s 0 * s 0) * (s 2 * s 2)) * r 1 * A 0 i * A 2 j := by ring
  have e21 : c * (s 2 * s 1) * r 2 * (s 2 * A 2 i) * (s 1 * A 1 j) = c * ((s 2 * s 2) * (s 1 * s 1)) * r 2 * A 2 i * A 1 j := by ring
  have e20 : c * (s 2 * s 0) * r 3 * (s 2 * A 2 i) * (s 0 * A 0 j) = c * ((s 2 * s 2) * (s 0 * s 0)) * r 3 * A 2 i * A 0 j := by ring
  rw [e01, e02, e21, e20, h0, h1, h2]; ring

theorem softestDenom_smul (c : ℝ) (hc : c * c = 1) (G : Mat3) : softestDenom (smul3 c G) = softestDenom G := by
  have : softestDenom (smul3 c G) = (c * c) * softestDenom G := by
    simp only [softestDenom, smul3, sum3]; ring
  rw [this, hc, one_mul]

theorem softestEnumer_smul (c : ℝ) (G L : Mat3) : softestEnumer (smul3 c G) L = c * softestEnumer G L := by
  simp only [softestEnumer, smul3, sum3]; ring

theorem slipRateSoftest_smul (c : ℝ) (hc : c * c = 1) (G L : Mat3) :
    slipRateSoftest (smul3 c G) L = c * slipRateSoftest G L := by
  unfold slipRateSoftest
  rw [softestDenom_smul c hc, softestEnumer_smul]
  dsimp only
  split_ifs <;> ring

theorem orientationChange_rowScale (s : Fin 3 → ℝ) (c : ℝ) (hc : c * c = 1) (A L G : Mat3) (g0 : ℝ) :
    orientationChange (rowScale s A) L (smul3 c G) (c * g0) = rowScale s (orientationChange A L G g0) := by
  funext p q
  simp only [orientationChange, Vec3.memo_eq, spinVector, rowScale, smul3, sum3]
  have : ∀ a b : Fin 3, (c * G a b - c * G b a) * (c * g0) = (c * c) * ((G a b - G b a) * g0) := by
    intros; ring
  simp only [this, hc, one_mul]
  ring

theorem dislocationDensity_sign (t : Tau) (c rate g0 p n : ℝ) (hc : c * c = 1) :
    dislocationDensity t (c * rate) g0 p n = dislocationDensity t rate g0 p n := by
  unfold dislocationDensity
  rw [mul_assoc, Rabs_sign_mul c _ hc]

/-- the general step: rates multiplied by `c·σ_s` give the row-scaled rotation and the same energy -/
theorem rotationFromRates_rowScale (s : Fin 3 → ℝ) (hs : IsSign s) (c : ℝ) (hc : c * c = 1)
    (crss : Crss) (A L : Mat3) (r : Fin 4 → ℝ) (p n lam : ℝ) :
    rotationFromRates crss (rowScale s A) L (fun k => c * sysSign s k * r k) p n lam
      = (rowScale s (rotationFromRates crss A L r p n lam).1, (rotationFromRates crss A L r p n lam).2) := by
  simp only [rotationFromRates, vec4memo_eq, Mat3.memo_eq, deformationRate_rowScale s hs,
    slipRateSoftest_smul c hc, orientationChange_rowScale s c hc]
  congr 1
  simp only [strainEnergy]
  have key : ∀ k : Fin 4, ∀ g0 : ℝ,
      dislocationDensity (crss k) (c * sysSign s k * r k) (c * g0) p n
        = dislocationDensity (crss k) (r k) g0 p n := by
    intro k g0
    unfold dislocationDensity
    have : c * sysSign s k * r k * (c * g0) = (c * c) * (sysSign s k * (r k * g0)) := by ring
    rw [this, hc, one_mul, Rabs_sign_mul _ _ (sysSign_sq s hs k)]
  rw [key 0, key 1, key 2]

theorem slipRatesEnstatite_sign (s : Fin 3 → ℝ) (hs : IsSign s) (I : Fin 4 → ℝ) :
    slipRatesEnstatite (fun j => sysSign s j * I j)
      = fun k => sysSign s 3 * sysSign s k * slipRatesEnstatite I k := by
  funext k
  simp only [slipRatesEnstatite, Rabs_sign_mul _ _ (sysSign_sq s hs 3)]
  split_ifs with h3
  · subst h3; rw [sysSign_sq s hs 3]; ring
  · subst h3; ring
  · ring

/-- **the per-grain kernel is invariant under crystal symmetry**: for `S = diag(±1,±1,±1)`,
the rotation rate of `S·A` is `S` times that of `A` and the strain energy is the same -/
theorem rotationAndStrainCore_rowScale (s : Fin 3 → ℝ) (hs : IsSign s) (phase : Int) (crss : Crss)
    (A D L : Mat3) (p n lam : ℝ) :
    rotationAndStrainCore phase crss (rowScale s A) D L p n lam
      = (rowScale s (rotationAndStrainCore phase crss A D L p n lam).1,
         (rotationAndStrainCore phase crss A D L p n lam).2) := by
  have hz : noSlipRotation (rowScale s A) L = rowScale s (noSlipRotation A L) := by
    funext i j
    simp only [noSlipRotation, Mat3.memo_eq, orientationChange, Vec3.memo_eq, rowScale, sum3]
    ring
  have hI : slipInvariants D (rowScale s A) = fun k => sysSign s k * slipInvariants D A k := by
    funext k; exact slipInvariants_rowScale s D A k
  unfold rotationAndStrainCore
  simp only [vec4memo_eq, perm4memo_eq, allZero4_rowScale s hs]
  rw [keys_rowScale s hs D A crss]
  set perm := argsort4 (fun k => Rabs (divByTau (slipInvariants D A k) (crss k))) with hperm
  have hguard : Req (divByTau (slipInvariants D (rowScale s A) (perm 3)) (crss (perm 3))) 0
      = Req (divByTau (slipInvariants D A (perm 3)) (crss (perm 3))) 0 := by
    rw [slipInvariants_rowScale, divByTau_mul]
    have hne : sysSign s (perm 3) ≠ 0 := by
      intro h0; have := sysSign_sq s hs (perm 3); rw [h0] at this; norm_num at this
    simp only [Req, mul_eq_zero, hne, false_or]
  rw [hguard]
  split_ifs
  · simp only [hz]
  · simp only [hz]
  · have : slipRatesOlivine (slipInvariants D (rowScale s A)) perm crss n
        = fun k => sysSign s (perm 3) * sysSign s k * slipRatesOlivine (slipInvariants D A) perm crss n k := by
      funext k
      rw [hI]
      exact slipRatesOlivine_sign (sysSign s) (sysSign_sq s hs) _ perm crss n k
    rw [this]
    exact rotationFromRates_rowScale s hs _ (sysSign_sq s hs (perm 3)) crss A L _ p n lam
  · rw [hI, slipRatesEnstatite_sign s hs]
    exact rotationFromRates_rowScale s hs _ (sysSign_sq s hs 3) crss A L _ p n lam

end ModelR
