import ModelD.YamlScalar
import Proofs.ScsvText
/-! Facts about the modelled YAML implicit resolver (C16, extension): which identifiers YAML does
not read back as strings when written as plain scalars (the defect family repaired by 78c9fb7). -/
namespace Scsv.Yaml
open Re

/-- the language of `r` is certainly empty -/
def Re.isVoid : Re → Bool
  | .empty => true | .eps => false | .cls _ => false
  | .seq a b => a.isVoid || b.isVoid
  | .alt a b => a.isVoid && b.isVoid
  | .star _ => false

/-- `c` may be the first character of a word of `r` (over-approximation) -/
def Re.first : Re → Char → Bool
  | .empty, _ => false | .eps, _ => false
  | .cls p, c => p c
  | .seq a b, c => a.first c || (a.nullable && b.first c)
  | .alt a b, c => a.first c || b.first c
  | .star a, c => a.first c

theorem isVoid_mkSeq (a b : Re) (h : a.isVoid = true ∨ b.isVoid = true) : (mkSeq a b).isVoid = true := by
  unfold mkSeq
  split
  · rfl
  · split
    · rename_i h1 h2
      rcases h with h | h
      · cases a <;> simp_all [Re.isVoid, Re.isEps]
      · exact h
    · split
      · rename_i h1 h2 h3
        rcases h with h | h
        · exact h
        · cases b <;> simp_all [Re.isVoid, Re.isEps]
      · simp only [Re.isVoid, Bool.or_eq_true]; exact h

theorem isVoid_mkAlt (a b : Re) (ha : a.isVoid = true) (hb : b.isVoid = true) : (mkAlt a b).isVoid = true := by
  unfold mkAlt
  split
  · exact hb
  · split
    · exact ha
    · simp [Re.isVoid, ha, hb]

theorem isVoid_not_nullable (r : Re) (h : r.isVoid = true) : r.nullable = false := by
  induction r with
  | empty => rfl
  | eps => simp [Re.isVoid] at h
  | cls p => simp [Re.isVoid] at h
  | seq a b iha ihb =>
    simp only [Re.isVoid, Bool.or_eq_true] at h
    rcases h with h | h
    · simp [nullable, iha h]
    · simp [nullable, ihb h]
  | alt a b iha ihb =>
    simp only [Re.isVoid, Bool.and_eq_true] at h
    simp [nullable, iha h.1, ihb h.2]
  | star a _ => simp [Re.isVoid] at h

theorem isVoid_deriv (r : Re) (c : Char) (h : r.isVoid = true) : (deriv c r).isVoid = true := by
  induction r with
  | empty => rfl
  | eps => simp [Re.isVoid] at h
  | cls p => simp [Re.isVoid] at h
  | seq a b iha ihb =>
    simp only [Re.isVoid, Bool.or_eq_true] at h
    simp only [deriv]
    split
    · rename_i hn
      rcases h with h | h
      · rw [isVoid_not_nullable a h] at hn; cases hn
      · exact isVoid_mkAlt _ _ (isVoid_mkSeq _ _ (Or.inr h)) (ihb h)
    · rcases h with h | h
      · exact isVoid_mkSeq _ _ (Or.inl (iha h))
      · exact isVoid_mkSeq _ _ (Or.inr h)
  | alt a b iha ihb =>
    simp only [Re.isVoid, Bool.and_eq_true] at h
    exact isVoid_mkAlt _ _ (iha h.1) (ihb h.2)
  | star a _ => simp [Re.isVoid] at h

theorem isVoid_matches (r : Re) (s : Str) (h : r.isVoid = true) : r.matchesStr s = false := by
  unfold matchesStr
  induction s generalizing r with
  | nil => exact isVoid_not_nullable r h
  | cons c t ih => exact ih (deriv c r) (isVoid_deriv r c h)

theorem deriv_void_of_not_first (r : Re) (c : Char) (h : r.first c = false) : (deriv c r).isVoid = true := by
  induction r with
  | empty => rfl
  | eps => rfl
  | cls p => simp only [Re.first] at h; simp [deriv, h, Re.isVoid]
  | seq a b iha ihb =>
    simp only [Re.first, Bool.or_eq_false_iff, Bool.and_eq_false_iff] at h
    simp only [deriv]
    split
    · rename_i hn
      have hb : b.first c = false := by
        rcases h.2 with h2 | h2
        · rw [hn] at h2; cases h2
        · exact h2
      exact isVoid_mkAlt _ _ (isVoid_mkSeq _ _ (Or.inl (iha h.1))) (ihb hb)
    · exact isVoid_mkSeq _ _ (Or.inl (iha h.1))
  | alt a b iha ihb =>
    simp only [Re.first, Bool.or_eq_false_iff] at h
    exact isVoid_mkAlt _ _ (iha h.1) (ihb h.2)
  | star a iha =>
    simp only [Re.first] at h
    exact isVoid_mkSeq _ _ (Or.inl (iha h))

/-- a regular expression none of whose words can start with `c` matches no string starting with `c` -/
theorem not_matches_of_not_first (r : Re) (c : Char) (t : Str) (h : r.first c = false) :
    r.matchesStr (c :: t) = false := by
  have := isVoid_matches (deriv c r) t (deriv_void_of_not_first r c h)
  simpa [matchesStr] using this

set_option maxRecDepth 100000 in
/-- the numeric / timestamp / merge / value resolvers all need a first character that no identifier has -/
theorem idStart_not_first :
    ∀ n : Fin 256, isIdStart (Char.ofNat n.val) = true →
      reFloat.first (Char.ofNat n.val) = false ∧ reInt.first (Char.ofNat n.val) = false ∧
      reMerge.first (Char.ofNat n.val) = false ∧ reTimestamp.first (Char.ofNat n.val) = false ∧
      reValue.first (Char.ofNat n.val) = false := by decide

/-- **an identifier written as a plain scalar is read back as itself, or matches PyYAML's bool or
null pattern** (`yes`, `No`, `ON`, `true`, `null`, …) – it is never taken for a number or a date. This
is exactly the family of field names that broke `read_scsv` before commit 78c9fb7. -/
theorem identifier_plain_resolution (n : Str) (h : isIdentifier n = true) :
    resolvePlain n = .str n ∨ reBool.matchesStr n = true ∨ reNull.matchesStr n = true := by
  cases n with
  | nil => simp [isIdentifier] at h
  | cons c t =>
    simp only [isIdentifier, Bool.and_eq_true] at h
    have hr := idContinue_range c (idStart_continue c h.1)
    have hlt : c.toNat < 256 := by omega
    have hc : c = Char.ofNat (⟨c.toNat, hlt⟩ : Fin 256).val := by simp
    have := idStart_not_first ⟨c.toNat, hlt⟩ (by rw [← hc]; exact h.1)
    rw [← hc] at this
    obtain ⟨h1, h2, h3, h4, h5⟩ := this
    by_cases hb : reBool.matchesStr (c :: t) = true
    · exact Or.inr (Or.inl hb)
    · by_cases hn : reNull.matchesStr (c :: t) = true
      · exact Or.inr (Or.inr hn)
      · left
        have e : resolveTag (c :: t) = .str := by
          simp only [resolveTag, hb, hn, not_matches_of_not_first _ c t h1, not_matches_of_not_first _ c t h2,
            not_matches_of_not_first _ c t h3, not_matches_of_not_first _ c t h4,
            not_matches_of_not_first _ c t h5, Bool.false_eq_true, if_false]
        simp [resolvePlain, e]

end Scsv.Yaml
