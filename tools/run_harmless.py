#!/usr/bin/env python3
"""Run every quick check against each behaviour-preserving refactoring kept under /verif/harmless/<id>/ (patch.diff, meta.json).
Records which checks alarm (they should not, except where meta.json says a private helper was renamed/inlined: then the
correspondence or the S2 translator may legitimately break and is reported with no-failing-input-found)."""
import json, os, pathlib, subprocess, sys, time
V = pathlib.Path(__file__).resolve().parent.parent
H = V / "harmless"
PROPS = [json.loads(l)["id"] for l in open(V / "properties.jsonl")]

def sh(cmd, **kw):
    return subprocess.run(cmd, capture_output=True, text=True, **kw)

# properties whose checks exercise a module (all 20 with --all)
BY_MODULE = {"core.py": ["C01", "C02", "C03", "C04", "C05", "C06", "C07", "C08", "C09"], "minerals.py": ["C01", "C05", "C06", "C07", "C08", "C09", "C10", "C17"],
             "utils.py": ["C01", "C06", "C09", "C14", "C18"], "pathlines.py": ["C18"], "tensors.py": ["C10", "C11", "C12"],
             "stats.py": ["C13", "C15", "C20"], "diagnostics.py": ["C12", "C13", "C14"], "geometry.py": ["C13", "C14", "C18", "C20"], "velocity.py": ["C18", "C06"],
             "io.py": ["C16", "C19"]}
ALL = "--all" in sys.argv
sys.argv = [a for a in sys.argv if a != "--all"]
ids = sys.argv[1:] or sorted(p.name for p in H.iterdir() if (p / "patch.diff").exists())
for hid in ids:
    d = H / hid
    wt = pathlib.Path(f"/tmp/harmless_wt_{hid}")
    sh(["git", "-C", "/repo", "worktree", "remove", "--force", str(wt)])
    assert sh(["git", "-C", "/repo", "worktree", "add", "--detach", str(wt), "HEAD"]).returncode == 0
    out = {"id": hid, "alarms": {}, "passes": []}
    try:
        ap = sh(["git", "-C", str(wt), "apply", str(d / "patch.diff")])
        if ap.returncode != 0:
            out["apply_error"] = ap.stderr[-300:]
        else:
            meta = json.loads((d / "meta.json").read_text())
            props = PROPS if ALL else sorted({p_ for m_ in meta.get("modules", []) for p_ in BY_MODULE.get(m_, PROPS)})
            for pr in props:
                ev = V / "evidence" / f"{pr}.json"
                saved = ev.read_bytes() if ev.exists() else None
                try:
                    p = sh(["./check", pr, "--tier", "quick"], cwd=V, env=dict(os.environ, PYDREX_VERIF_REPO=str(wt)), timeout=1800)
                finally:
                    if saved is not None:
                        ev.write_bytes(saved)
                if p.returncode == 0:
                    out["passes"].append(pr)
                else:
                    out["alarms"][pr] = [l.strip()[:260] for l in p.stdout.splitlines() if l.strip().startswith(("VIOLATION", "violation:", "corr-mismatch:", "lean:"))][:5]
    finally:
        sh(["git", "-C", "/repo", "worktree", "remove", "--force", str(wt)])
    (d / "result.json").write_text(json.dumps(out, indent=1))
    print(hid, "alarms:", {k: (v[0] if v else "") for k, v in out["alarms"].items()}, out.get("apply_error", ""), flush=True)
# the checks above re-traced lean/Generated/* from the REWRITTEN sources; the committed files describe /repo itself
sh(["git", "-C", str(V), "checkout", "--", "lean/Generated"])
