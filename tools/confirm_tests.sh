#!/bin/bash
# tools/confirm_tests.sh <seeded-id> : the pinned suite on a scratch worktree with the seeded patch applied (result -> seeded/<id>/tests.txt)
id=$1; wt=/tmp/ct_$id
git -C /repo worktree remove --force $wt >/dev/null 2>&1
git -C /repo worktree add --detach $wt HEAD >/dev/null 2>&1 || exit 2
git -C $wt apply /verif/seeded/$id/patch.diff || { echo "patch does not apply" > /verif/seeded/$id/tests.txt; git -C /repo worktree remove --force $wt; exit 1; }
( cd $wt && PYTHONPATH=$wt/src /venv/bin/python -m pytest -ra -q -p no:cacheprovider --timeout=900 --continue-on-collection-errors 2>&1 | tail -5 ) > /verif/seeded/$id/tests.txt
git -C /repo worktree remove --force $wt
tail -1 /verif/seeded/$id/tests.txt
