#!/usr/bin/env python3
"""Refresh the generated parts of DESIGN.md: section 10 table, section 11 table, section 12 (defects)."""
import json, pathlib, re, subprocess
V = pathlib.Path(__file__).resolve().parent.parent
p = V / "DESIGN.md"
s = p.read_text()
summ = subprocess.run(["python3", str(V / "tools/summary_table.py")], capture_output=True, text=True).stdout
# section 11 table
if "SUMMARY_TABLE_PLACEHOLDER" in s:
    s = s.replace("SUMMARY_TABLE_PLACEHOLDER", "<!-- summary table begin -->\n" + summ + "<!-- summary table end -->")
else:
    s = re.sub(r"<!-- summary table begin -->.*?<!-- summary table end -->", lambda m: "<!-- summary table begin -->\n" + summ + "<!-- summary table end -->", s, flags=re.S)
# section 10 table
seeded = subprocess.run(["python3", str(V / "tools/seeded_table.py")], capture_output=True, text=True).stdout
s = re.sub(r"\| seeded change \| property \|.*?\n(?=\n)", lambda m: seeded, s, count=1, flags=re.S)
# section 12
marker = "## 12. Defects found in /repo: final adjudication"
if marker in s:
    s = s[: s.index(marker)].rstrip() + "\n"
out = ["", marker, "",
       "Generated from `known_findings/*.json`. Section 5 above was the PLAN; this is what happened. Every `fix:` commit is a separate",
       "unguarded commit in /repo; the unedited pinned suite (74 tests) passes on the final tree. A `fixed:` line suppresses nothing.", "",
       "### Repaired (`fix:` commits)", ""]
for f in sorted((V / "known_findings").glob("C*.json")):
    d = json.loads(f.read_text())
    for line in d.get("fixed", []):
        out.append(f"* {line}")
out += ["", "### Known findings (genuine, reproduced on the real code on every run, not repaired)", ""]
for f in sorted((V / "known_findings").glob("C*.json")):
    d = json.loads(f.read_text())
    for k in d.get("findings", []):
        out.append(f"* **{k['property']}** `{k['key']}` — {k['what'][:600]}")
s = s.rstrip() + "\n" + "\n".join(out) + "\n"
p.write_text(s)
print("DESIGN.md refreshed")
