#!/usr/bin/env python3
"""Print the markdown table of seeded changes and which checks catch them (DESIGN.md section 10)."""
import json, pathlib
S = pathlib.Path(__file__).resolve().parent.parent / "seeded"
print("| seeded change | property | what was changed | needs | demo clean/patched | caught by (quick) | how |")
print("|---|---|---|---|---|---|---|")
for d in sorted(S.iterdir()):
    if not (d / "meta.json").exists():
        continue
    m = json.loads((d / "meta.json").read_text())
    r = {}
    for t in ("thorough", "quick"):
        if (d / f"result_{t}.json").exists():
            r[t] = json.loads((d / f"result_{t}.json").read_text())
    q = r.get("quick", {})
    how = []
    for pr, c in q.get("checks", {}).items():
        for l in c.get("detail", [])[:2]:
            how.append(l.replace("|", "/")[:110])
    det = ", ".join(q.get("detected_by") or []) or ("**missed (quick)**" if q else "not run")
    if not q.get("detected_by") and r.get("thorough", {}).get("detected_by"):
        det += "; thorough: " + ", ".join(r["thorough"]["detected_by"])
    print(f"| {d.name} | {m.get('property')} | {str(m.get('summary', ''))[:160].replace('|', '/')} | {str(m.get('needs', ''))[:140].replace('|', '/')} | "
          f"{q.get('demo_clean_exit')}/{q.get('demo_patched_exit')} | {det} | {'; '.join(how)[:240]} |")
