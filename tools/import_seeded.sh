#!/bin/bash
# tools/import_seeded.sh Cxx : copy /tmp/mut/Cxx/m*/ into seeded/Cxx-m*/ (patch.diff, demo.py, meta.json)
set -e
P=$1
for d in /tmp/mut/$P/m*/; do
  [ -f "$d/patch.diff" ] || continue
  id="$P-$(basename $d)"
  [ -f /verif/seeded/$id/patch.diff ] && continue   # never overwrite a seed that is already kept (it may have been rebased)
  mkdir -p /verif/seeded/$id
  cp "$d/patch.diff" "$d/demo.py" "$d/meta.json" /verif/seeded/$id/ 2>/dev/null || true
  echo imported $id
done
