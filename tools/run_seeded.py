#!/usr/bin/env python3
"""Try the checks against the seeded changes kept under /verif/seeded/<id>/.

For each seeded change: create a scratch worktree of /repo's HEAD under /tmp, apply patch.diff,
confirm the demonstration (demo.py exits 0 on the clean tree, non-zero on the patched tree), run
`./check <prop> --tier quick` (plus any checks listed in meta.json "also") with
PYDREX_VERIF_REPO pointing at the scratch tree, record exit codes and VIOLATION lines in
seeded/<id>/result.json, remove the worktree.   usage: tools/run_seeded.py [id ...] [--tier quick]
(With --in-repo the patch is applied to /repo itself and undone afterwards, as the brief describes;
use only when nobody else is running checks.)
"""
import json, os, pathlib, shutil, subprocess, sys, time

VERIF = pathlib.Path(__file__).resolve().parent.parent
SEEDED = VERIF / "seeded"


def sh(cmd, **kw):
    return subprocess.run(cmd, capture_output=True, text=True, **kw)


def run_check(prop, tier, repo):
    env = dict(os.environ, PYDREX_VERIF_REPO=str(repo))
    t = time.time()
    ev = VERIF / "evidence" / f"{prop}.json"
    saved = ev.read_bytes() if ev.exists() else None   # evidence must describe runs against /repo itself, not against a seeded change
    try:
        p = sh(["./check", prop, "--tier", tier], cwd=VERIF, env=env, timeout=3600)
    finally:
        if saved is not None:
            ev.write_bytes(saved)
    lines = [l for l in p.stdout.splitlines() if l.startswith(("VIOLATION", "KNOWN-FINDING", "[" + prop))]
    viol = [l for l in p.stdout.splitlines() if l.strip().startswith(("violation:", "corr-mismatch:", "lean:"))]
    return {"exit": p.returncode, "lines": [l[:300] for l in lines if not l.startswith("KNOWN")], "detail": [l.strip()[:300] for l in viol[:6]],
            "wall_s": round(time.time() - t, 1)}


def main():
    args = [a for a in sys.argv[1:] if not a.startswith("--")]
    tier = "quick"
    if "--tier" in sys.argv:
        tier = sys.argv[sys.argv.index("--tier") + 1]
        args = [a for a in args if a != tier]
    in_repo = "--in-repo" in sys.argv
    ids = args or sorted(p.name for p in SEEDED.iterdir() if (p / "patch.diff").exists())
    summary = []
    for sid in ids:
        d = SEEDED / sid
        meta = json.loads((d / "meta.json").read_text())
        prop = meta["property"]
        if in_repo:
            wt = pathlib.Path("/repo")
            assert sh(["git", "-C", "/repo", "status", "--porcelain", "--untracked-files=no"]).stdout.strip() == "", "/repo not clean"
        else:
            wt = pathlib.Path(f"/tmp/seeded_wt_{sid}")
            sh(["git", "-C", "/repo", "worktree", "remove", "--force", str(wt)])
            r = sh(["git", "-C", "/repo", "worktree", "add", "--detach", str(wt), "HEAD"])
            assert r.returncode == 0, r.stderr
        res = {"id": sid, "property": prop, "tier": tier, "repo_head": sh(["git", "-C", "/repo", "rev-parse", "--short", "HEAD"]).stdout.strip()}
        try:
            env = dict(os.environ, PYTHONPATH=f"{wt}/src")
            demo = d / "demo.py"
            if "--reuse-demo" in sys.argv and (d / f"result_{tier}.json").exists():
                # the demonstration was confirmed (0 on clean, non-zero on patched) at this /repo HEAD already: do not run it again
                pj = json.loads((d / f"result_{tier}.json").read_text())
                if pj.get("repo_head") == res["repo_head"] and pj.get("demo_clean_exit") == 0 and pj.get("demo_patched_exit") not in (0, None):
                    demo = d / "no-such-file"
                    res["demo_clean_exit"], res["demo_patched_exit"], res["demo_reused"] = pj["demo_clean_exit"], pj["demo_patched_exit"], True
            if demo.exists():
                res["demo_clean_exit"] = sh(["/venv/bin/python", str(demo)], env=env, cwd="/tmp", timeout=1800).returncode
            ap = sh(["git", "-C", str(wt), "apply", str(d / "patch.diff")])
            if ap.returncode != 0:
                res["apply_error"] = ap.stderr[-400:]
            else:
                if demo.exists():
                    res["demo_patched_exit"] = sh(["/venv/bin/python", str(demo)], env=env, cwd="/tmp", timeout=1800).returncode
                res["checks"] = {}
                for pr in [prop] + list(meta.get("also", [])):
                    res["checks"][pr] = run_check(pr, tier, wt)
                res["detected_by"] = [pr for pr, r in res["checks"].items() if r["exit"] == 1]
        finally:
            if in_repo:
                sh(["git", "-C", "/repo", "checkout", "--", "."])
            else:
                sh(["git", "-C", "/repo", "worktree", "remove", "--force", str(wt)])
        (d / f"result_{tier}.json").write_text(json.dumps(res, indent=1))
        summary.append((sid, res.get("detected_by"), res.get("demo_clean_exit"), res.get("demo_patched_exit"), res.get("apply_error")))
        print(sid, "detected_by=", res.get("detected_by"), "demo clean/patched exit=", res.get("demo_clean_exit"), res.get("demo_patched_exit"),
              res.get("apply_error", ""), flush=True)
    # the checks above re-traced lean/Generated/* from the PATCHED sources; the committed files describe /repo itself
    sh(["git", "-C", str(VERIF), "checkout", "--", "lean/Generated"])
    missed = [s for s in summary if not s[1]]
    print(f"{len(summary) - len(missed)}/{len(summary)} seeded changes detected; missed: {[m[0] for m in missed]}")


if __name__ == "__main__":
    main()
