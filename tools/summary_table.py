#!/usr/bin/env python3
"""Per-property summary (DESIGN.md section 11) from claims/, known_findings/ and evidence/."""
import json, pathlib
V = pathlib.Path(__file__).resolve().parent.parent
props = [json.loads(l) for l in open(V / "properties.jsonl")]
print("| id | title | theorems audited | quick: evaluations / model-vs-impl agreements | repaired defects (fix: commits) | known findings | notes |")
print("|---|---|---|---|---|---|---|")
for p in props:
    pid = p["id"]
    ev = json.loads((V / "evidence" / f"{pid}.json").read_text()) if (V / "evidence" / f"{pid}.json").exists() else {}
    kf = json.loads((V / "known_findings" / f"{pid}.json").read_text()) if (V / "known_findings" / f"{pid}.json").exists() else {}
    cov = ev.get("coverage", {})
    fixed = [f.split()[2] for f in kf.get("fixed", []) if len(f.split()) > 2]
    keys = [f["key"] for f in kf.get("findings", [])]
    notes = f"notes/{pid}.md" if (V / "notes" / f"{pid}.md").exists() else "DESIGN §3/§9"
    print(f"| {pid} | {p['title'][:70]} | {cov.get('discharged', '?')}/{cov.get('obligations', '?')} | {cov.get('evaluations', '?')} / {cov.get('traces_validated_against_impl', '?')} | "
          f"{', '.join(fixed) or '-'} | {len(keys)}{(': ' + '; '.join(keys[:4]) + (' …' if len(keys) > 4 else '')) if keys else ''} | {notes} |")
