#!/usr/bin/env python3
"""Writes MANIFEST.json from the table below (one entry per claimed property)."""
import json, pathlib
ROOT = pathlib.Path(__file__).resolve().parent

CLAIMS = {p.stem: json.loads(p.read_text()) for p in sorted((ROOT / "claims").glob("C*.json"))}
NOT_APPLICABLE = []

def main():
    checks = []
    for pid, c in sorted(CLAIMS.items()):
        checks.append({
            "property_id": pid,
            "quick_cmd": f"./check {pid} --tier quick",
            "thorough_cmd": f"./check {pid} --tier thorough",
            "evidence_file": f"/verif/evidence/{pid}.json",
            "replay_cmd_template": f"./check {pid} --replay {{path}}",
            "engine": "lean-proof+correspondence",
            "level_claimed": {"category": "proof", "text": c["text"], "design_ref": c["design"]},
            "level_note": c["note"],
            "technique": c["technique"],
        })
    claimed = set(CLAIMS)
    props = [json.loads(l)["id"] for l in open(ROOT / "properties.jsonl")]
    na = [x for x in NOT_APPLICABLE]
    listed = {x["property_id"] for x in na}
    for pid in props:
        if pid not in claimed and pid not in listed:
            na.append({"property_id": pid, "reason": "check not built yet in this round (work in progress; planned per DESIGN.md section 3)"})
    man = {
        "version": 1,
        "setup_cmd": "./setup.sh",
        "hooks": {"guard": "PYDREX_VERIF", "enable": "no source hooks: the harness substitutes module attributes (pydrex.minerals.LSODA) at run time; PYDREX_VERIF=1 is exported by ./check but not read by the repository",
                  "baseline_off_cmd": "cd /repo && /venv/bin/python -m pytest -ra -q -p no:cacheprovider --timeout=900 --continue-on-collection-errors",
                  "source_commits": [], "add_only": True},
        "engines": [{"name": "lean-proof+correspondence", "path": "/verif/check",
                     "serves_properties": sorted(claimed),
                     "kind_free_text": "Lean 4 theorems over a hand-written model (lean/), tied to /repo by a differential correspondence harness (harness/) driving the model's executable instantiation through a line protocol"}],
        "checks": checks,
        "not_applicable": na,
        "notes": "See DESIGN.md. Known findings: known_findings/Cxx.json (one file per property).",
    }
    (ROOT / "MANIFEST.json").write_text(json.dumps(man, indent=1) + "\n")
    print("MANIFEST.json:", len(checks), "checks,", len(na), "not claimed")

if __name__ == "__main__":
    main()
